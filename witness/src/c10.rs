//! C10 witnesses: updates take `&self` and leave the old map and handles usable.

/// Compile-pass: the old map, an earlier clone and a region handle are all usable after
/// insert_region / remove_region (updates borrow the old map immutably and return a new one).
/// ```no_run
/// use std::sync::Arc;
/// use vm_memory::{GuestAddress, GuestMemory, GuestMemoryMmap, GuestRegionMmap, MmapRegion};
/// let old: GuestMemoryMmap<()> = GuestMemoryMmap::from_ranges(&[(GuestAddress(0), 0x1000)]).unwrap();
/// let snapshot = old.clone();
/// let handle = old.find_region(GuestAddress(0)).unwrap();
/// let region = Arc::new(GuestRegionMmap::new(MmapRegion::new(0x1000).unwrap(), GuestAddress(0x10000)).unwrap());
/// let new = old.insert_region(region).unwrap();
/// let (smaller, removed) = new.remove_region(GuestAddress(0x10000), 0x1000).unwrap();
/// let _ = (old.num_regions(), snapshot.num_regions(), handle.size(), new.num_regions(), smaller.num_regions(), removed.size());
/// ```
pub fn old_map_stays_usable() {}

/// A map cannot be mutated in place through a shared handle: there is no `&mut` region access.
/// ```compile_fail,E0596
/// use vm_memory::{GuestAddress, GuestMemory, GuestMemoryMmap};
/// let m: GuestMemoryMmap<()> = GuestMemoryMmap::from_ranges(&[(GuestAddress(0), 0x1000)]).unwrap();
/// let r = m.find_region(GuestAddress(0)).unwrap();
/// r.set_hugetlbfs(true);
/// ```
/// ```no_run
/// use vm_memory::{GuestAddress, GuestMemory, GuestMemoryMmap};
/// let m: GuestMemoryMmap<()> = GuestMemoryMmap::from_ranges(&[(GuestAddress(0), 0x1000)]).unwrap();
/// let r = m.find_region(GuestAddress(0)).unwrap();
/// let _ = r.is_hugetlbfs();
/// ```
pub fn no_in_place_mutation() {}

/// The region vector is private: a client cannot build an unvalidated map.
/// ```compile_fail,E0451
/// use vm_memory::GuestMemoryMmap;
/// let _m: GuestMemoryMmap<()> = GuestMemoryMmap { regions: Vec::new() };
/// ```
/// ```no_run
/// use vm_memory::GuestMemoryMmap;
/// let _m: GuestMemoryMmap<()> = GuestMemoryMmap::new();
/// ```
pub fn no_unvalidated_map() {}
