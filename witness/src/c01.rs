//! C01 witnesses: safe client code cannot forge an accessor.

/// The fields of a volatile slice are private: no struct-literal construction.
/// ```compile_fail,E0451
/// use vm_memory::VolatileSlice;
/// let mut b = [0u8; 4];
/// let _s: VolatileSlice<()> = VolatileSlice { addr: b.as_mut_ptr(), size: 400, bitmap: (), mmap: None };
/// ```
/// ```no_run
/// use vm_memory::VolatileSlice;
/// let mut b = [0u8; 4];
/// let _s: VolatileSlice<()> = VolatileSlice::from(&mut b[..]);
/// ```
pub fn no_struct_literal() {}

/// The raw constructor is `unsafe`.
/// ```compile_fail,E0133
/// use vm_memory::VolatileSlice;
/// let mut b = [0u8; 4];
/// let _s = VolatileSlice::new(b.as_mut_ptr(), 400);
/// ```
/// ```no_run
/// use vm_memory::VolatileSlice;
/// let mut b = [0u8; 4];
/// let _s = unsafe { VolatileSlice::new(b.as_mut_ptr(), 4) };
/// ```
pub fn raw_constructor_is_unsafe() {}

/// The stored address cannot be read (or changed) by clients.
/// ```compile_fail,E0616
/// use vm_memory::VolatileSlice;
/// let mut b = [0u8; 4];
/// let s = VolatileSlice::from(&mut b[..]);
/// let _p = s.addr;
/// ```
/// ```no_run
/// use vm_memory::VolatileSlice;
/// let mut b = [0u8; 4];
/// let s = VolatileSlice::from(&mut b[..]);
/// let _p = s.ptr_guard().as_ptr();
/// ```
pub fn address_is_private() {}

/// The raw constructors of the typed references are `unsafe` too.
/// ```compile_fail,E0133
/// use vm_memory::{VolatileArrayRef, VolatileRef};
/// let mut v = [0u32; 2];
/// let _r = VolatileRef::<u32>::new(v.as_mut_ptr() as *mut u8);
/// ```
/// ```no_run
/// use vm_memory::{VolatileArrayRef, VolatileRef};
/// let mut v = [0u32; 2];
/// let _r = unsafe { VolatileRef::<u32>::new(v.as_mut_ptr() as *mut u8) };
/// let _a = unsafe { VolatileArrayRef::<u32>::new(v.as_mut_ptr() as *mut u8, 2) };
/// ```
pub fn typed_constructors_are_unsafe() {}
