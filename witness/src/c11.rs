//! C11 witnesses: snapshots, exclusive guards and their lifetimes, decided by rustc.

/// A `&M` obtained from a snapshot cannot outlive the snapshot.
/// ```compile_fail,E0597
/// use vm_memory::{GuestAddress, GuestAddressSpace, GuestMemoryAtomic, GuestMemoryMmap};
/// let atomic = GuestMemoryAtomic::new(GuestMemoryMmap::<()>::from_ranges(&[(GuestAddress(0), 0x1000)]).unwrap());
/// let escaped: &GuestMemoryMmap<()>;
/// {
///     let snapshot = atomic.memory();
///     escaped = &*snapshot;
/// }
/// let _ = escaped;
/// ```
/// ```no_run
/// use vm_memory::{GuestAddress, GuestAddressSpace, GuestMemoryAtomic, GuestMemoryMmap};
/// let atomic = GuestMemoryAtomic::new(GuestMemoryMmap::<()>::from_ranges(&[(GuestAddress(0), 0x1000)]).unwrap());
/// let snapshot = atomic.memory();
/// let inside: &GuestMemoryMmap<()> = &*snapshot;
/// let _ = inside;
/// ```
pub fn deref_bounded_by_snapshot() {}

/// `replace` consumes the exclusive guard: it cannot be used (or replaced with) twice.
/// ```compile_fail,E0382
/// use vm_memory::{GuestAddress, GuestMemoryAtomic, GuestMemoryMmap};
/// let mk = || GuestMemoryMmap::<()>::from_ranges(&[(GuestAddress(0), 0x1000)]).unwrap();
/// let atomic = GuestMemoryAtomic::new(mk());
/// let guard = atomic.lock().unwrap();
/// guard.replace(mk());
/// guard.replace(mk());
/// ```
/// ```no_run
/// use vm_memory::{GuestAddress, GuestMemoryAtomic, GuestMemoryMmap};
/// let mk = || GuestMemoryMmap::<()>::from_ranges(&[(GuestAddress(0), 0x1000)]).unwrap();
/// let atomic = GuestMemoryAtomic::new(mk());
/// let guard = atomic.lock().unwrap();
/// guard.replace(mk());
/// let guard = atomic.lock().unwrap();
/// guard.replace(mk());
/// ```
pub fn replace_consumes_the_guard() {}

/// The exclusive guard borrows the atomic: it cannot outlive it.
/// ```compile_fail,E0597
/// use vm_memory::{GuestAddress, GuestMemoryAtomic, GuestMemoryMmap};
/// let mk = || GuestMemoryMmap::<()>::from_ranges(&[(GuestAddress(0), 0x1000)]).unwrap();
/// let guard;
/// {
///     let atomic = GuestMemoryAtomic::new(mk());
///     guard = atomic.lock().unwrap();
/// }
/// guard.replace(mk());
/// ```
/// ```no_run
/// use vm_memory::{GuestAddress, GuestMemoryAtomic, GuestMemoryMmap};
/// let mk = || GuestMemoryMmap::<()>::from_ranges(&[(GuestAddress(0), 0x1000)]).unwrap();
/// let atomic = GuestMemoryAtomic::new(mk());
/// let guard = atomic.lock().unwrap();
/// guard.replace(mk());
/// ```
pub fn exclusive_guard_bounded_by_atomic() {}

/// There is no way to store a new map without holding the exclusive guard.
/// ```compile_fail,E0599
/// use vm_memory::{GuestAddress, GuestMemoryAtomic, GuestMemoryMmap};
/// let mk = || GuestMemoryMmap::<()>::from_ranges(&[(GuestAddress(0), 0x1000)]).unwrap();
/// let atomic = GuestMemoryAtomic::new(mk());
/// atomic.replace(mk());
/// ```
/// ```no_run
/// use vm_memory::{GuestAddress, GuestMemoryAtomic, GuestMemoryMmap};
/// let mk = || GuestMemoryMmap::<()>::from_ranges(&[(GuestAddress(0), 0x1000)]).unwrap();
/// let atomic = GuestMemoryAtomic::new(mk());
/// atomic.lock().unwrap().replace(mk());
/// ```
pub fn no_store_without_lock() {}

/// Compile-pass: the handle is Send + Sync + Clone, snapshots are Clone, and an owned Arc from
/// `into_inner()` stays usable after the replaceable memory itself is gone.
/// ```no_run
/// use std::sync::Arc;
/// use vm_memory::{GuestAddress, GuestAddressSpace, GuestMemory, GuestMemoryAtomic, GuestMemoryMmap};
/// fn send_sync_clone<T: Send + Sync + Clone>() {}
/// fn is_clone<T: Clone>() {}
/// send_sync_clone::<GuestMemoryAtomic<GuestMemoryMmap<()>>>();
/// is_clone::<<GuestMemoryAtomic<GuestMemoryMmap<()>> as GuestAddressSpace>::T>();
/// let owned: Arc<GuestMemoryMmap<()>> = {
///     let atomic = GuestMemoryAtomic::new(GuestMemoryMmap::<()>::from_ranges(&[(GuestAddress(0), 0x1000)]).unwrap());
///     let snap = atomic.memory();
///     let snap2 = snap.clone();
///     drop(snap);
///     snap2.into_inner()
/// };
/// let _ = owned.num_regions();
/// ```
pub fn handles_are_shareable_and_owned() {}
