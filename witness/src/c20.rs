//! C20 witnesses: size/alignment of the endian wrappers decided by const evaluation (independent
//! of the driver's layout facts), and the wrappers cannot be built from a raw field by clients.

/// Compile-pass: const assertions on size and alignment of all eight wrappers.
/// ```no_run
/// use std::mem::{align_of, size_of};
/// use vm_memory::{Be16, Be32, Be64, BeSize, Le16, Le32, Le64, LeSize};
/// const _: () = assert!(size_of::<Le16>() == 2 && align_of::<Le16>() == align_of::<u16>());
/// const _: () = assert!(size_of::<Le32>() == 4 && align_of::<Le32>() == align_of::<u32>());
/// const _: () = assert!(size_of::<Le64>() == 8 && align_of::<Le64>() == align_of::<u64>());
/// const _: () = assert!(size_of::<LeSize>() == size_of::<usize>() && align_of::<LeSize>() == align_of::<usize>());
/// const _: () = assert!(size_of::<Be16>() == 2 && align_of::<Be16>() == align_of::<u16>());
/// const _: () = assert!(size_of::<Be32>() == 4 && align_of::<Be32>() == align_of::<u32>());
/// const _: () = assert!(size_of::<Be64>() == 8 && align_of::<Be64>() == align_of::<u64>());
/// const _: () = assert!(size_of::<BeSize>() == size_of::<usize>() && align_of::<BeSize>() == align_of::<usize>());
/// ```
pub fn layout_const_asserts() {}

/// The raw field is private: a client cannot smuggle in a value with the wrong byte order.
/// ```compile_fail,E0423
/// use vm_memory::Le32;
/// let _x = Le32(0x1234_5678u32);
/// ```
/// ```no_run
/// use vm_memory::Le32;
/// let _x = Le32::from(0x1234_5678u32);
/// ```
pub fn private_constructor() {}

/// The wrappers are storable in guest memory (ByteValued), natives of a different width are not
/// silently accepted.
/// ```compile_fail,E0277
/// use vm_memory::Le32;
/// let _x = Le32::from(0x1234u16);
/// ```
/// ```no_run
/// use vm_memory::{ByteValued, Le32};
/// fn needs_bv<T: ByteValued>(_t: T) {}
/// needs_bv(Le32::from(0x1234u32));
/// ```
pub fn width_and_bytevalued() {}
