//! C19 witnesses: address arithmetic cannot be written with the plain operators.

/// Adding two guest addresses is not defined.
/// ```compile_fail,E0369
/// use vm_memory::{Address, GuestAddress};
/// let a = GuestAddress(1);
/// let b = GuestAddress(2);
/// let _c = a + b;
/// ```
/// Twin (compiles): the checked form.
/// ```no_run
/// use vm_memory::{Address, GuestAddress};
/// let a = GuestAddress(1);
/// let b = GuestAddress(2);
/// let _c = a.checked_add(b.raw_value());
/// ```
pub fn add_two_addresses() {}

/// Adding an integer to a guest address with `+` is not defined either.
/// ```compile_fail,E0369
/// use vm_memory::{Address, GuestAddress};
/// let a = GuestAddress(1);
/// let _c = a + 1u64;
/// ```
/// ```no_run
/// use vm_memory::{Address, GuestAddress};
/// let a = GuestAddress(1);
/// let _c = a.checked_add(1u64);
/// ```
pub fn add_integer() {}

/// A region-relative address is not a guest address.
/// ```compile_fail,E0308
/// use vm_memory::{Address, GuestAddress, MemoryRegionAddress};
/// let a = GuestAddress(16);
/// let r = MemoryRegionAddress(8);
/// let _d = a.checked_offset_from(r);
/// ```
/// ```no_run
/// use vm_memory::{Address, GuestAddress, MemoryRegionAddress};
/// let a = GuestAddress(16);
/// let r = GuestAddress(8);
/// let _d = a.checked_offset_from(r);
/// ```
pub fn mixing_address_kinds() {}

/// Subtracting with `-` is not defined.
/// ```compile_fail,E0369
/// use vm_memory::{Address, GuestAddress};
/// let a = GuestAddress(1);
/// let _c = a - 1u64;
/// ```
/// ```no_run
/// use vm_memory::{Address, GuestAddress};
/// let a = GuestAddress(1);
/// let _c = a.checked_sub(1u64);
/// ```
pub fn sub_integer() {}
