//! C12 witnesses: no accessor may outlive the region or map it came from — for ALL client programs.
//! Each item: the accessor escaping the block that owns the region/map must be rejected by the borrow
//! checker (E0597 / E0505 / E0515 / E0716); the twin uses it inside the block and compiles.
#![allow(unused)]

/// VolatileMemory::get_slice on a mapped region: the accessor cannot escape the block that owns its memory.
/// ```compile_fail,E0597
/// use vm_memory::{GuestAddress, GuestMemory, GuestMemoryMmap, GuestMemoryRegion, GuestRegionMmap, MemoryRegionAddress, MmapRegion, VolatileMemory, VolatileSlice, Bytes};
/// let escaped;
/// {
///     let region = MmapRegion::<()>::new(0x1000).unwrap();
///     escaped = region.get_slice(0, 16).unwrap();
/// }
/// let _ = &escaped;
/// ```
/// ```no_run
/// use vm_memory::{GuestAddress, GuestMemory, GuestMemoryMmap, GuestMemoryRegion, GuestRegionMmap, MemoryRegionAddress, MmapRegion, VolatileMemory, VolatileSlice, Bytes};
/// {
///     let region = MmapRegion::<()>::new(0x1000).unwrap();
///     let inside = region.get_slice(0, 16).unwrap();
///     let _ = &inside;
/// }
/// ```
pub fn region_get_slice() {}

/// VolatileMemory::as_volatile_slice: the accessor cannot escape the block that owns its memory.
/// ```compile_fail,E0597
/// use vm_memory::{GuestAddress, GuestMemory, GuestMemoryMmap, GuestMemoryRegion, GuestRegionMmap, MemoryRegionAddress, MmapRegion, VolatileMemory, VolatileSlice, Bytes};
/// let escaped;
/// {
///     let region = MmapRegion::<()>::new(0x1000).unwrap();
///     escaped = region.as_volatile_slice();
/// }
/// let _ = &escaped;
/// ```
/// ```no_run
/// use vm_memory::{GuestAddress, GuestMemory, GuestMemoryMmap, GuestMemoryRegion, GuestRegionMmap, MemoryRegionAddress, MmapRegion, VolatileMemory, VolatileSlice, Bytes};
/// {
///     let region = MmapRegion::<()>::new(0x1000).unwrap();
///     let inside = region.as_volatile_slice();
///     let _ = &inside;
/// }
/// ```
pub fn region_as_volatile_slice() {}

/// VolatileMemory::get_ref: the accessor cannot escape the block that owns its memory.
/// ```compile_fail,E0597
/// use vm_memory::{GuestAddress, GuestMemory, GuestMemoryMmap, GuestMemoryRegion, GuestRegionMmap, MemoryRegionAddress, MmapRegion, VolatileMemory, VolatileSlice, Bytes};
/// let escaped;
/// {
///     let region = MmapRegion::<()>::new(0x1000).unwrap();
///     escaped = region.get_ref::<u32>(0).unwrap();
/// }
/// let _ = &escaped;
/// ```
/// ```no_run
/// use vm_memory::{GuestAddress, GuestMemory, GuestMemoryMmap, GuestMemoryRegion, GuestRegionMmap, MemoryRegionAddress, MmapRegion, VolatileMemory, VolatileSlice, Bytes};
/// {
///     let region = MmapRegion::<()>::new(0x1000).unwrap();
///     let inside = region.get_ref::<u32>(0).unwrap();
///     let _ = &inside;
/// }
/// ```
pub fn region_get_ref() {}

/// VolatileMemory::get_array_ref: the accessor cannot escape the block that owns its memory.
/// ```compile_fail,E0597
/// use vm_memory::{GuestAddress, GuestMemory, GuestMemoryMmap, GuestMemoryRegion, GuestRegionMmap, MemoryRegionAddress, MmapRegion, VolatileMemory, VolatileSlice, Bytes};
/// let escaped;
/// {
///     let region = MmapRegion::<()>::new(0x1000).unwrap();
///     escaped = region.get_array_ref::<u32>(0, 4).unwrap();
/// }
/// let _ = &escaped;
/// ```
/// ```no_run
/// use vm_memory::{GuestAddress, GuestMemory, GuestMemoryMmap, GuestMemoryRegion, GuestRegionMmap, MemoryRegionAddress, MmapRegion, VolatileMemory, VolatileSlice, Bytes};
/// {
///     let region = MmapRegion::<()>::new(0x1000).unwrap();
///     let inside = region.get_array_ref::<u32>(0, 4).unwrap();
///     let _ = &inside;
/// }
/// ```
pub fn region_get_array_ref() {}

/// VolatileMemory::get_atomic_ref: the accessor cannot escape the block that owns its memory.
/// ```compile_fail,E0597
/// use vm_memory::{GuestAddress, GuestMemory, GuestMemoryMmap, GuestMemoryRegion, GuestRegionMmap, MemoryRegionAddress, MmapRegion, VolatileMemory, VolatileSlice, Bytes};
/// let escaped;
/// {
///     let region = MmapRegion::<()>::new(0x1000).unwrap();
///     escaped = region.get_atomic_ref::<std::sync::atomic::AtomicU32>(0).unwrap();
/// }
/// let _ = &escaped;
/// ```
/// ```no_run
/// use vm_memory::{GuestAddress, GuestMemory, GuestMemoryMmap, GuestMemoryRegion, GuestRegionMmap, MemoryRegionAddress, MmapRegion, VolatileMemory, VolatileSlice, Bytes};
/// {
///     let region = MmapRegion::<()>::new(0x1000).unwrap();
///     let inside = region.get_atomic_ref::<std::sync::atomic::AtomicU32>(0).unwrap();
///     let _ = &inside;
/// }
/// ```
pub fn region_get_atomic_ref() {}

/// GuestMemoryRegion::get_slice: the accessor cannot escape the block that owns its memory.
/// ```compile_fail,E0597
/// use vm_memory::{GuestAddress, GuestMemory, GuestMemoryMmap, GuestMemoryRegion, GuestRegionMmap, MemoryRegionAddress, MmapRegion, VolatileMemory, VolatileSlice, Bytes};
/// let escaped;
/// {
///     let region = GuestRegionMmap::<()>::new(MmapRegion::new(0x1000).unwrap(), GuestAddress(0)).unwrap();
///     escaped = GuestMemoryRegion::get_slice(&region, MemoryRegionAddress(0), 16).unwrap();
/// }
/// let _ = &escaped;
/// ```
/// ```no_run
/// use vm_memory::{GuestAddress, GuestMemory, GuestMemoryMmap, GuestMemoryRegion, GuestRegionMmap, MemoryRegionAddress, MmapRegion, VolatileMemory, VolatileSlice, Bytes};
/// {
///     let region = GuestRegionMmap::<()>::new(MmapRegion::new(0x1000).unwrap(), GuestAddress(0)).unwrap();
///     let inside = GuestMemoryRegion::get_slice(&region, MemoryRegionAddress(0), 16).unwrap();
///     let _ = &inside;
/// }
/// ```
pub fn guest_region_get_slice() {}

/// GuestMemory::get_slice: the accessor cannot escape the block that owns its memory.
/// ```compile_fail,E0597
/// use vm_memory::{GuestAddress, GuestMemory, GuestMemoryMmap, GuestMemoryRegion, GuestRegionMmap, MemoryRegionAddress, MmapRegion, VolatileMemory, VolatileSlice, Bytes};
/// let escaped;
/// {
///     let gm = GuestMemoryMmap::<()>::from_ranges(&[(GuestAddress(0), 0x1000)]).unwrap();
///     escaped = GuestMemory::get_slice(&gm, GuestAddress(0), 16).unwrap();
/// }
/// let _ = &escaped;
/// ```
/// ```no_run
/// use vm_memory::{GuestAddress, GuestMemory, GuestMemoryMmap, GuestMemoryRegion, GuestRegionMmap, MemoryRegionAddress, MmapRegion, VolatileMemory, VolatileSlice, Bytes};
/// {
///     let gm = GuestMemoryMmap::<()>::from_ranges(&[(GuestAddress(0), 0x1000)]).unwrap();
///     let inside = GuestMemory::get_slice(&gm, GuestAddress(0), 16).unwrap();
///     let _ = &inside;
/// }
/// ```
pub fn memory_get_slice() {}

/// GuestMemory::find_region: the accessor cannot escape the block that owns its memory.
/// ```compile_fail,E0597
/// use vm_memory::{GuestAddress, GuestMemory, GuestMemoryMmap, GuestMemoryRegion, GuestRegionMmap, MemoryRegionAddress, MmapRegion, VolatileMemory, VolatileSlice, Bytes};
/// let escaped;
/// {
///     let gm = GuestMemoryMmap::<()>::from_ranges(&[(GuestAddress(0), 0x1000)]).unwrap();
///     escaped = gm.find_region(GuestAddress(0)).unwrap();
/// }
/// let _ = &escaped;
/// ```
/// ```no_run
/// use vm_memory::{GuestAddress, GuestMemory, GuestMemoryMmap, GuestMemoryRegion, GuestRegionMmap, MemoryRegionAddress, MmapRegion, VolatileMemory, VolatileSlice, Bytes};
/// {
///     let gm = GuestMemoryMmap::<()>::from_ranges(&[(GuestAddress(0), 0x1000)]).unwrap();
///     let inside = gm.find_region(GuestAddress(0)).unwrap();
///     let _ = &inside;
/// }
/// ```
pub fn memory_find_region() {}

/// GuestMemory::iter: the accessor cannot escape the block that owns its memory.
/// ```compile_fail,E0597
/// use vm_memory::{GuestAddress, GuestMemory, GuestMemoryMmap, GuestMemoryRegion, GuestRegionMmap, MemoryRegionAddress, MmapRegion, VolatileMemory, VolatileSlice, Bytes};
/// let escaped;
/// {
///     let gm = GuestMemoryMmap::<()>::from_ranges(&[(GuestAddress(0), 0x1000)]).unwrap();
///     escaped = gm.iter().next().unwrap();
/// }
/// let _ = &escaped;
/// ```
/// ```no_run
/// use vm_memory::{GuestAddress, GuestMemory, GuestMemoryMmap, GuestMemoryRegion, GuestRegionMmap, MemoryRegionAddress, MmapRegion, VolatileMemory, VolatileSlice, Bytes};
/// {
///     let gm = GuestMemoryMmap::<()>::from_ranges(&[(GuestAddress(0), 0x1000)]).unwrap();
///     let inside = gm.iter().next().unwrap();
///     let _ = &inside;
/// }
/// ```
pub fn memory_iter() {}

/// GuestMemory::to_region_addr: the accessor cannot escape the block that owns its memory.
/// ```compile_fail,E0597
/// use vm_memory::{GuestAddress, GuestMemory, GuestMemoryMmap, GuestMemoryRegion, GuestRegionMmap, MemoryRegionAddress, MmapRegion, VolatileMemory, VolatileSlice, Bytes};
/// let escaped;
/// {
///     let gm = GuestMemoryMmap::<()>::from_ranges(&[(GuestAddress(0), 0x1000)]).unwrap();
///     escaped = gm.to_region_addr(GuestAddress(0)).unwrap().0;
/// }
/// let _ = &escaped;
/// ```
/// ```no_run
/// use vm_memory::{GuestAddress, GuestMemory, GuestMemoryMmap, GuestMemoryRegion, GuestRegionMmap, MemoryRegionAddress, MmapRegion, VolatileMemory, VolatileSlice, Bytes};
/// {
///     let gm = GuestMemoryMmap::<()>::from_ranges(&[(GuestAddress(0), 0x1000)]).unwrap();
///     let inside = gm.to_region_addr(GuestAddress(0)).unwrap().0;
///     let _ = &inside;
/// }
/// ```
pub fn memory_to_region_addr() {}

/// Sub-slices, offsets, halves, typed views and element references inherit the parent's lifetime:
/// none can outlive the buffer the parent slice borrows.
/// ```compile_fail,E0597
/// use vm_memory::{VolatileMemory, VolatileSlice};
/// let escaped;
/// {
///     let mut buf = [0u8; 64];
///     let s = VolatileSlice::from(&mut buf[..]);
///     escaped = s.subslice(8, 8).unwrap().offset(2).unwrap().split_at(2).unwrap().1;
/// }
/// let _ = &escaped;
/// ```
/// ```no_run
/// use vm_memory::{VolatileMemory, VolatileSlice};
/// {
///     let mut buf = [0u8; 64];
///     let s = VolatileSlice::from(&mut buf[..]);
///     let inside = s.subslice(8, 8).unwrap().offset(2).unwrap().split_at(2).unwrap().1;
///     let _ = &inside;
/// }
/// ```
pub fn derived_slices() {}

/// Array-ref -> to_slice / ref_at keep the lifetime of the memory, not of the intermediate accessor.
/// ```compile_fail,E0597
/// use vm_memory::{VolatileMemory, VolatileSlice};
/// let escaped;
/// {
///     let mut buf = [0u8; 64];
///     let s = VolatileSlice::from(&mut buf[..]);
///     escaped = (s.get_array_ref::<u32>(0, 4).unwrap().ref_at(1), s.get_ref::<u64>(8).unwrap().to_slice());
/// }
/// let _ = &escaped;
/// ```
/// ```no_run
/// use vm_memory::{VolatileMemory, VolatileSlice};
/// {
///     let mut buf = [0u8; 64];
///     let s = VolatileSlice::from(&mut buf[..]);
///     let inside = (s.get_array_ref::<u32>(0, 4).unwrap().ref_at(1), s.get_ref::<u64>(8).unwrap().to_slice());
///     let _ = &inside;
/// }
/// ```
pub fn typed_views() {}

/// While a volatile slice over a buffer is alive the buffer cannot be touched through Rust references.
/// ```compile_fail,E0506
/// use vm_memory::VolatileSlice;
/// let mut buf = [0u8; 64];
/// let s = VolatileSlice::from(&mut buf[..]);
/// buf[0] = 1;
/// let _ = s.len();
/// ```
/// ```no_run
/// use vm_memory::VolatileSlice;
/// let mut buf = [0u8; 64];
/// let s = VolatileSlice::from(&mut buf[..]);
/// let _ = s.len();
/// buf[0] = 1;
/// ```
pub fn exclusive_borrow_of_backing_buffer() {}

/// A region cannot be dropped (unmapped) while a slice of it is alive.
/// ```compile_fail,E0505
/// use vm_memory::{MmapRegion, VolatileMemory};
/// let region = MmapRegion::<()>::new(0x1000).unwrap();
/// let s = region.get_slice(0, 16).unwrap();
/// drop(region);
/// let _ = s.len();
/// ```
/// ```no_run
/// use vm_memory::{MmapRegion, VolatileMemory};
/// let region = MmapRegion::<()>::new(0x1000).unwrap();
/// let s = region.get_slice(0, 16).unwrap();
/// let _ = s.len();
/// drop(region);
/// ```
pub fn no_unmap_while_borrowed() {}

/// Pointer guards only hand out raw pointers and are exempt by the property: documented by a
/// compile-PASS witness (a guard may outlive the region; using its pointer is `unsafe`).
/// ```no_run
/// use vm_memory::{MmapRegion, VolatileMemory};
/// let guard;
/// {
///     let region = MmapRegion::<()>::new(0x1000).unwrap();
///     guard = region.get_slice(0, 16).unwrap().ptr_guard();
/// }
/// let _p: *const u8 = guard.as_ptr();
/// ```
pub fn ptr_guard_is_exempt() {}
