//! Compile-fail / compile-pass witnesses: rustc decides, for ALL client programs of the shape
//! shown, whether they type-check against /repo's current tree. Every `compile_fail,E…` doctest
//! is paired with a compiling twin that differs only in the offending line, so that a witness
//! which fails to compile for an unrelated reason (renamed API, wrong path) is detected.
//! Run with `cargo +nightly test --doc --offline` (stable ignores the error code).
pub mod c01;
pub mod c10;
pub mod c11;
pub mod c12;
pub mod c19;
pub mod c20;
