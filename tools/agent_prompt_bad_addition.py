import sys
pid = sys.argv[1]
root = sys.argv[2] if len(sys.argv) > 2 else 'wt9'
prop = open(f'/tmp/prop_{pid}.txt').read()
print(f"""You are helping to evaluate a verification effort by playing the role of a developer who lands a plausible pull request that ADDS functionality but gets one thing subtly wrong.

You have your own scratch git worktree of the Rust crate rust-vmm/vm-memory (v0.16.1) at /tmp/{root}/{pid} . Work ONLY inside /tmp/{root}/{pid} and /tmp/{root}-out/{pid}. Do NOT read or write anything under /verif or /repo (they are off limits; do not look at them even for hints). The sandbox has no network; use `--offline` with cargo and set CARGO_TARGET_DIR=/tmp/{root}/{pid}/target for every cargo command.

Here is a semantic property the crate is supposed to satisfy:

-----
{prop}
-----

Your task: produce ONE realistic source change (8 to 60 changed lines under /tmp/{root}/{pid}/src) that ADDS or EXTENDS something in or right beside the code that implements this property — a new public method or function, a ranged / batched / non-blocking / checked variant of an existing operation, an impl of one of the crate's own traits for one more type, a new constructor or conversion, a new fast path taken only by new code — and that makes the crate VIOLATE the property through the new code (or through the way the new code changes shared state that the existing API then observes), while
  (a) the crate still compiles (default features AND `--features backend-mmap,backend-atomic,backend-bitmap`; and `--features xen,backend-bitmap,backend-atomic` if you touch code shared with or inside the Xen backend), and
  (b) the existing test suite still passes unchanged: `cargo test --offline` (default features: 81 unit tests plus doctests) must pass. Passing also `cargo test --offline --features backend-mmap,backend-atomic,backend-bitmap` is preferred — say which you achieved.
Do NOT change the behaviour of existing public functions for existing callers (no edits inside existing function bodies except to call or share your new code); the defect must live in what you add. The property naturally extends to what you add: a new accessor-producing method must stay inside its parent; a new write path must mark exactly the bytes it wrote and take the guards its siblings take; a new constructor must validate what the others validate; a new arithmetic helper must report overflow instead of wrapping or panicking; a new lock / publish path must keep the exclusion and ordering; a new stream adapter must keep counts and positions right; a new conversion or comparison must respect the byte order; nothing guest-controlled may panic or loop forever.

The addition should look like something a real developer could plausibly write and a reviewer could plausibly approve — written in the style of its siblings, with a doc comment and a small unit test of its own that PASSES (the happy path works) — NOT an obvious sabotage. The mistake should need something SPECIFIC to manifest: a boundary value, zero length, an overflow-sized argument, an unaligned or page-straddling range, a short or interrupted transfer, a particular interleaving, a particular feature configuration, an element type wider than a byte, or two sites that each look fine alone. Read the relevant source first and pick a place where such a mistake is natural.

Also produce a DEMONSTRATION: a test file (an integration test under tests/, or a unit test module in a separate file, or a small program) that FAILS (assertion failure, panic, crash, wrong output) with your change applied and shows the property violated through the new code; on the unchanged crate it does not compile (the new API does not exist) — so also include, in the README, the one-line correct version of your addition with which the demonstration passes, and verify that too. If the property is about concurrency and a deterministic failing test is impractical, a deterministic sequence showing the lost invariant, or a stress test failing with high probability, is acceptable — explain.

Deliverables, all under /tmp/{root}-out/{pid}/ :
  1. patch.diff  — output of `git -C /tmp/{root}/{pid} diff -- src` containing ONLY the change to src/ (not the demonstration).
  2. fixed.diff — the same addition with the mistake corrected (also against the ORIGINAL tree), so that the two differ only in the defect.
  3. the demonstration file(s), with a comment at the top saying where to put it and the exact cargo command to run it (including features).
  4. README.md — what is added, which clause of the property breaks and through which call, what specific circumstances are needed, why the existing tests and the addition's own unit test do not notice, and the exact commands you ran with their observed results (baseline tests pass with patch.diff; demo fails with patch.diff; demo passes with fixed.diff).

Leave the worktree clean (original tree) when done. Keep your final answer short: the one-line idea, the files written, and what you verified.""")
