#!/usr/bin/env python3
"""Developer aid: apply one exact-string replacement to a scratch copy of /repo and run checks on it.
   tools/mut.py C05[,C16] src/file.rs 'old' 'new' [occurrence]
The scratch copy, its facts and its output are removed afterwards."""
import os, shutil, subprocess, sys, tempfile

VERIF = os.path.dirname(os.path.dirname(os.path.abspath(__file__)))

def main():
    props, rel, old, new = sys.argv[1:5]
    occ = int(sys.argv[5]) if len(sys.argv) > 5 else None
    d = tempfile.mkdtemp(prefix="vmmut-")
    try:
        repo = os.path.join(d, "repo")
        shutil.copytree("/repo", repo, ignore=shutil.ignore_patterns("target", ".git"))
        p = os.path.join(repo, rel)
        s = open(p).read()
        n = s.count(old)
        if n == 0:
            print("MUT: pattern not found"); return 2
        if n > 1 and occ is None:
            print(f"MUT: pattern occurs {n} times; give an occurrence index"); return 2
        if occ is None:
            s = s.replace(old, new)
        else:
            parts = s.split(old)
            s = old.join(parts[:occ + 1]) + new + old.join(parts[occ + 1:])
        open(p, "w").write(s)
        rc = 0
        for pid in props.split(","):
            env = dict(os.environ, VERIF_REPO=repo, VERIF_OUT=os.path.join(d, "out"))
            r = subprocess.run([os.path.join(VERIF, "check"), pid], env=env, cwd=VERIF, stdout=subprocess.PIPE, stderr=subprocess.STDOUT, text=True)
            print(r.stdout[-3000:])
            print(f"MUT: {pid} exit={r.returncode}")
            rc |= r.returncode
        return rc
    finally:
        shutil.rmtree(d, ignore_errors=True)

if __name__ == "__main__":
    sys.exit(main())
