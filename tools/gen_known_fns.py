#!/usr/bin/env python3
"""Regenerate rules/tables/known_fns.json: the keys of all Fn/AssocFn bodies of the REVIEWED tree per configuration.
Functions not in this list are "novel" and are inlined into their callers before the rules run (rules/inline.py).
Developer action only (after reviewing a tree); never run by a check."""
import json, os, sys
VERIF = os.path.dirname(os.path.dirname(os.path.abspath(__file__)))
sys.path.insert(0, VERIF)
from rules import facts
from rules.mir import strip_generics
paths, _h = facts.ensure(("FULL", "XEN", "MIN"))
out = {}
for cfg, p in paths.items():
    j = json.load(open(p))
    from rules import inline
    out[cfg] = {"fns": sorted({strip_generics(b["id"]) for b in j["bodies"] if b["kind"] in ("Fn", "AssocFn")}),
                "edges": sorted(inline.static_edges(j["bodies"]))}
json.dump(out, open(os.path.join(VERIF, "rules", "tables", "known_fns.json"), "w"), indent=0)
print({k: (len(v["fns"]), len(v["edges"])) for k, v in out.items()})
