import sys
pid=sys.argv[1]
prop=open(f'/tmp/prop_{pid}.txt').read()
print(f"""You are helping to evaluate a verification effort by playing the role of a developer who makes a subtle, realistic mistake.

You have your own scratch git worktree of the Rust crate rust-vmm/vm-memory (v0.16.1) at /tmp/wt/{pid} . Work ONLY inside /tmp/wt/{pid} and /tmp/wt-out/{pid}. Do NOT read or write anything under /verif or /repo (they are off limits; do not look at them even for hints). The sandbox has no network; use `--offline` with cargo and set CARGO_TARGET_DIR=/tmp/wt/{pid}/target for every cargo command.

Here is a semantic property the crate is supposed to satisfy:

-----
{prop}
-----

Your task: produce ONE source change to the crate (under /tmp/wt/{pid}/src) that looks like an ordinary REFACTORING / CLEANUP pull request of 15 to 60 changed lines — extract a private helper, merge or inline helpers, restructure a loop (for <-> iterator adaptors <-> while), turn a closure into a function or back, convert combinator chains <-> match / `?`, split a long function into private steps with a small private struct / enum / tuple for the intermediate state, de-duplicate two similar blocks, change a private signature — and that, as a side effect of the restructuring, subtly BREAKS this property (the kind of slip a reviewer skims past because "it is only a refactor": a value computed before instead of after, the requested instead of the completed count, an inclusive bound turned exclusive, a check moved after the use, a guard or lock released earlier because a binding moved, the wrong one of two similar variables threaded through, a case lost when branches were merged) while
  (a) the crate still compiles (default features AND `--features backend-mmap,backend-atomic,backend-bitmap`; and `--features xen,backend-bitmap,backend-atomic` if you touch code shared with or inside the Xen backend), and
  (b) the existing test suite still passes unchanged: `cargo test --offline` (default features: 81 unit tests plus doctests) must pass. Passing also `cargo test --offline --features backend-mmap,backend-atomic,backend-bitmap` is preferred (more realistic) but not required — say which you achieved.

The change should look like something a real developer could plausibly write (an "optimisation", a refactor, a simplification, an off-by-one, a forgotten case, a swapped argument), NOT an obvious sabotage, and it should need something SPECIFIC to manifest: a particular interleaving, a fault at a particular point, a multi-step sequence of operations, an unusual input (boundary value, zero length, overflow-sized value, unaligned address, page-straddling range...), a particular feature configuration, or two cooperating sites that each look fine alone. It must NOT be something that ordinary use or the existing tests would expose at once. Read the relevant source first and pick a place where such a mistake is natural.

Also produce a DEMONSTRATION: a test file (e.g. an integration test under tests/, or a unit test added in a separate file/module, or a small program) that FAILS (assertion failure, panic, crash, wrong output) with your change applied and PASSES on the unchanged crate. Verify both directions yourself by actually running it (use `git stash` / `git diff > patch` / `git apply` to switch). If the property is about concurrency and a deterministic failing test is impractical, a stress test that fails with high probability, or a test that demonstrates the lost invariant through a deterministic sequence, is acceptable — explain.

Deliverables, all under /tmp/wt-out/{pid}/ :
  1. patch.diff  — output of `git -C /tmp/wt/{pid} diff -- src` containing ONLY the breaking change to src/ (not the demonstration).
  2. the demonstration file(s) (e.g. demo_test.rs), with a comment at the top saying where to put it and the exact cargo command to run it (including features).
  3. README.md — which clause of the property breaks, what specific circumstances are needed for it to manifest, why the existing tests do not notice, and the exact commands you ran with their observed results (baseline tests pass with the change; demo fails with the change; demo passes without it).

When you are done, leave the worktree with the breaking change applied (but the demonstration file may stay or go). Keep your final answer short: the one-line idea of the change, the files written, and what you verified.""")
