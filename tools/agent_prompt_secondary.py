import sys
pid=sys.argv[1]
wt=sys.argv[2] if len(sys.argv) > 2 else 'wt18'
prop=open(f'/tmp/prop_{pid}.txt').read()
print(f"""You are helping to evaluate a verification effort by playing the role of a developer who makes a subtle, realistic mistake.

You have your own scratch git worktree of the Rust crate rust-vmm/vm-memory (v0.16.1) at /tmp/{wt}/{pid} . Work ONLY inside /tmp/{wt}/{pid} and /tmp/{wt}-out/{pid}. Do NOT read or write anything under /verif or /repo (they are off limits; do not look at them even for hints). The sandbox has no network; use `--offline` with cargo and set CARGO_TARGET_DIR=/tmp/{wt}/{pid}/target for every cargo command.

Here is a semantic property the crate is supposed to satisfy:

-----
{prop}
-----

Your task: produce ONE small source change to the crate (a patch of a few lines under /tmp/{wt}/{pid}/src) that BREAKS this property while
  (a) the crate still compiles (default features AND `--features backend-mmap,backend-atomic,backend-bitmap`; and `--features xen,backend-bitmap,backend-atomic` if you touch code shared with or inside the Xen backend), and
  (b) the existing test suite still passes unchanged: `cargo test --offline` (default features: 81 unit tests plus doctests) must pass. Passing also `cargo test --offline --features backend-mmap,backend-atomic,backend-bitmap` is preferred (more realistic) but not required — say which you achieved.

The change should look like something a real developer could plausibly write (an "optimisation", a refactor, a simplification, an off-by-one, a forgotten case, a swapped argument), NOT an obvious sabotage, and it should need something SPECIFIC to manifest: a particular interleaving, a fault at a particular point, a multi-step sequence of operations, an unusual input (boundary value, zero length, overflow-sized value, unaligned address, page-straddling range...), a particular feature configuration, or two cooperating sites that each look fine alone. It must NOT be something that ordinary use or the existing tests would expose at once. Read the relevant source first and pick a place where such a mistake is natural.

IMPORTANT for this round: do NOT pick the most central, most obvious function for this property (earlier reviewers have already looked hard at those). Read widely first and choose one of:
  - a SECONDARY implementation or forwarding layer of the same interface (a default trait method versus its override, the impls for `&T` / `&mut T` / `Arc<T>` / `Option<T>` / `()` wrappers, the slice-level versus the ref-level versus the array-level view, the region-level versus the memory-level entry point, the Xen-feature variant versus the unix variant, the builder versus the direct constructor, the `_volatile` variants versus the `Read`/`Write` variants, `&[u8]`/`&mut [u8]`/`Vec`/`Cursor`/`File`/`UnixStream` impls, atomics of a less common width, helper macros that stamp out several impls), where the defect shows only through that layer; or
  - TWO COOPERATING SITES that each look fine alone (a helper whose contract is loosened slightly and a caller that relied on the old contract; a value computed in one function in one unit and consumed in another in a different unit; a check moved from callee to only some callers); or
  - a path taken only on a RARE branch (partial transfer, short read, `Interrupted`/`WouldBlock` errors, the last region, an empty collection, a range ending exactly at the end of the address space, a hole between regions, offsets at `u64::MAX`/`usize::MAX`, a second call after a first one changed state).
Say in README.md which of these you chose.

Also produce a DEMONSTRATION: a test file (e.g. an integration test under tests/, or a unit test added in a separate file/module, or a small program) that FAILS (assertion failure, panic, crash, wrong output) with your change applied and PASSES on the unchanged crate. Verify both directions yourself by actually running it (use `git stash` / `git diff > patch` / `git apply` to switch). If the property is about concurrency and a deterministic failing test is impractical, a stress test that fails with high probability, or a test that demonstrates the lost invariant through a deterministic sequence, is acceptable — explain.

Deliverables, all under /tmp/{wt}-out/{pid}/ :
  1. patch.diff  — output of `git -C /tmp/{wt}/{pid} diff -- src` containing ONLY the breaking change to src/ (not the demonstration).
  2. the demonstration file(s) (e.g. demo_test.rs), with a comment at the top saying where to put it and the exact cargo command to run it (including features).
  3. README.md — which clause of the property breaks, what specific circumstances are needed for it to manifest, why the existing tests do not notice, and the exact commands you ran with their observed results (baseline tests pass with the change; demo fails with the change; demo passes without it).

When you are done, leave the worktree with the breaking change applied (but the demonstration file may stay or go). Keep your final answer short: the one-line idea of the change, the files written, and what you verified.""")
