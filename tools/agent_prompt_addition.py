import sys, json
pid = sys.argv[1]
root = sys.argv[2] if len(sys.argv) > 2 else 'wt8'
prop = open(f'/tmp/prop_{pid}.txt').read()
print(f"""You are helping to evaluate a verification effort by playing the role of a maintainer who lands ordinary, CORRECT pull requests that ADD or EXTEND functionality.

You have your own scratch git worktree of the Rust crate rust-vmm/vm-memory (v0.16.1) at /tmp/{root}/{pid} . Work ONLY inside /tmp/{root}/{pid} and /tmp/{root}-out/{pid}. Do NOT read or write anything under /verif or /repo (they are off limits; do not look at them even for hints). The sandbox has no network; use `--offline` with cargo and set CARGO_TARGET_DIR=/tmp/{root}/{pid}/target for every cargo command.

Here is a semantic property the crate satisfies today:

-----
{prop}
-----

Your task: produce THREE independent, small, realistic source changes to the crate that ADD or EXTEND something in or right next to the code that implements this property, and that are CORRECT: the property above must still hold afterwards for every input, configuration and schedule — for the existing API exactly as before, and for whatever you add, in the way the property would naturally extend to it (e.g. a new accessor-producing method stays inside its parent; a new write path marks exactly the bytes it wrote; a new constructor validates what the others validate; a new arithmetic helper reports overflow instead of wrapping or panicking; nothing guest-controlled can panic). Existing behaviour must not change: same results, same errors, same panics, same side effects for every existing public function.

Make the three changes DIFFERENT IN KIND. Ideas (pick what is natural at the site; no comment-only / whitespace-only / test-only changes):
  - a new public convenience method or function built from the existing building blocks (e.g. a `fill`/`zero`/`swap`/`compare`/`checked_*`/`try_*`/`*_at`/`is_*`/`len_*`/`iter_*`/`split_*`/`last_*`/`contains_*` style helper; a getter; a `From`/`TryFrom`/`AsRef`/`Default`/`Debug`/`Display`/`PartialEq` impl; an impl of one of the crate's own traits for one more type, e.g. for `&mut T`, `Box<T>`, `Arc<T>`, `Option<T>`, an array or a std type)
  - a new method that does real work of its own next to its siblings (not just a one-line wrapper): for instance a ranged variant of an existing whole-object operation, a batched variant of a per-item operation, a read-only query over state that existing methods maintain — written with the same care as its siblings (bounds checked the same way, overflow handled, tracking/guards handled)
  - a maintenance change that extends behaviour without altering existing results: an additional `debug_assert!` of an invariant that really always holds, a new `#[must_use]`/`#[inline]`/`const fn`, a new error-enum variant used only by new code, a more specific `Display` text for an existing variant, an extra field in a private struct that caches something (kept consistent everywhere), a new private helper used by new code, a new cfg-independent constant
  - a correct fast path or early-out in new code (not in existing public functions)
Each change should be between 8 and 60 changed lines and should sit in (or directly beside) the functions/types that implement the property above, not in unrelated code. At least TWO of the three must add code that itself has to respect the property (i.e. the property says something about what you added). Do not add new dependencies. Do not add `unsafe` unless the siblings you imitate need it, and then follow their discipline exactly.

Be careful: it is easy to get a new method subtly wrong (off-by-one at the end of a range, `+` that can overflow on a guest-chosen value, marking a different extent than was written, touching memory without the guard its siblings take, returning the requested instead of the completed count). The changes MUST be right. If in doubt, choose a more conservative addition. Add a unit test or doctest for what you add if that is natural (it is fine for the diff to include it), but the value is in the src change.

For EACH change i in 1..3, starting from the ORIGINAL tree each time (use `git stash` / `git checkout -- .` between them; they must apply independently to the original tree):
  (a) the crate must compile with default features, with `--features backend-mmap,backend-atomic,backend-bitmap`, and with `--features xen,backend-bitmap,backend-atomic`;
  (b) `cargo test --offline` (81 unit tests + doctests) and `cargo test --offline --features backend-mmap,backend-atomic,backend-bitmap` must pass;
  (c) `cargo clippy`-cleanliness is NOT required.

Deliverables, all under /tmp/{root}-out/{pid}/ :
  - addition1.diff, addition2.diff, addition3.diff — each the output of `git -C /tmp/{root}/{pid} diff -- src` for that change alone against the original tree;
  - README.md — for each: one line saying what it adds, and a short argument why the property still holds for old and new code (mention bounds, overflow, panics, tracking, guards, ordering where relevant), and the commands you ran with results.

Leave the worktree clean (original tree) when done. Keep your final answer short: the three one-line descriptions and what you verified.""")
