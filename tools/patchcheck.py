#!/usr/bin/env python3
"""Run all (or the named) quick checks against /repo + <patch> on a scratch COPY (never touches /repo).
   tools/patchcheck.py <patch.diff> [Cnn ...]     prints, per check that alarms, the rules and the first report lines."""
import concurrent.futures as cf, os, shutil, subprocess, sys, tempfile
VERIF = os.path.dirname(os.path.dirname(os.path.abspath(__file__)))
REPO = os.environ.get("VERIF_REPO", "/repo")


def main():
    patch = os.path.abspath(sys.argv[1])
    pids = sys.argv[2:] or [f"C{i:02d}" for i in range(1, 21)]
    verbose = os.environ.get("PC_VERBOSE")
    d = tempfile.mkdtemp(prefix="vmpatch-")
    try:
        repo = os.path.join(d, "repo")
        shutil.copytree(REPO, repo, ignore=shutil.ignore_patterns("target", ".git"))
        r = subprocess.run(["patch", "-p1", "-s", "-i", patch], cwd=repo, capture_output=True, text=True)
        if r.returncode != 0:
            print("PATCH DOES NOT APPLY:", r.stdout, r.stderr)
            return 2
        env = dict(os.environ, VERIF_REPO=repo, VERIF_OUT=os.path.join(d, "out"), VERIF_TIER="quick")
        # facts first (serialised), then checks in parallel
        subprocess.run([sys.executable, os.path.join(VERIF, "rules", "facts.py"), "FULL", "XEN"], env=env, cwd=VERIF, capture_output=True, text=True)

        def one(pid):
            r = subprocess.run([os.path.join(VERIF, "check"), pid, "--tier", "quick"], env=env, cwd=VERIF, stdout=subprocess.PIPE, stderr=subprocess.STDOUT, text=True)
            return pid, r.returncode, r.stdout
        bad = {}
        with cf.ThreadPoolExecutor(max_workers=8) as ex:
            for pid, rc, out in ex.map(one, pids):
                if rc != 0:
                    rules = sorted({l.strip().split(" ")[1] for l in out.splitlines() if l.strip().startswith("rule ")})
                    bad[pid] = rules or [f"(exit {rc})"]
                    if verbose:
                        print(f"--- {pid} ---")
                        print("\n".join(l for l in out.splitlines() if "rule " in l or "FATAL" in l or "error" in l.lower())[:6000])
        print(os.path.basename(os.path.dirname(patch)) + "/" + os.path.basename(patch), "ALARMS:" if bad else "silent", bad if bad else "")
        return 1 if bad else 0
    finally:
        shutil.rmtree(d, ignore_errors=True)


sys.exit(main())
