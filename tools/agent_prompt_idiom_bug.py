import sys
pid=sys.argv[1]
wt=sys.argv[2] if len(sys.argv) > 2 else 'wt15'
prop=open(f'/tmp/prop_{pid}.txt').read()
print(f"""You are helping to evaluate a verification effort by playing the role of a developer who makes a subtle, realistic mistake.

You have your own scratch git worktree of the Rust crate rust-vmm/vm-memory (v0.16.1) at /tmp/{wt}/{pid} . Work ONLY inside /tmp/{wt}/{pid} and /tmp/{wt}-out/{pid}. Do NOT read or write anything under /verif or /repo (they are off limits; do not look at them even for hints). The sandbox has no network; use `--offline` with cargo and set CARGO_TARGET_DIR=/tmp/{wt}/{pid}/target for every cargo command.

Here is a semantic property the crate is supposed to satisfy:

-----
{prop}
-----

Your task: produce ONE source change to the crate (under /tmp/{wt}/{pid}/src) that looks like an ordinary "modernise the idioms" pull request of 10 to 50 changed lines, and that, as a side effect, subtly BREAKS this property. The rewrite should use the newer spellings a contributor reaches for today — `let ... else`, `?` on `Option`, `bool::then_some` / `then`, `Option::is_some_and` / `is_none_or` / `filter` / `zip` / `map_or`, `matches!`, a `match` on `std::cmp::Ordering` (`a.cmp(&b)`) instead of a comparison ladder, `match x.len() {{ 0 => .., _ if .. => .. }}`, iterator adaptors (`enumerate`, `zip`, `skip`, `take`, `take_while`, `try_for_each`, `fold`, `position`, `last`, `windows`) instead of index loops or the reverse, `checked_sub(1)` / `slice[..x].last()` instead of `x > 0 && .. [x - 1]`, `usize::try_from(..)` instead of sign tests, `get_or_insert`, struct update syntax, a hand-written `impl Clone / Default / PartialEq / PartialOrd / Ord` replacing a `#[derive]`, a bool parameter replaced by a closure parameter (or the reverse), a small state struct with a `&mut self` method — and the slip must live INSIDE the new spelling, the kind a reviewer skims past because the new form reads so naturally: the wrong arm of the `Ordering` match, `Less` where `Less | Equal` was meant, a wildcard arm that swallows a case, `take` before `enumerate` changing which count is seen, `skip(1)` on the wrong side of a `zip`, `last()` of the wrong prefix, `then_some` on the negated condition, `filter` with a strict instead of a non-strict bound, `is_some_and` where the `None` case needed `true`, a hand-written `cmp` with swapped operands or comparing a truncated value, a hand-written `clone` that rebuilds instead of sharing, a closure parameter invoked with the two similar arguments swapped, the count taken from the iterator before instead of after an adaptor, an early `return` that became a `continue`, while
  (a) the crate still compiles (default features AND `--features backend-mmap,backend-atomic,backend-bitmap`; and `--features xen,backend-bitmap,backend-atomic` if you touch code shared with or inside the Xen backend), and
  (b) the existing test suite still passes unchanged: `cargo test --offline` (default features: 81 unit tests plus doctests) must pass. Passing also `cargo test --offline --features backend-mmap,backend-atomic,backend-bitmap` is preferred (more realistic) but not required — say which you achieved.

The change should look like something a real developer could plausibly write (an "optimisation", a refactor, a simplification, an off-by-one, a forgotten case, a swapped argument), NOT an obvious sabotage, and it should need something SPECIFIC to manifest: a particular interleaving, a fault at a particular point, a multi-step sequence of operations, an unusual input (boundary value, zero length, overflow-sized value, unaligned address, page-straddling range...), a particular feature configuration, or two cooperating sites that each look fine alone. It must NOT be something that ordinary use or the existing tests would expose at once. Read the relevant source first and pick a place where such a mistake is natural.

Also produce a DEMONSTRATION: a test file (e.g. an integration test under tests/, or a unit test added in a separate file/module, or a small program) that FAILS (assertion failure, panic, crash, wrong output) with your change applied and PASSES on the unchanged crate. Verify both directions yourself by actually running it (use `git stash` / `git diff > patch` / `git apply` to switch). If the property is about concurrency and a deterministic failing test is impractical, a stress test that fails with high probability, or a test that demonstrates the lost invariant through a deterministic sequence, is acceptable — explain.

Deliverables, all under /tmp/{wt}-out/{pid}/ :
  1. patch.diff  — output of `git -C /tmp/{wt}/{pid} diff -- src` containing ONLY the breaking change to src/ (not the demonstration).
  2. the demonstration file(s) (e.g. demo_test.rs), with a comment at the top saying where to put it and the exact cargo command to run it (including features).
  3. README.md — which clause of the property breaks, what specific circumstances are needed for it to manifest, why the existing tests do not notice, and the exact commands you ran with their observed results (baseline tests pass with the change; demo fails with the change; demo passes without it).

When you are done, leave the worktree with the breaking change applied (but the demonstration file may stay or go). Keep your final answer short: the one-line idea of the change, the files written, and what you verified.""")
