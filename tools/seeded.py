#!/usr/bin/env python3
"""Confirm a sub-agent's seeded change and record it under /verif/seeded/<id>/.
   tools/seeded.py <id> <prop> <outdir> --demo <file> --as tests/<name>.rs --features "<f>" [--release-too] --needs "<text>"
Steps: (1) fresh scratch worktree of /repo HEAD: baseline tests pass with the patch; demo FAILS with the patch, PASSES without;
       (2) git -C /repo apply; run all 20 quick checks; git -C /repo checkout -- . ; (3) write seeded/<id>/{patch.diff, demo, meta.json}."""
import argparse, json, os, shutil, subprocess, sys, tempfile

VERIF = os.path.dirname(os.path.dirname(os.path.abspath(__file__)))
ALL = [f"C{i:02d}" for i in range(1, 21)]


def sh(cmd, cwd=None, env=None, timeout=1800):
    r = subprocess.run(cmd, cwd=cwd, env=env, shell=isinstance(cmd, str), stdout=subprocess.PIPE, stderr=subprocess.STDOUT, text=True, timeout=timeout)
    return r.returncode, r.stdout


def run_checks(patch, tag):
    rc, out = sh(["git", "-C", "/repo", "status", "--porcelain"])
    assert out.strip() == "", "/repo working tree not clean: " + out
    caught = {}
    try:
        rc, out = sh(["git", "-C", "/repo", "apply", patch])
        assert rc == 0, out
        envc = dict(os.environ, VERIF_OUT=os.path.join(tempfile.gettempdir(), "seed-out-" + tag))
        for pid in ALL:
            rc, out = sh([os.path.join(VERIF, "check"), pid, "--tier", "quick"], cwd=VERIF, env=envc)
            rules = sorted({l.strip().split(" ")[1] for l in out.splitlines() if l.strip().startswith("rule ")})
            if rc != 0:
                caught[pid] = rules or ["(exit %d)" % rc]
    finally:
        sh(["git", "-C", "/repo", "checkout", "--", "."])
        shutil.rmtree(os.path.join(tempfile.gettempdir(), "seed-out-" + tag), ignore_errors=True)
    rc, out = sh(["git", "-C", "/repo", "status", "--porcelain"])
    assert out.strip() == "", "/repo not restored: " + out
    return caught


def recheck(ids):
    rc_all = 0
    for sid in ids:
        sd = os.path.join(VERIF, "seeded", sid)
        meta = json.load(open(os.path.join(sd, "meta.json")))
        caught = run_checks(os.path.join(sd, "patch.diff"), sid)
        meta["detected_by_checks"] = caught
        meta["detected_by_target_property"] = meta["breaks_property"] in caught
        json.dump(meta, open(os.path.join(sd, "meta.json"), "w"), indent=1)
        print(f"{sid}: target {meta['breaks_property']} {'CAUGHT' if meta['detected_by_target_property'] else 'MISSED'}; all: {caught}")
        rc_all |= 0 if meta["detected_by_target_property"] else 1
    return rc_all


def main():
    if len(sys.argv) > 1 and sys.argv[1] == "--recheck":
        ids = sys.argv[2:] or sorted(os.listdir(os.path.join(VERIF, "seeded")))
        return recheck(ids)
    ap = argparse.ArgumentParser()
    ap.add_argument("id"); ap.add_argument("prop"); ap.add_argument("outdir")
    ap.add_argument("--demo", required=True); ap.add_argument("--as", dest="dest", required=True)
    ap.add_argument("--features", default=""); ap.add_argument("--needs", default=""); ap.add_argument("--idea", default="")
    ap.add_argument("--test-args", default="")
    ap.add_argument("--fixed", default="", help="reference = the tree with this corrected twin applied (wrong ADDITIONS: the demo needs the new API)")
    a = ap.parse_args()
    patch = os.path.join(a.outdir, "patch.diff")
    demo = os.path.join(a.outdir, a.demo)
    d = tempfile.mkdtemp(prefix="vmseed-")
    wt = os.path.join(d, "wt")
    env = dict(os.environ, CARGO_TARGET_DIR=os.path.join(d, "target"), CARGO_NET_OFFLINE="true")
    log = {}
    try:
        rc, out = sh(["git", "-C", "/repo", "worktree", "add", "-q", "--detach", wt, "HEAD"])
        assert rc == 0, out
        feat = ["--features", a.features] if a.features else []
        testname = os.path.splitext(os.path.basename(a.dest))[0]
        demo_cmd = ["cargo", "test", "--offline"] + feat + ["--test", testname] + (a.test_args.split() if a.test_args else [])
        os.makedirs(os.path.join(wt, os.path.dirname(a.dest)), exist_ok=True)
        # without the patch (or with the corrected twin of a wrong addition): demo passes
        if a.fixed:
            rc, out = sh(["git", "apply", os.path.join(a.outdir, a.fixed)], cwd=wt)
            assert rc == 0, "fixed twin does not apply: " + out
        shutil.copyfile(demo, os.path.join(wt, a.dest))
        rc, out = sh(demo_cmd, cwd=wt, env=env)
        log["demo_without_patch"] = {"cmd": " ".join(demo_cmd), "exit": rc, "tail": out[-600:], "reference": ("corrected twin " + a.fixed) if a.fixed else "unchanged tree"}
        os.remove(os.path.join(wt, a.dest))
        if a.fixed:
            sh(["git", "checkout", "--", "."], cwd=wt)
            sh(["git", "clean", "-fdq", "-e", "target"], cwd=wt)
        # with the patch: baseline passes, demo fails
        rc, out = sh(["git", "apply", patch], cwd=wt)
        assert rc == 0, "patch does not apply: " + out
        rcb, outb = sh(["cargo", "test", "--offline", "--no-fail-fast"], cwd=wt, env=env)
        log["baseline_with_patch"] = {"cmd": "cargo test --offline --no-fail-fast", "exit": rcb, "results": [l for l in outb.splitlines() if l.startswith("test result")]}
        rcf, outf = sh(["cargo", "test", "--offline", "--no-fail-fast", "--features", "backend-mmap,backend-atomic,backend-bitmap"], cwd=wt, env=env)
        log["full_features_with_patch"] = {"exit": rcf, "results": [l for l in outf.splitlines() if l.startswith("test result")]}
        shutil.copyfile(demo, os.path.join(wt, a.dest))
        rc2, out2 = sh(demo_cmd, cwd=wt, env=env)
        log["demo_with_patch"] = {"cmd": " ".join(demo_cmd), "exit": rc2, "tail": out2[-900:]}
        confirmed = log["demo_without_patch"]["exit"] == 0 and rcb == 0 and rc2 != 0
        print(f"confirm: demo w/o patch exit={log['demo_without_patch']['exit']} | baseline with patch exit={rcb} | full-feature tests exit={rcf} | demo with patch exit={rc2}  => {'CONFIRMED' if confirmed else 'NOT CONFIRMED'}")
    finally:
        sh(["git", "-C", "/repo", "worktree", "remove", "--force", wt])
        shutil.rmtree(d, ignore_errors=True)
    if not confirmed:
        print(json.dumps(log, indent=1)[:3000])
        return 2
    # run our checks against /repo with the patch applied
    rc, out = sh(["git", "-C", "/repo", "status", "--porcelain"])
    assert out.strip() == "", "/repo working tree not clean: " + out
    caught = {}
    try:
        rc, out = sh(["git", "-C", "/repo", "apply", patch])
        assert rc == 0, out
        envc = dict(os.environ, VERIF_OUT=os.path.join(tempfile.gettempdir(), "seed-out-" + a.id))
        for pid in ALL:
            rc, out = sh([os.path.join(VERIF, "check"), pid, "--tier", "quick"], cwd=VERIF, env=envc)
            rules = sorted({l.strip().split(" ")[1] for l in out.splitlines() if l.strip().startswith("rule ")})
            if rc != 0:
                caught[pid] = rules or ["(exit %d)" % rc]
    finally:
        sh(["git", "-C", "/repo", "checkout", "--", "."])
        shutil.rmtree(os.path.join(tempfile.gettempdir(), "seed-out-" + a.id), ignore_errors=True)
    rc, out = sh(["git", "-C", "/repo", "status", "--porcelain"])
    assert out.strip() == "", "/repo not restored: " + out
    sd = os.path.join(VERIF, "seeded", a.id)
    os.makedirs(sd, exist_ok=True)
    shutil.copyfile(patch, os.path.join(sd, "patch.diff"))
    shutil.copyfile(demo, os.path.join(sd, os.path.basename(a.dest)))
    if os.path.exists(os.path.join(a.outdir, "README.md")):
        shutil.copyfile(os.path.join(a.outdir, "README.md"), os.path.join(sd, "AGENT_README.md"))
    if a.fixed:
        shutil.copyfile(os.path.join(a.outdir, a.fixed), os.path.join(sd, "fixed.diff"))
    meta = {"id": a.id, "breaks_property": a.prop, "idea": a.idea, "needs_to_manifest": a.needs,
            "demonstration": {"file": os.path.basename(a.dest), "place_at": a.dest, "command": log["demo_with_patch"]["cmd"]},
            "confirmed_by_me": {"demo_passes_without_patch": True, "baseline_81_tests_pass_with_patch": True,
                                "full_feature_tests_pass_with_patch": log["full_features_with_patch"]["exit"] == 0,
                                "demo_fails_with_patch": True, "log": log},
            "detected_by_checks": caught, "detected_by_target_property": a.prop in caught}
    if a.fixed:
        meta["kind"] = "wrong ADDITION: the defect lives in new code; fixed.diff is the same addition with the defect corrected (the demonstration passes on it)"
    json.dump(meta, open(os.path.join(sd, "meta.json"), "w"), indent=1)
    print(f"seeded/{a.id}: caught by {caught if caught else 'NOTHING'}")
    return 0 if a.prop in caught else 1


if __name__ == "__main__":
    sys.exit(main())
