#!/usr/bin/env python3
"""Automated mutation sweeps (developer aid, DESIGN.md §7): generate one-line mutants of /repo's non-test code and run all 20 quick
checks against each on a scratch copy (tools/patchcheck.py). A mutant that every check passes is printed as `silent` and has to be
classified by hand: outside the properties, caught by the baseline tests, or a blind spot (then: a rule + a mutant in
sensitivity/mutants.py).

    tools/sweep.py negate|boundary|operators|delete|swapargs [outdir]

Nothing here is part of a check; no mutant is ever applied to /repo itself."""
import difflib, glob, os, re, subprocess, sys

VERIF = os.path.dirname(os.path.dirname(os.path.abspath(__file__)))
REPO = os.environ.get("VERIF_REPO", "/repo")


def sources():
    for f in sorted(glob.glob(os.path.join(REPO, "src", "**", "*.rs"), recursive=True)):
        if f.endswith("windows.rs"):
            continue
        src = open(f).read()
        cut = src.find("#[cfg(test)]\nmod tests")
        if cut < 0:
            cut = src.find("#[cfg(test)]\npub(crate) mod tests")
        body = src if cut < 0 else src[:cut]
        lines = src.split("\n")
        yield f, lines, body.count("\n")


def emit(out, n, f, lines, new, what):
    rel = os.path.relpath(f, REPO)
    d = "".join(difflib.unified_diff([x + "\n" for x in lines], [x + "\n" for x in new], "a/" + rel, "b/" + rel, n=2))
    open(os.path.join(out, f"m{n:03d}.diff"), "w").write(d)
    open(os.path.join(out, f"m{n:03d}.txt"), "w").write(what + "\n")


def generate(mode, out):
    n = 0
    for f, lines, nb in sources():
        rel = os.path.relpath(f, REPO)
        for i, l in enumerate(lines[:nb]):
            st = l.strip()
            if st.startswith(("//", "///", "#")) or (i > 0 and "#[cfg(miri)]" in lines[i - 1]):
                continue
            muts = []
            if mode == "negate":
                m = re.match(r"^(\s*(?:\} else )?(?:if|while) )(.+) \{\s*$", l)
                if m and " let " not in l and "cfg!" not in l and not m.group(2).startswith("!("):
                    muts.append(f"{m.group(1)}!({m.group(2)}) {{")
            elif mode == "boundary":
                for a, b in ((" < ", " <= "), (" <= ", " < "), (" > ", " >= "), (" >= ", " > ")):
                    for m in re.finditer(re.escape(a), l):
                        if "=>" in l[m.start() - 1:m.end() + 1] or "->" in l[m.start() - 2:m.end() + 1]:
                            continue
                        muts.append(l[:m.start()] + b + l[m.end():])
            elif mode == "operators":
                for pat, rep in ((r"\bmin\(", "max("), (r"\bmax\(", "min("), (r"\btrue\b", "false"), (r"\bfalse\b", "true"), (r" && ", " || "),
                                 (r" \|\| ", " && "), (r"saturating_add\(", "wrapping_add("), (r"\.checked_sub\(1\)", ".checked_sub(0)"),
                                 (r" - 1\b", " - 0"), (r" \+ 1\b", " + 0"), (r">> 6\b", ">> 5"), (r"& 63\b", "& 31")):
                    for m in re.finditer(pat, l):
                        muts.append(l[:m.start()] + rep + l[m.end():])
            elif mode == "delete":
                if (re.match(r"^(self|[a-z_][\w]*)(\.[\w]+(\(\))?)*\.[\w]+\(.*\);$", st) or re.match(r"^[a-z_][\w:]*\(.*\);$", st)) and \
                        not st.startswith(("let ", "return", "assert", "debug_assert", "const_assert", "unreachable")):
                    muts.append(None)
            elif mode == "swapargs":
                arg = r"[a-z_][\w\.]*(?:\(\))?(?: as [\w\*: ]+)?"
                for m in re.finditer(r"(\b[\w:\.]+)\((" + arg + r"), (" + arg + r")([,\)])", l):
                    if m.group(2) != m.group(3) and m.group(1) not in ("min", "max", "std::cmp::min", "std::cmp::max", "assert_eq", "assert_ne"):
                        muts.append(l[:m.start(2)] + m.group(3) + ", " + m.group(2) + l[m.end(3):])
            for mu in muts:
                new = lines[:i] + lines[i + 1:] if mu is None else lines[:i] + [mu] + lines[i + 1:]
                n += 1
                emit(out, n, f, lines, new, f"{rel}:{i + 1}: {mode}: {st[:100]}")
    return n


def main():
    mode = sys.argv[1]
    out = sys.argv[2] if len(sys.argv) > 2 else f"/tmp/sweep-{mode}"
    os.makedirs(out, exist_ok=True)
    n = generate(mode, out)
    print(f"{n} mutants in {out}")
    for d in sorted(glob.glob(os.path.join(out, "*.diff"))):
        r = subprocess.run([sys.executable, os.path.join(VERIF, "tools", "patchcheck.py"), d], capture_output=True, text=True)
        last = (r.stdout.strip().splitlines() or ["?"])[-1]
        print(open(d[:-5] + ".txt").read().strip(), "=>", "silent" if " silent" in last else "reported", flush=True)


if __name__ == "__main__":
    main()
