#!/bin/sh
# tools/scratch.sh <patch> <name>: scratch copy of /repo + patch under /tmp/scr/<name> (for interactive debugging with VERIF_REPO=...)
set -e
d=/tmp/scr/$2; rm -rf $d; mkdir -p $d
rsync -a --exclude target --exclude .git /repo/ $d/
patch -p1 -s -d $d -i "$1"
echo $d
