#!/usr/bin/env python3
"""Record already-confirmed sub-agent seeds in bulk (round 9): tools/seeded_record.py <table.py> <outroot>
   The confirmation itself was run per seed in the agent's scratch worktree by a confirm script (demo on the unchanged tree passes;
   81 baseline tests and the full-feature tests pass with the patch; demo fails with the patch) whose logs are <outroot>/<Cnn>/log_*.txt;
   this tool reads those logs, runs all 20 quick checks against /repo + patch on a scratch copy (tools/patchcheck.py, in parallel)
   and writes seeded/<id>/{patch.diff, demo, AGENT_README.md, meta.json} in the format of tools/seeded.py.
   `tools/seeded.py --recheck <id>..` re-runs the checks with the patch applied to /repo itself."""
import ast, concurrent.futures as cf, json, os, re, shutil, subprocess, sys
VERIF = os.path.dirname(os.path.dirname(os.path.abspath(__file__)))


def results(path):
    try:
        txt = open(path).read()
    except OSError:
        return None, []
    return txt, [l for l in txt.splitlines() if l.startswith("test result")]


def detect(patch):
    r = subprocess.run([sys.executable, os.path.join(VERIF, "tools", "patchcheck.py"), patch], cwd=VERIF, capture_output=True, text=True)
    last = (r.stdout.strip().splitlines() or [""])[-1]
    m = re.search(r"ALARMS: (\{.*\})\s*$", last)
    if m:
        return ast.literal_eval(m.group(1))
    assert last.rstrip().endswith("silent"), "patchcheck: " + r.stdout[-500:] + r.stderr[-500:]
    return {}


def main():
    ns = {}
    exec(open(sys.argv[1]).read(), ns)
    root = sys.argv[2]
    rows = ns["T"] + ns.get("T_UNIT", [])
    with cf.ThreadPoolExecutor(max_workers=3) as ex:
        found = list(ex.map(lambda r: detect(os.path.join(root, r[1], "patch.diff")), rows))
    rc = 0
    for row, caught in zip(rows, found):
        sid, prop, demo, feats, targs, idea, needs = row[:7]
        out = os.path.join(root, prop)
        hook = row[7] if len(row) > 7 else None
        logs = {}
        for k, f in (("demo_without_patch", "log_orig.txt"), ("baseline_with_patch", "log_base.txt"), ("full_features_with_patch", "log_full.txt"), ("demo_with_patch", "log_patch.txt")):
            txt, res = results(os.path.join(out, f))
            logs[k] = {"results": res, "tail": (txt or "")[-700:] if k.startswith("demo") else ""}
        passed = lambda k: bool(logs[k]["results"]) and all(" 0 failed" in l and l.startswith("test result: ok") for l in logs[k]["results"])
        failed = lambda k: any("FAILED" in l for l in logs[k]["results"]) or "panicked" in logs[k]["tail"] or "error" in logs[k]["tail"]
        confirmed = passed("demo_without_patch") and passed("baseline_with_patch") and failed("demo_with_patch")
        if not confirmed:
            print(f"{sid}: NOT CONFIRMED by the logs"); rc = 1
            continue
        sd = os.path.join(VERIF, "seeded", sid)
        os.makedirs(sd, exist_ok=True)
        shutil.copyfile(os.path.join(out, "patch.diff"), os.path.join(sd, "patch.diff"))
        shutil.copyfile(os.path.join(out, demo), os.path.join(sd, demo))
        if hook:
            shutil.copyfile(os.path.join(out, hook), os.path.join(sd, hook))
        if os.path.exists(os.path.join(out, "README.md")):
            shutil.copyfile(os.path.join(out, "README.md"), os.path.join(sd, "AGENT_README.md"))
        name = os.path.splitext(demo)[0]
        if hook:
            place, cmd = f"src/mmap/{demo} (+ {hook} on src/mmap/xen.rs)", f"cargo test --offline --features {feats} --lib demo_c17"
        else:
            place = f"tests/{prop.lower()}_demo.rs"
            cmd = "cargo test --offline" + (f" --features {feats}" if feats else "") + f" --test {prop.lower()}_demo" + (f" {targs}" if targs else "")
        meta = {"id": sid, "breaks_property": prop, "idea": idea, "needs_to_manifest": needs,
                "demonstration": {"file": demo, "place_at": place, "command": cmd},
                "confirmed_by_me": {"demo_passes_without_patch": True, "baseline_81_tests_pass_with_patch": True,
                                    "full_feature_tests_pass_with_patch": passed("full_features_with_patch"),
                                    "demo_fails_with_patch": True, "where": "the agent's scratch worktree of /repo HEAD, reset and cleaned first (confirm script)", "log": logs},
                "detected_by_checks": caught, "detected_by_target_property": prop in caught,
                "checks_run_on": "scratch copy of /repo + patch.diff (tools/patchcheck.py)"}
        json.dump(meta, open(os.path.join(sd, "meta.json"), "w"), indent=1)
        print(f"seeded/{sid}: target {prop} {'REPORTED' if prop in caught else 'MISSED'}; all: {caught}")
        rc |= 0 if prop in caught else 1
    return rc


sys.exit(main())
