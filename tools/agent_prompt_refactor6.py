import sys, json
pid = sys.argv[1]
wt = sys.argv[2] if len(sys.argv) > 2 else 'wt17'
props = {json.loads(l)["id"]: json.loads(l) for l in open('/verif/properties.jsonl')}
p = props[pid]
prop = open(f'/tmp/prop_{pid}.txt').read()
print(f"""You are helping to evaluate a verification effort by playing the role of a maintainer who makes ordinary, CORRECT refactorings.

You have your own scratch git worktree of the Rust crate rust-vmm/vm-memory (v0.16.1) at /tmp/{wt}/{pid} . Work ONLY inside /tmp/{wt}/{pid} and /tmp/{wt}-out/{pid}. Do NOT read or write anything under /verif or /repo (they are off limits; do not look at them even for hints). The sandbox has no network; use `--offline` with cargo and set CARGO_TARGET_DIR=/tmp/{wt}/{pid}/target for every cargo command.

Here is a semantic property the crate satisfies today:

-----
{prop}
-----

Your task: produce THREE independent, small, BEHAVIOUR-PRESERVING source changes (pure refactorings / cleanups) to the code that implements this property. After each change the crate must behave EXACTLY as before for every input, configuration and schedule: same results, same error values, same panics (none new, none removed), same overflow behaviour in debug and release builds, same order and extent of side effects (memory accesses, dirty-page marks, system calls, lock/unlock order), same public API (you may add private helpers; do not remove or change public signatures). The property above must still hold afterwards, for the same reasons.

Make the three changes DIFFERENT IN KIND, and realistic — the sort of thing that shows up in ordinary pull requests. Ideas (pick what is natural at the site; do not do trivial comment-only or whitespace-only changes):
  - extract a few lines into a private helper function or method, or inline a small private helper at its call site(s)
  - change the control-flow form without changing meaning: `match` <-> `if let` <-> `?` / `ok_or` / `map_err` / `and_then`; early return <-> nested if/else; swapped branches with negated condition; `while` <-> `loop` + `break`; iterator chain <-> explicit `for` loop
  - introduce or remove intermediate `let` bindings; rename locals/parameters/private functions; reorder independent statements (only when truly independent)
  - replace an expression with a semantically identical one with the SAME overflow/panic behaviour (e.g. `a.min(b)` <-> `std::cmp::min(a, b)`, `x >= y` <-> `!(x < y)`, `a > b` <-> `b < a`, `len == 0` <-> `is_empty()`, `checked_add(..).ok_or(..)?` rewritten as a `match`, `addr.checked_add(n)` <-> an equivalent already-existing helper of the crate)
  - move a function between impl blocks / reorder items; add `#[inline]`; tighten a private item's visibility; replace a `Self {{ .. }}` literal by an existing equivalent constructor or vice versa ONLY if they are really identical
  - de-duplicate two identical code blocks into one shared private function
  - BIGGER, structural refactorings are welcome (up to ~60 changed lines): split a long function into two or three private steps; merge a tiny private helper into its only caller; introduce a small private struct / tuple / type alias to carry intermediate values; convert a free function into an associated function or method (or back); change a PRIVATE function's signature (pass fields instead of `&self`, return a tuple instead of making two calls); convert between an indexed `for` loop and iterator adaptors (`enumerate`, `zip`, `take_while`, `for_each`, `fold`); replace `unwrap_or` / `map_or` / `and_then` / `ok_or_else` / `filter` chains by `match`/`if let` or the reverse; hoist a loop-invariant computation out of a loop or sink it back; replace hand-written arithmetic by a std helper ONLY when it is identical for every input including overflow behaviour; rewrite a macro-generated body in an equivalent way
At least TWO of your three changes must be of this bigger, structural kind, and the three must differ from one another in kind.
Each change should touch code that matters for the property above (the functions that implement it), not unrelated code. Each should be between 3 and 40 changed lines. Be careful: it is surprisingly easy to change overflow behaviour, evaluation order, or which value (requested vs. completed count, exclusive vs. inclusive end) is used — the changes MUST NOT do that. If in doubt, choose a more conservative refactoring.

For EACH change i in 1..3, starting from the ORIGINAL tree each time (use `git stash` / `git checkout -- .` between them; they must apply independently to the original tree):
  (a) the crate must compile with default features, with `--features backend-mmap,backend-atomic,backend-bitmap`, and with `--features xen,backend-bitmap,backend-atomic`;
  (b) `cargo test --offline` (81 unit tests + doctests) and `cargo test --offline --features backend-mmap,backend-atomic,backend-bitmap` must pass;
  (c) `cargo clippy`-cleanliness is NOT required.

Deliverables, all under /tmp/{wt}-out/{pid}/ :
  - refactor1.diff, refactor2.diff, refactor3.diff — each the output of `git -C /tmp/{wt}/{pid} diff -- src` for that change alone against the original tree;
  - README.md — for each: one line saying what kind of refactoring it is, and a short argument why behaviour is unchanged (mention overflow, panics, side-effect order where relevant), and the commands you ran with results.

Leave the worktree clean (original tree) when done. Keep your final answer short: the three one-line descriptions and what you verified.""")
