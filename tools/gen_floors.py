#!/usr/bin/env python3
"""Regenerate rules/tables/rule_floors.json from a run on the CURRENT tree (developer action after reviewing per_rule counts;
never run by a check). Uses the thorough tier without mutants so that MIN is included where a module analyses it."""
import json, os, subprocess, sys, tempfile
VERIF = os.path.dirname(os.path.dirname(os.path.abspath(__file__)))
sys.path.insert(0, VERIF)
out = {}
d = tempfile.mkdtemp()
for i in range(1, 21):
    pid = f"C{i:02d}"
    env = dict(os.environ, VERIF_OUT=d, VERIF_NO_SELFTEST="1", VERIF_NO_FLOORS="1", VERIF_DUMP_OBLIGATIONS=os.path.join(d, pid + ".ob.json"))
    r = subprocess.run([os.path.join(VERIF, "check"), pid, "--tier", "thorough"], cwd=VERIF, env=env, capture_output=True, text=True)
    assert r.returncode == 0, r.stdout
    obs = json.load(open(os.path.join(d, pid + ".ob.json")))
    per = {}
    for o in obs:
        if o["ok"]:
            per.setdefault(str(o["config"]), {}).setdefault(o["rule"], 0)
            per[str(o["config"])][o["rule"]] += 1
    out[pid] = per
json.dump(out, open(os.path.join(VERIF, "rules", "tables", "rule_floors.json"), "w"), indent=1, sort_keys=True)
print("written", sum(len(v2) for v in out.values() for v2 in v.values()), "rule floors")
