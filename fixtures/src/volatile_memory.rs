//! Fixture twin of vm-memory's accessor types (module path `volatile_memory::…` on purpose).
use std::ptr::{copy, write_volatile};

pub trait Bitmap {
    fn mark_dirty(&self, offset: usize, len: usize);
    fn slice_at(&self, offset: usize) -> Self;
}
impl Bitmap for () {
    fn mark_dirty(&self, _o: usize, _l: usize) {}
    fn slice_at(&self, _o: usize) -> Self {}
}

pub struct PtrGuardMut {
    addr: *mut u8,
    len: usize,
}
impl PtrGuardMut {
    pub fn as_ptr(&self) -> *mut u8 {
        self.addr
    }
}

#[derive(Clone, Copy)]
pub struct VolatileSlice<B> {
    addr: *mut u8,
    size: usize,
    bitmap: B,
}

impl<B: Bitmap + Clone> VolatileSlice<B> {
    pub unsafe fn with_bitmap(addr: *mut u8, size: usize, bitmap: B) -> Self {
        VolatileSlice { addr, size, bitmap }
    }
    pub fn ptr_guard_mut(&self) -> PtrGuardMut {
        PtrGuardMut { addr: self.addr, len: self.size }
    }
    // R5.1.marked: write, no mark at all
    pub fn store_unmarked(&self, v: u8) {
        let g = self.ptr_guard_mut();
        unsafe { write_volatile(g.as_ptr(), v) };
    }
    // R5.1.marked: mark only on one branch
    pub fn store_sometimes_marked(&self, v: u8, flag: bool) {
        let g = self.ptr_guard_mut();
        unsafe { write_volatile(g.as_ptr(), v) };
        if flag {
            self.bitmap.mark_dirty(0, 1);
        }
    }
    // R5.1.extent: copies `count` bytes, marks one byte
    pub fn copy_in_short_mark(&self, src: *const u8, count: usize) {
        unsafe {
            copy(src, self.addr, count);
        }
        self.bitmap.mark_dirty(0, 1);
    }
    // R5.2.derivation: pointer moved by `offset`, bitmap sliced at 0
    pub fn subslice_wrong_bitmap(&self, offset: usize, count: usize) -> Self {
        unsafe { VolatileSlice::with_bitmap(self.addr.add(offset), count, self.bitmap.slice_at(0)) }
    }
    // R16.1: a read path that marks
    pub fn load_marks(&self) -> u8 {
        self.bitmap.mark_dirty(0, 1);
        unsafe { std::ptr::read_volatile(self.addr) }
    }
    // R17.2: raw access to the stored address without a guard
    pub fn poke_unguarded(&self, v: u8) {
        unsafe { write_volatile(self.addr, v) };
        self.bitmap.mark_dirty(0, 1);
    }
}

// R18.3: division by the size of a generic element type without a zero-size guard
pub fn elements_in<T: Copy>(bytes: usize) -> usize {
    bytes / std::mem::size_of::<T>()
}

// R18.3: pointer difference in units of a generic element type without a zero-size guard
pub fn elements_between<T: Copy>(start: *const T, end: *const T) -> usize {
    // SAFETY: fixture only; never called.
    unsafe { end.offset_from(start) as usize }
}
