use std::sync::atomic::{AtomicU64, Ordering};

pub struct BadBitmap {
    map: Vec<AtomicU64>,
    size: usize,
}

impl BadBitmap {
    // load -> store window: loses concurrent marks
    pub fn set_bit_racy(&self, n: usize) {
        let old = self.map[n >> 6].load(Ordering::SeqCst);
        self.map[n >> 6].store(old | (1 << (n & 63)), Ordering::SeqCst);
    }
    // RMW whose operand depends on a prior load
    pub fn set_bit_window(&self, n: usize) {
        let old = self.map[n >> 6].load(Ordering::SeqCst);
        self.map[n >> 6].fetch_or(old | (1 << (n & 63)), Ordering::SeqCst);
    }
    // harvest that reports a load and clears separately
    pub fn harvest_split(&self) -> Vec<u64> {
        self.map
            .iter()
            .map(|u| {
                let v = u.load(Ordering::SeqCst);
                u.fetch_and(0, Ordering::SeqCst);
                v
            })
            .collect()
    }
    // clearer that keeps only the bit instead of clearing it
    pub fn reset_bit_wrong(&self, n: usize) {
        self.map[n >> 6].fetch_and(1 << (n & 63), Ordering::SeqCst);
    }
    // setter with a mask taken from another index
    pub fn set_bit_wrong_word(&self, n: usize, m: usize) {
        self.map[m >> 6].fetch_or(1 << (n & 63), Ordering::SeqCst);
    }
    // an operation outside the recognised set
    pub fn toggle(&self, n: usize) {
        self.map[n >> 6].fetch_xor(1 << (n & 63), Ordering::SeqCst);
    }
}
