//! Positive controls: the same shapes the rules look for in vm-memory, broken on purpose.
//! The driver analyses this crate with the same command line; every rule with an expected count
//! of zero on the real tree must report its instance here on every run.
#![allow(dead_code, unused_variables, clippy::all)]
pub mod bad_bitmap;
pub mod volatile_memory;
