// Demonstration for finding F1 (C17): the pointer guard of an element array reports an element
// count as its byte length. Drop into /repo/tests/ and run `cargo test --test array_guard_len`.
use vm_memory::{VolatileMemory, VolatileSlice};

#[test]
fn array_ref_guard_spans_its_bytes() {
    let mut mem = [0u8; 64];
    let s = VolatileSlice::from(&mut mem[..]);
    let a = s.get_array_ref::<u32>(0, 4).unwrap();
    assert_eq!(a.to_slice().len(), 16);
    assert_eq!(a.ptr_guard().len(), 16); // before the fix: 4
    assert_eq!(a.ptr_guard_mut().len(), 16); // before the fix: 4
}
