// Demonstration for finding F3 (C18 / C07): copies of the crate's own zero-sized ByteValued
// element types panic. Drop into /repo/tests/ and run `cargo test --test zst_copy`.
use vm_memory::{VolatileMemory, VolatileSlice};

#[test]
fn slice_copy_to_zst() {
    let mut mem = [0u8; 16];
    let s = VolatileSlice::from(&mut mem[..]);
    let mut buf = [[0u8; 0]; 4];
    assert_eq!(s.copy_to(&mut buf[..]), 0); // before the fix: attempt to divide by zero
}

#[test]
fn slice_copy_from_zst() {
    let mut mem = [0u8; 16];
    let s = VolatileSlice::from(&mut mem[..]);
    let buf = [[0u8; 0]; 4];
    s.copy_from(&buf[..]); // before the fix: attempt to divide by zero
}

#[test]
fn array_copy_to_zst() {
    let mut mem = [0u8; 16];
    let s = VolatileSlice::from(&mut mem[..]);
    let a = s.get_array_ref::<[u8; 0]>(0, 4).unwrap();
    let mut buf = [[0u8; 0]; 4];
    assert_eq!(a.copy_to(&mut buf[..]), 0); // before the fix: offset_from on a zero-sized pointee panics
}
