// Demonstration for finding F4 (C18): an empty buffer at an unmapped guest address is an error at
// guest-memory level although the Bytes contract (and the slice/region level) say Ok(0).
// Drop into /repo/tests/ and run `cargo test --features backend-mmap --test empty_access`.
use vm_memory::{Bytes, GuestAddress, GuestMemoryMmap, MemoryRegionAddress, GuestMemory};

#[test]
fn empty_buffer_is_a_noop_at_every_layer() {
    let gm: GuestMemoryMmap<()> = GuestMemoryMmap::from_ranges(&[(GuestAddress(0x1000), 0x1000)]).unwrap();
    let unmapped = GuestAddress(0x10_0000);
    // region level: out-of-range offset, empty buffer
    let region = gm.find_region(GuestAddress(0x1000)).unwrap();
    assert_eq!(region.write(&[], MemoryRegionAddress(0x5000)).unwrap(), 0);
    assert_eq!(region.read(&mut [], MemoryRegionAddress(0x5000)).unwrap(), 0);
    // guest-memory level: before the fix both are Err(InvalidGuestAddress)
    assert_eq!(gm.write(&[], unmapped).unwrap(), 0);
    assert_eq!(gm.read(&mut [], unmapped).unwrap(), 0);
    gm.write_slice(&[], unmapped).unwrap();
    gm.read_slice(&mut [], unmapped).unwrap();
    gm.write_obj([0u8; 0], unmapped).unwrap();
    let _: [u8; 0] = gm.read_obj(unmapped).unwrap();
}
