"""Sensitivity mutants: one-line source changes that break a property while compiling; each names the
rule that must report it. Applied to a scratch copy of /repo's working tree (never to /repo itself).
A mutant whose `old` text no longer occurs (because /repo was edited) is skipped and reported as skipped."""

VM = "src/volatile_memory.rs"
GM = "src/guest_memory.rs"
MM = "src/mmap/mod.rs"
UX = "src/mmap/unix.rs"
XN = "src/mmap/xen.rs"
AB = "src/bitmap/backend/atomic_bitmap.rs"
IO = "src/io.rs"

M = []


def m(id, props, file, old, new, expect, occ=None):
    M.append(dict(id=id, props=props.split(","), file=file, old=old, new=new, expect=expect, occ=occ))


# ---------------------------------------------------------------- C01
m("c01-end-plus-one", "C01", VM, "if mem_end > self.len() {", "if mem_end > self.len() + 1 {", "R1.2.range_checked")
m("c01-subslice-checks-zero", "C01", VM, "let _ = self.compute_end_offset(offset, count)?;\n\n        // SAFETY: This is safe because the pointer is range-checked by compute_end_offset, and\n        // the lifetime",
  "let _ = self.compute_end_offset(offset, 0)?;\n\n        // SAFETY: This is safe because the pointer is range-checked by compute_end_offset, and\n        // the lifetime", "R1.2.range_checked")
m("c01-split-at-clamped", "C01", VM, "let end = self.offset(mid)?;", "let end = self.offset(mid.min(self.size))?;", "R1.2.same_addr")
m("c01-ref-at-le", "C01", VM, "assert!(index < self.nelem);", "assert!(index <= self.nelem);", "R1.2.ref_at")
m("c01-array-wrapping-mul", "C01", VM, "            .and_then(|n| n.checked_mul(size_of::<T>() as isize))", "            .map(|n| n.wrapping_mul(size_of::<T>() as isize))", "R1.4.array_bytes")
m("c01-alignment-mask", "C01", VM, "if ((self.addr as usize) & (alignment - 1)) != 0 {", "if ((self.addr as usize) & (alignment - 1)) > 1 {", "R1.5.alignment_mask")
m("c01-region-weak-check", "C01", UX, "let _ = self.compute_end_offset(offset, count)?;", "if offset > self.size { return Err(volatile_memory::Error::OutOfBounds { addr: offset }); }", "R1.2.range_checked")
m("c01-xen-region-weak-check", "C01", XN, "let _ = self.compute_end_offset(offset, count)?;", "if offset > self.size { return Err(volatile_memory::Error::OutOfBounds { addr: offset }); }", "R1.2.range_checked")
# ---------------------------------------------------------------- C02
m("c02-find-region-lt", "C02", MM, "Err(x) if (x > 0 && addr <= self.regions[x - 1].last_addr()) => Some(x - 1),", "Err(x) if (x > 0 && addr < self.regions[x - 1].last_addr()) => Some(x - 1),", "R2.1.err_arm")
m("c02-in-range-le", "C02", GM, "addr.raw_value() < self.len()", "addr.raw_value() <= self.len()", "R2.1.address_in_range")
m("c02-check-address-start", "C02", GM, "self.find_region(addr).map(|_| addr)", "self.find_region(addr).map(|r| r.start_addr())", "R2.3.check_address")
m("c02-last-addr-min", "C02", GM, ".fold(GuestAddress(0), std::cmp::max)", ".fold(GuestAddress(0), std::cmp::min)", "R2.3.last_addr")
m("c02-check-range-ge", "C02", GM, "Ok(count) => count == len,", "Ok(count) => count >= len.min(1),", "R2.3.check_range")
m("c02-region-index-clamped", "C02", MM, "index.map(|x| self.regions[x].as_ref())", "index.map(|x| self.regions[x.min(self.regions.len() - 1)].as_ref())", "R2.2.returns_indexed_region")
# ---------------------------------------------------------------- C03
m("c03-total-le", "C03", GM, "Some(x) if x < count => x,", "Some(x) if x <= count => x,", "R3.1.total_update")
m("c03-buf-not-advanced", "C03", GM, "region.write(&buf[offset..], caddr)", "region.write(&buf[..], caddr)", "R3.2.client")
m("c03-no-cap", "C03", GM, "let len = std::cmp::min(cap, (count - total) as GuestUsize);", "let len = (count - total) as GuestUsize;", "R3.1.callback_args")
m("c03-region-forwarder-count", "C03", MM, "            .write_volatile_to(addr.0 as usize, dst, count)", "            .write_volatile_to(addr.0 as usize, dst, count.min(1 << 30))", "R3.5.region_forwarder")
# ---------------------------------------------------------------- C04
m("c04-start-bound-gt", "C04", VM, "        if addr >= self.size {\n            return Err(Error::OutOfBounds { addr });\n        }\n\n        // NOTE: the duality",
  "        if addr > self.size {\n            return Err(Error::OutOfBounds { addr });\n        }\n\n        // NOTE: the duality", "R4.1.start_bound")
m("c04-element-loop-unbounded", "C04", VM, "        for v in buf.iter_mut().take(self.len()) {", "        for v in buf.iter_mut() {", "R4.2.element_loop")
m("c04-slice-copy-no-min", "C04", VM, "            let count = min(self.size, slice.size);", "            let count = self.size;", "R4.2.slice_to_slice")
m("c04-read-obj-fresh", "C04", "src/bytes.rs", "self.read_slice(result.as_mut_slice(), addr).map(|_| result)", "self.read_slice(T::zeroed().as_mut_slice(), addr).map(|_| result)", "R4.5.read_obj")
# ---------------------------------------------------------------- C05 / C16
m("c05-ref-store-unmarked", "C05", VM, "        self.bitmap.mark_dirty(0, self.len())\n    }", "    }", "R5.1.marked")
m("c05-subslice-bitmap-zero", "C05", VM, "self.bitmap.slice_at(offset),\n                self.mmap,", "self.bitmap.slice_at(0),\n                self.mmap,", "R5.2.derivation")
m("c05-fd-error-unmarked", "C05", IO, "        buf.bitmap().mark_dirty(0, buf.len());\n", "", "R5.1.marked")
m("c05-atomic-mark-offset", "C05", VM, "self.bitmap.mark_dirty(addr, size_of::<T>())", "self.bitmap.mark_dirty(0, size_of::<T>())", "R5.1.extent")
m("c05-baseslice-drops-base", "C05,C09", "src/bitmap/backend/slice.rs", ".mark_dirty(self.base_offset.wrapping_add(offset), len)", ".mark_dirty(offset, len)", "R5.3.baseslice")
m("c16-load-marks", "C16", VM, "            .map(|r| r.load(order).into())", "            .map(|r| { self.bitmap.mark_dirty(addr, size_of::<T>()); r.load(order).into() })", "R16.1.read_route_marks")
m("c16-mark-whole-slice", "C16", VM, "        let count = copy_slice(guard.as_ptr(), src, total);\n        slice.bitmap.mark_dirty(0, count);", "        let count = copy_slice(guard.as_ptr(), src, total);\n        slice.bitmap.mark_dirty(0, slice.len());", "R5.1.extent")
m("c16-fd-ok-marks-all", "C16", IO, "        buf.bitmap().mark_dirty(0, bytes_read);", "        buf.bitmap().mark_dirty(0, buf.len());", "R5.1.extent")
# ---------------------------------------------------------------- C06
m("c06-lowbit-one", "C06", VM, "    addr & (!addr + 1)", "    1 | (addr & 0)", "R6.6.lowbit_idiom")
m("c06-align-src-only", "C06", VM, "let align = min(alignment(src as usize), alignment(dst as usize));", "let align = alignment(src as usize);", "R6.3.both_pointers")
m("c06-routing-strict", "C06", VM, "if total <= size_of::<usize>() {", "if total < size_of::<usize>() {", "R6.5.routing")
m("c06-gate-halved", "C06", VM, "            if align < min_align {\n                return;\n            }", "            if align < min_align / 2 {\n                return;\n            }", "R6.3.gate")
m("c06-order-relaxed", "C06", "src/atomic_integer.rs", "                self.store(val, order)", "                self.store(val, Ordering::Relaxed)", "R6.8.atomic_forward")
# ---------------------------------------------------------------- C07
m("c07-bitmap-len0", "C07,C09,C16", AB, "if len == 0 {\n            return;\n        }", "", "A4.unreviewed")
m("c07-compute-offset-wraps", "C01", VM, "match base.checked_add(offset) {", "match Some(base.wrapping_add(offset)) {", "?")   # a silent wrap never crashes (not C07); the overflowing request is then answered with an accessor: C01
m("c07-checked-offset-unchecked", "C07", GM, "base.checked_add(offset as u64)\n            .and_then(|addr| self.check_address(addr))", "self.check_address(base.unchecked_add(offset as u64))", "A4.unreviewed", occ=1)
# ---------------------------------------------------------------- C08
m("c08-harvest-load-store", "C08", AB, ".map(|u| u.fetch_and(0, Ordering::SeqCst))", ".map(|u| { let v = u.load(Ordering::SeqCst); u.store(0, Ordering::SeqCst); v })", "R8.1.store")
m("c08-set-bit-load-store", "C08", AB, "self.map[index >> 6].fetch_or(1 << (index & 63), Ordering::SeqCst);",
  "let w = &self.map[index >> 6]; let o = w.load(Ordering::SeqCst); if o & (1 << (index & 63)) == 0 { w.store(o | (1 << (index & 63)), Ordering::SeqCst); }", "R8.1.store")
# ---------------------------------------------------------------- C09
m("c09-bit-set-le", "C09", AB, "if index < self.size {", "if index <= self.size {", "R9.1.guard")
m("c09-last-page-exclusive-end", "C09,C16", AB, "let last_bit = start_addr.saturating_add(len - 1) / self.page_size;", "let last_bit = start_addr.saturating_add(len) / self.page_size;", "R9.3.range_form")
m("c09-enlarge-floor", "C09", AB, "self.size = self.byte_size.div_ceil(self.page_size.get());", "self.size = self.byte_size / self.page_size.get();", "R9.2.enlarge")
m("c09-range-exclusive", "C09,C16", AB, "for n in first_bit..=last_bit {", "for n in first_bit..last_bit {", "R9.3.range_form")
# ---------------------------------------------------------------- C10
m("c10-overlap-gt", "C10", MM, "if prev.last_addr() >= next.start_addr() {", "if prev.last_addr() > next.start_addr() {", "R10.2.overlap")
m("c10-remove-size-ge", "C10", MM, "if self.regions.get(region_index).unwrap().mapping.size() as GuestUsize == size {", "if self.regions.get(region_index).unwrap().mapping.size() as GuestUsize >= size {", "R10.3.remove")
m("c10-region-overflow-minus-one", "C10", MM, "if guest_base.0.checked_add(mapping.size() as u64).is_none() {", "if guest_base.0.checked_add(mapping.size() as u64 - 1).is_none() {", "R10.5.region_overflow_check")
# ---------------------------------------------------------------- C11
m("c11-store-after-unlock", "C11", "src/atomic.rs", "    pub fn replace(self, map: M) {\n        self.parent.inner.0.store(Arc::new(map))\n    }",
  "    pub fn replace(self, map: M) {\n        let parent = self.parent;\n        drop(self);\n        parent.inner.0.store(Arc::new(map))\n    }", "R11.2.replace")
m("c11-unlocked-store", "C11", "src/atomic.rs", "    fn load(&self) -> Guard<Arc<M>> {\n        self.inner.0.load()\n    }",
  "    fn load(&self) -> Guard<Arc<M>> {\n        self.inner.0.load()\n    }\n    /// Replace without locking.\n    pub fn replace_unlocked(&self, map: M) {\n        self.inner.0.store(Arc::new(map))\n    }", "R11.1.only_replace_stores")
# ---------------------------------------------------------------- C12
m("c12-raw-owned", "C12", UX, "            owned: false,", "            owned: true,", "R12.2.owned_flag")
m("c12-region-clone", "C12", UX, "#[derive(Debug)]\npub struct MmapRegion<B = ()> {", "#[derive(Debug, Clone)]\npub struct MmapRegion<B = ()> {", "R12.3.not_clone")
m("c12-drop-only-anon", "C12", UX, "        if self.owned {\n            // SAFETY: This is safe because we mmap the area at addr ourselves", "        if self.owned && self.file_offset.is_none() {\n            // SAFETY: This is safe because we mmap the area at addr ourselves", "R12.2.drop_iff_owned")
# ---------------------------------------------------------------- C13
m("c13-read-exact-ge", "C13", IO, "        if buf.len() > self.len() {", "        if buf.len() >= self.len() {", "R13.1.slice_read_exact")
m("c13-advance-by-buf-len", "C13", IO, "        *self = self.split_at(read).1;", "        *self = self.split_at(buf.len().min(self.len() + 0)).1;", "R13.1.slice_read")
m("c13-cursor-position-clamped", "C13", IO, "        let n = ReadVolatile::read_volatile(&mut &inner[(len as usize)..], buf)?;\n        self.set_position(self.position() + n as u64);", "        let n = ReadVolatile::read_volatile(&mut &inner[(len as usize)..], buf)?;\n        self.set_position(len + n as u64);", "R13.3.cursor")
# ---------------------------------------------------------------- C14
m("c14-retry-wouldblock", "C14", IO, "if err.kind() == std::io::ErrorKind::Interrupted {", "if err.kind() == std::io::ErrorKind::Interrupted || err.kind() == std::io::ErrorKind::WouldBlock {", "R14.1.retry_loop")
m("c14-no-retry", "C14", VM, "        retry_eintr!(src.read_volatile(&mut slice))", "        src.read_volatile(&mut slice)", "R14.1.retry_loop")
m("c14-advance-max1", "C14", IO, "                Ok(bytes_read) => partial_buf = partial_buf.offset(bytes_read)?,", "                Ok(bytes_read) => partial_buf = partial_buf.offset(bytes_read.max(1))?,", "R14.2.exact_loop")
# ---------------------------------------------------------------- C15
m("c15-eof-le", "C15", MM, "if filesize < end {", "if filesize <= end {", "R15.2.past_eof")
m("c15-file-check-size1", "C15", UX, "            check_file_offset(f_off, self.size)?;", "            check_file_offset(f_off, self.size.min(1))?;", "R15.1.file_checked_before_mmap")
m("c15-grant-any", "C15", XN, "            !self.is_foreign()\n        } else if self.is_foreign() || self.is_unix() {", "            true\n        } else if self.is_foreign() || self.is_unix() {", "R15.4.is_valid_truth_table")
m("c15-xen-offset-accepted", "C15", XN, "    if f_offset != 0 {\n        return Err(Error::InvalidOffsetLength);\n    }", "", "R15.2.xen_file_outcomes")
m("c15-prot-flags-swapped", "C15", UX, "            prot: self.prot,\n            flags: self.flags,\n            owned: true,", "            prot: self.flags,\n            flags: self.prot,\n            owned: true,", "R15.3.region_fields")
# ---------------------------------------------------------------- C17
m("c17-array-guard-elements", "C17", VM, "PtrGuard::read(self.mmap, self.addr, self.len() * self.element_size())", "PtrGuard::read(self.mmap, self.addr, self.len())", "R17.1.len_unit")
m("c17-copy-unguarded", "C17", VM, "            let src = self.ptr_guard();\n            let dst = slice.ptr_guard_mut();\n            copy(src.as_ptr(), dst.as_ptr(), count);\n            slice.bitmap.mark_dirty(0, count);\n        }\n    }\n\n    /// Copies as many elements of type `T` as possible from `buf` to this slice.\n    ///\n    /// The copy happens",
  "            copy(self.addr, slice.addr, count);\n            slice.bitmap.mark_dirty(0, count);\n        }\n    }\n\n    /// Copies as many elements of type `T` as possible from `buf` to this slice.\n    ///\n    /// The copy happens", "R17.2.in_guard")
m("c17-guard-temporary", "C17", VM, "        let guard = self.ptr_guard_mut();\n\n        // SAFETY: Safe because we checked the address and size when creating this VolatileRef.\n        unsafe { write_volatile(guard.as_ptr() as *mut Packed<T>, Packed::<T>(v)) };",
  "        let p = self.ptr_guard_mut().as_ptr();\n\n        // SAFETY: Safe because we checked the address and size when creating this VolatileRef.\n        unsafe { write_volatile(p as *mut Packed<T>, Packed::<T>(v)) };", "R17.3.live")
m("c17-xen-window-no-offset", "C17", XN, "        let size = offset + size;\n", "", "R17.5.window_form")
# ---------------------------------------------------------------- C18
m("c18-empty-after-bounds", "C18", VM, "        if buf.is_empty() {\n            return Ok(0);\n        }\n\n        if addr >= self.size {\n            return Err(Error::OutOfBounds { addr });\n        }\n\n        // NOTE: the duality",
  "        if addr >= self.size {\n            return Err(Error::OutOfBounds { addr });\n        }\n\n        if buf.is_empty() {\n            return Ok(0);\n        }\n\n        // NOTE: the duality", "R18.1.empty_ok")
m("c18-guest-empty-removed", "C18", GM, "        // An empty buffer names no bytes: always `Ok(0)`, even if `addr` is not mapped.\n        if buf.is_empty() {\n            return Ok(0);\n        }\n\n        self.try_access(\n            buf.len(),\n            addr,\n            |offset, _count, caddr, region| -> Result<usize> {\n                region.write(",
  "        self.try_access(\n            buf.len(),\n            addr,\n            |offset, _count, caddr, region| -> Result<usize> {\n                region.write(", "R18.1.empty_ok")
m("c18-zst-guard-removed", "C18,C07", VM, "        // Zero-sized elements name no bytes: there is nothing to copy (and nothing to divide by).\n        if size_of::<T>() == 0 {\n            return 0;\n        }\n", "", "R18.3.zst_guard")
# ---------------------------------------------------------------- C19 / C20
m("c19-offset-from-swapped", "C19", "src/address.rs", "self.0.checked_sub(base.0)", "base.0.checked_sub(self.0)", "R19.1.offset_from")
m("c19-align-mask", "C19", "src/address.rs", "        let mask = power_of_two - Self::one();\n        assert_ne!(power_of_two, Self::zero());", "        let mask = power_of_two;\n        assert_ne!(power_of_two, Self::zero());", "R19.3.checked_align_up")
m("c20-be32-le", "C20", "src/endian.rs", "endian_type!(u32, Be32, to_be, from_be);", "endian_type!(u32, Be32, to_le, from_le);", "R20.1")

# ---- exploratory batch at secondary sites (expected rule "?" = any rule of the named property must fire) ----
m("x-subslice-bitmap-offset-count", "C05", VM, "                count,\n                self.bitmap.slice_at(offset),", "                count,\n                self.bitmap.slice_at(count),", "?")
m("x-ref-at-bitmap-index", "C05", VM, "VolatileRef::with_bitmap(ptr, self.bitmap.slice_at(byteofs as usize), self.mmap)", "VolatileRef::with_bitmap(ptr, self.bitmap.slice_at(index), self.mmap)", "?")
m("x-ref-to-slice-len-align", "C01", VM, "                self.addr as *mut u8,\n                size_of::<T>(),", "                self.addr as *mut u8,\n                size_of::<T>().next_power_of_two(),", "?")
m("x-array-to-slice-nelem", "C01", VM, "                self.addr,\n                self.nelem * self.element_size(),", "                self.addr,\n                (self.nelem + 1) * self.element_size(),", "?")
m("x-get-ref-no-assert-size", "C01", VM, "    fn get_ref<T: ByteValued>(&self, offset: usize) -> Result<VolatileRef<T, BS<Self::B>>> {\n        let slice = self.get_slice(offset, size_of::<T>())?;", "    fn get_ref<T: ByteValued>(&self, offset: usize) -> Result<VolatileRef<T, BS<Self::B>>> {\n        let slice = self.get_slice(offset, align_of::<T>())?;", "?")
m("x-region-write-reads", "C03", MM, "            .write_slice(buf, maddr)", "            .write(buf, maddr).map(|_| ())", "?")
m("x-region-read-exact-partial", "C03,C14", MM, "            .read_exact_volatile_from(addr.0 as usize, src, count)", "            .read_volatile_from(addr.0 as usize, src, count).map(|_| ())", "?")
m("x-region-load-offset0", "C03", MM, ".and_then(|s| s.load(addr.raw_value() as usize, order).map_err(Into::into))", ".and_then(|s| s.load(0, order).map_err(Into::into))", "?")
m("x-vec-write-count-cap", "C13", IO, "        let count = buf.len();\n        self.reserve(count);", "        let count = buf.len().min(self.capacity().max(1));\n        self.reserve(count);", "?")
m("x-baseslice-dirty-at-base", "C09", "src/bitmap/backend/slice.rs", "self.inner.dirty_at(self.base_offset.wrapping_add(offset))", "self.inner.dirty_at(offset)", "?")
m("x-baseslice-slice-at-replace", "C05,C09", "src/bitmap/backend/slice.rs", "            base_offset: self.base_offset.wrapping_add(offset),", "            base_offset: offset,", "?")
m("x-unchecked-align-up-or", "C19", "src/address.rs", "        self.unchecked_add(mask) & !mask", "        self.unchecked_add(mask) & mask", "?")
m("x-address-mask-or", "C19", "src/address.rs", "        self.raw_value() & mask", "        self.raw_value() | mask", "?")
m("x-guest-get-slice-count", "C02", GM, ".and_then(|(r, addr)| r.get_slice(addr, count))", ".and_then(|(r, addr)| r.get_slice(addr, count.max(1)))", "?")
m("x-exclusive-guard-other-mutex", "C11", "src/atomic.rs", "    pub fn replace(self, map: M) {\n        self.parent.inner.0.store(Arc::new(map))\n    }", "    pub fn replace(self, map: M) {\n        let p = self.parent;\n        drop(self);\n        p.inner.0.store(Arc::new(map))\n    }", "?")
m("x-atomicbitmap-clone-size", "C09", AB, "            size: self.size,\n            byte_size: self.byte_size,", "            size: self.size + 1,\n            byte_size: self.byte_size,", "?")
m("x-bitmap-new-floor", "C09", AB, "        let num_pages = byte_size.div_ceil(page_size.get());", "        let num_pages = byte_size / page_size.get();", "?")
m("x-read-obj-partial", "C04", "src/bytes.rs", "self.read_slice(result.as_mut_slice(), addr).map(|_| result)", "self.read(result.as_mut_slice(), addr).map(|_| result)", "?")
m("x-write-obj-partial", "C04", "src/bytes.rs", "self.write_slice(val.as_slice(), addr)", "self.write(val.as_slice(), addr).map(|_| ())", "?")
m("x-from-ranges-no-offset-check", "C15", MM, "if filesize < end {", "if false && filesize < end {", "?")
m("x-array-copy-from-mark-start", "C05,C16", VM, "            self.bitmap.mark_dirty(0, ptr as usize - start as usize);", "            self.bitmap.mark_dirty(ptr as usize - start as usize, 0);", "?")
m("x-slice-write-obj-volatile-order", "C06", VM, "if total <= size_of::<usize>() {", "if total <= size_of::<u32>() {", "?")

# ---- exploratory batch 2 (Xen backend, lifetime, construction, adapters) ----
m("x2-grant-drop-leaks", "C12", XN, "        if let Some(unix_mmap) = self.unix_mmap.take() {\n            self.unmap_range(unix_mmap, self.size, self.index);\n        }", "        if let Some(unix_mmap) = self.unix_mmap.take() {\n            std::mem::forget(unix_mmap);\n        }", "?")
m("x2-grant-unmap-count-zero", "C17", XN, "        self.unmap_ioctl(count as u32, index).unwrap();", "        self.unmap_ioctl(0, index).unwrap();", "?")
m("x2-slice-drop-no-unmap", "C17", XN, "                .unmap_range(unix_mmap, self.size, self.index);\n        }\n    }\n}", "                .unmap_range(unix_mmap, 0, self.index);\n        }\n    }\n}", "?")
m("x2-grant-size-not-recorded", "C12", XN, "            grant.size = range.size;", "            grant.size = 0;", "?")
m("x2-xen-mapfixed-accepted", "C15", XN, "                if flags & libc::MAP_FIXED != 0 {", "                if flags & libc::MAP_FIXED != 0 && range.size == 0 {", "?")
m("x2-xen-region-size-page", "C15", XN, "            bitmap: B::with_len(range.size),\n            size: range.size,", "            bitmap: B::with_len(range.size),\n            size: pages(range.size).1,", "?")
m("x2-pages-floor", "C17", XN, "    let num = size.div_ceil(page_size);", "    let num = size / page_size;", "?")
m("x2-unix-build-size-plus", "C15,C12", UX, "                self.size,\n                self.prot,\n                self.flags,\n                fd,", "                self.size + 1,\n                self.prot,\n                self.flags,\n                fd,", "?")
m("x2-unix-mapfixed-mask", "C15", UX, "if self.flags & libc::MAP_FIXED != 0 {", "if self.flags & libc::MAP_FIXED == libc::MAP_FIXED | libc::MAP_SHARED {", "?")
m("x2-raw-align-mask", "C15", UX, "if (addr as usize) & (page_size - 1) != 0 {", "if (addr as usize) & (page_size - 1) > page_size {", "?")
m("x2-insert-no-sort", "C10", MM, "        regions.sort_by_key(|x| x.start_addr());", "", "?")
m("x2-unsorted-ge", "C10", MM, "if prev.start_addr() > next.start_addr() {", "if prev.start_addr() > next.last_addr() {", "?")
m("x2-remove-first-match", "C10", MM, "let region = regions.remove(region_index);", "let region = regions.remove(0);", "?")
m("x2-cursor-write-advance-buf", "C13", IO, "        let n = WriteVolatile::write_volatile(&mut &mut self.get_mut()[(pos as usize)..], buf)?;\n        self.set_position(self.position() + n as u64);", "        let n = WriteVolatile::write_volatile(&mut &mut self.get_mut()[(pos as usize)..], buf)?;\n        self.set_position(self.position() + buf.len() as u64);", "?")
m("x2-slice-write-all-partial-ok", "C13", IO, "        if self.write_volatile(buf)? == buf.len() {", "        if self.write_volatile(buf)? <= buf.len() {", "?")
m("x2-fd-write-marks", "C16", IO, "    if bytes_written < 0 {", "    buf.bitmap().mark_dirty(0, buf.len());\n    if bytes_written < 0 {", "?")
m("x2-exact-loop-retry-zero", "C14,C13", IO, "                Ok(0) => {\n                    return Err(VolatileMemoryError::IOError(std::io::Error::new(\n                        ErrorKind::UnexpectedEof,", "                Ok(0) if partial_buf.len() > 4096 => {\n                    return Err(VolatileMemoryError::IOError(std::io::Error::new(\n                        ErrorKind::UnexpectedEof,", "?")
m("x2-array-ref-copy-to-count", "C04", VM, "        for v in buf.iter_mut().take(self.len()) {", "        for v in buf.iter_mut().take(self.len().saturating_sub(1).max(1)) {", "?")
m("x2-guest-read-obj-swapped", "C03", GM, "region.read(&mut buf[offset..], caddr)", "region.read(&mut buf[..offset.max(1)], caddr)", "?")
m("x2-atomic-store-mark-before", "C16,C05", VM, "            r.store(val.into(), order);\n            self.bitmap.mark_dirty(addr, size_of::<T>())", "            self.bitmap.mark_dirty(addr, size_of::<T>());\n            r.store(val.into(), order)", "?")
m("x2-try-access-hole-ok0", "C03", GM, "        if total == 0 {\n            Err(Error::InvalidGuestAddress(addr))", "        if total == 0 && count == 0 {\n            Err(Error::InvalidGuestAddress(addr))", "?")
m("x2-checked-align-assert-removed", "C19", "src/address.rs", "        assert_eq!(power_of_two & mask, Self::zero());\n        self.checked_add(mask).map(|x| x & !mask)", "        self.checked_add(mask).map(|x| x & !mask)", "?")
m("x2-bitmap-reset-release-skip", "C09", AB, "        for it in self.map.iter() {\n            it.store(0, Ordering::Release);\n        }", "        for it in self.map.iter().skip(1) {\n            it.store(0, Ordering::Release);\n        }", "?")

# ---- exploratory batch 3 ----
m("x3-offset-bitmap-zero", "C05", VM, "                new_size,\n                self.bitmap.slice_at(count),", "                new_size,\n                self.bitmap.slice_at(0),", "?")
m("x3-offset-size-not-reduced", "C01", VM, "                self.addr.add(count),\n                new_size,", "                self.addr.add(count),\n                self.size,", "?")
m("x3-array-ref-n-bytes", "C01", VM, "                slice.addr,\n                n,\n                slice.bitmap,", "                slice.addr,\n                nbytes as usize,\n                slice.bitmap,", "?")
m("x3-unix-get-slice-bitmap", "C05", UX, "                    count,\n                    self.bitmap.slice_at(offset),\n                    None,", "                    count,\n                    self.bitmap.slice_at(0),\n                    None,", "?")
m("x3-unix-get-slice-addr", "C01", UX, "                    self.addr.add(offset),\n                    count,", "                    self.addr.add(count),\n                    count,", "?")
m("x3-copy-to-count-bytes", "C04", VM, "            let count = self.size / size_of::<T>();\n            let source = self.get_array_ref::<T>(0, count).unwrap();\n            source.copy_to(buf)", "            let count = self.size / size_of::<T>();\n            let source = self.get_array_ref::<T>(0, count).unwrap();\n            source.copy_to(buf) * size_of::<T>()", "?")
m("x3-check-range-prefix", "C02", GM, "            Ok(count) => count == len,", "            Ok(count) => count == len || count > 0,", "?")
m("x3-num-regions-plus", "C02", MM, "        self.regions.len()\n    }", "        self.regions.len().max(1)\n    }", "?")
m("x3-region-len-minus", "C02", MM, "        self.mapping.size() as GuestUsize\n    }", "        (self.mapping.size() as GuestUsize).saturating_sub(1)\n    }", "?")
m("x3-to-region-addr-other", "C02", GM, "            .map(|r| (r, r.to_region_addr(addr).unwrap()))", "            .map(|r| (r, r.to_region_addr(r.start_addr()).unwrap()))", "?")
m("x3-setbit-nonatomic", "C08", AB, "        self.map[index >> 6].fetch_and(!(1 << (index & 63)), Ordering::SeqCst);", "        let w = &self.map[index >> 6];\n        w.store(w.load(Ordering::SeqCst) & !(1 << (index & 63)), Ordering::SeqCst);", "?")
m("x3-range-set-xor", "C08,C09", AB, "                self.map[n >> 6].fetch_or(1 << (n & 63), Ordering::SeqCst);", "                self.map[n >> 6].fetch_xor(1 << (n & 63), Ordering::SeqCst);", "?")
m("x3-dirty-at-marks", "C16", "src/bitmap/backend/atomic_bitmap.rs", "    fn dirty_at(&self, offset: usize) -> bool {\n        self.is_addr_set(offset)", "    fn dirty_at(&self, offset: usize) -> bool {\n        self.set_addr_range(offset, 1);\n        self.is_addr_set(offset)", "?")
m("x3-read-slice-marks", "C16", VM, "        let len = self.read(buf, addr)?;", "        let len = self.read(buf, addr)?;\n        self.bitmap.mark_dirty(addr, len);", "?")
m("x3-empty-write-err-at-end", "C18", VM, "        if buf.is_empty() {\n            return Ok(0);\n        }\n\n        if addr >= self.size {\n            return Err(Error::OutOfBounds { addr });\n        }\n\n        // NOTE: the duality", "        if buf.is_empty() && addr <= self.size {\n            return Ok(0);\n        }\n\n        if addr >= self.size {\n            return Err(Error::OutOfBounds { addr });\n        }\n\n        // NOTE: the duality", "?")
m("x3-checked-sub-add", "C19", "src/address.rs", "                self.0.checked_sub(other).map($T)", "                self.0.checked_add(other.wrapping_neg()).map($T)", "?")
m("x3-unchecked-offset-from-swapped", "C19", "src/address.rs", "        self.raw_value() - base.raw_value()", "        base.raw_value() - self.raw_value()", "?")
m("x3-to-native-identity", "C20", "src/endian.rs", "                $old_type::$from_new(self.0)", "                self.0", "?")
m("x3-guard-len-sizeof-ptr", "C17", VM, "        PtrGuard::read(self.mmap, self.addr as *mut u8, self.len())", "        PtrGuard::read(self.mmap, self.addr as *mut u8, size_of::<usize>())", "?")
m("x3-try-access-start-offset", "C03", GM, "            match f(total, len as usize, start, region) {", "            match f(0, len as usize, start, region) {", "?")
m("x3-ref-load-nonvolatile-guardless", "C17", VM, "        let guard = self.ptr_guard();\n\n        // SAFETY: Safe because we checked the address and size when creating this VolatileRef.\n        // For the purposes", "        let guard = self.ptr_guard();\n        drop(guard);\n        let guard = PtrGuard::read(None, self.addr as *mut u8, self.len());\n\n        // SAFETY: Safe because we checked the address and size when creating this VolatileRef.\n        // For the purposes", "?")

# ---- exploratory batch 4 ----
m("x4-from-slice-ge", "C01", "src/bytes.rs", "        if data.len() != size_of::<Self>() {\n            return None;\n        }\n\n        // SAFETY: Safe because the ByteValued trait asserts any data is valid for this type, and\n        // we ensured the size of the pointer's buffer is the correct size. The `align_to` method\n        // ensures that we don't have any unaligned references. This aliases a pointer, but because\n        // the pointer is from a const", "        if data.len() < size_of::<Self>() {\n            return None;\n        }\n\n        // SAFETY: Safe because the ByteValued trait asserts any data is valid for this type, and\n        // we ensured the size of the pointer's buffer is the correct size. The `align_to` method\n        // ensures that we don't have any unaligned references. This aliases a pointer, but because\n        // the pointer is from a const", "?")
m("x4-as-slice-len-plus", "C04", "src/bytes.rs", "unsafe { from_raw_parts(self as *const Self as *const u8, size_of::<Self>()) }", "unsafe { from_raw_parts(self as *const Self as *const u8, size_of::<Self>() + align_of::<Self>() - 1) }", "?")
m("x4-as-volatile-slice-len", "C02", GM, "        self.get_slice(MemoryRegionAddress(0), self.len() as usize)", "        self.get_slice(MemoryRegionAddress(0), (self.len() as usize).next_power_of_two())", "?")
m("x4-region-last-addr-len", "C02", GM, "        self.start_addr().unchecked_add(self.len() - 1)", "        self.start_addr().unchecked_add(self.len())", "?")
m("x4-guest-write-obj-partial", "C03", GM, "        let res = self.write(buf, addr)?;\n        if res != buf.len() {", "        let res = self.write(buf, addr)?;\n        if res == 0 {", "?")
m("x4-read-exact-from-count", "C03,C14", GM, "        let res = self.read_volatile_from(addr, src, count)?;\n        if res != count {", "        let res = self.read_volatile_from(addr, src, count)?;\n        if res > count {", "?")
m("x4-guest-store-region-addr", "C03", GM, "            .and_then(|(region, region_addr)| region.store(val, region_addr, order))", "            .and_then(|(region, _region_addr)| region.store(val, MemoryRegionAddress(0), order))", "?")
m("x4-slice-store-size", "C05,C16", VM, "            self.bitmap.mark_dirty(addr, size_of::<T>())", "            self.bitmap.mark_dirty(addr, 1)", "?")
m("x4-copy-from-marks-buf-len", "C05,C16", VM, "        let count = copy_slice(guard.as_ptr(), src, total);\n        slice.bitmap.mark_dirty(0, count);", "        let count = copy_slice(guard.as_ptr(), src, total);\n        slice.bitmap.mark_dirty(count, 0);", "?")
m("x4-write-volatile-to-read-guard", "C17", VM, "        let dst = slice.ptr_guard_mut();\n            copy(src.as_ptr(), dst.as_ptr(), count);", "        let dst = slice.ptr_guard_mut();\n            copy(src.as_ptr(), slice.addr, count);", "?", 0)
m("x4-ptrguard-new-len-zero", "C17", VM, "let slice = MmapInfo::mmap(mmap, addr, prot, len);", "let slice = MmapInfo::mmap(mmap, addr, prot, len.min(4096));", "?")
m("x4-xen-region-get-slice-mmap-none", "C17", XN, "                    self.bitmap.slice_at(offset),\n                    mmap_info,", "                    self.bitmap.slice_at(offset),\n                    None,", "?")
m("x4-checked-add-unchecked", "C19", "src/address.rs", "                self.0.checked_add(other).map($T)", "                Some($T(self.0.wrapping_add(other)))", "?")
m("x4-overflowing-flag-inverted", "C19", "src/address.rs", "                let (t, ovf) = self.0.overflowing_add(other);\n                ($T(t), ovf)", "                let (t, ovf) = self.0.overflowing_add(other);\n                ($T(t), !ovf)", "?")
m("x4-eq-native-unconverted", "C20", "src/endian.rs", "                self.0 == $old_type::$to_new(*other)", "                self.0 == *other", "?")
m("x4-grant-mmap-slice-offset0", "C17", XN, "        MmapXenSlice::new_with(self.clone(), addr as usize, prot, len)", "        MmapXenSlice::new_with(self.clone(), 0, prot, len)", "?")
m("x4-insert-keeps-old", "C10", MM, "        let mut regions = self.regions.clone();\n        regions.push(region);", "        let mut regions = self.regions.clone();\n        regions.insert(0, region);", "?")
m("x4-from-regions-skip-validate", "C10", MM, "        Self::from_arc_regions(regions.drain(..).map(Arc::new).collect())", "        Ok(Self { regions: regions.drain(..).map(Arc::new).collect() })", "?")
m("x4-atomic-memory-two-loads", "C11", "src/atomic.rs", "        GuestMemoryLoadGuard { guard: self.load() }", "        let _probe = self.load();\n        GuestMemoryLoadGuard { guard: self.load() }", "?")
m("x4-file-offset-start-ignored", "C15", UX, "(f_off.file().as_raw_fd(), f_off.start())", "(f_off.file().as_raw_fd(), 0)", "?")

# ---------------------------------------------------------------- batch 5: wrong ADDITIONS (new code next to correct code)
m("x5-endian-raw-cmp-method", "C20", "src/endian.rs", "            pub fn to_native(self) -> $old_type {",
  "            pub fn is_value(&self, v: $old_type) -> bool {\n                self.0 == v\n            }\n\n            pub fn to_native(self) -> $old_type {", "?")
m("x5-endian-le-bytes-of-raw", "C20", "src/endian.rs", "            pub fn to_native(self) -> $old_type {",
  "            pub fn wire_bytes(self) -> [u8; core::mem::size_of::<$old_type>()] {\n                self.0.to_le_bytes()\n            }\n\n            pub fn to_native(self) -> $old_type {", "?")
m("x5-endian-get-raw-as-native", "C20", "src/endian.rs", "            pub fn to_native(self) -> $old_type {",
  "            pub fn get(self) -> $old_type {\n                self.0\n            }\n\n            pub fn to_native(self) -> $old_type {", "?")
m("x5-atomic-update-unlock-first", "C11", "src/atomic.rs", "    pub fn replace(self, map: M) {",
  "    pub fn publish_unlocked(self, map: M) {\n        let parent = self.parent;\n        drop(self);\n        parent.inner.0.store(Arc::new(map));\n    }\n\n    pub fn replace(self, map: M) {", "?")
m("x5-atomic-store-outside-guard", "C11", "src/atomic.rs", "    pub fn lock(&self) -> LockResult<GuestMemoryExclusiveGuard<M>> {",
  "    pub fn set(&self, map: M) {\n        self.inner.0.store(Arc::new(map))\n    }\n\n    pub fn lock(&self) -> LockResult<GuestMemoryExclusiveGuard<M>> {", "?")
m("x5-atomic-try-lock-fresh-mutex", "C11", "src/atomic.rs", "    pub fn lock(&self) -> LockResult<GuestMemoryExclusiveGuard<M>> {",
  "    pub fn lock_fresh(&self) -> GuestMemoryExclusiveGuard<M> {\n        let m: &'static Mutex<()> = Box::leak(Box::new(Mutex::new(())));\n        GuestMemoryExclusiveGuard { parent: self, _guard: m.lock().unwrap() }\n    }\n\n    pub fn lock(&self) -> LockResult<GuestMemoryExclusiveGuard<M>> {", "?")
m("x5-stream-forwarder-swallows", "C14", IO, "impl WriteVolatile for Stdout {",
  "impl<T: ReadVolatile> ReadVolatile for Box<T> {\n    fn read_volatile<B: BitmapSlice>(&mut self, buf: &mut VolatileSlice<B>) -> Result<usize, VolatileMemoryError> {\n        (**self).read_volatile(buf).or(Ok(0))\n    }\n}\n\nimpl WriteVolatile for Stdout {", "?")

_REF_AT = "    pub fn ref_at(&self, index: usize) -> VolatileRef<'a, T, B> {"
_SUBARRAY_ELEMS = """    pub fn subarray(&self, index: usize, count: usize) -> Result<VolatileArrayRef<'a, T, B>> {
        let end = compute_offset(index, count)?;
        if end > self.nelem CMP_TAIL {
            return Err(Error::OutOfBounds { addr: end });
        }
        let byteofs = index.checked_mul(self.element_size()).ok_or(Error::TooBig { nelements: index, size: self.element_size() })?;
        // SAFETY: test mutant
        unsafe { Ok(VolatileArrayRef::with_bitmap(self.addr.add(byteofs), NELEM, self.bitmap.slice_at(byteofs), self.mmap)) }
    }

"""
m("x5-subarray-end-plus-one", "C01", VM, _REF_AT, _SUBARRAY_ELEMS.replace("CMP_TAIL", "+ 1").replace("NELEM", "count") + _REF_AT, "?")
m("x5-subarray-nelem-end", "C01", VM, _REF_AT, _SUBARRAY_ELEMS.replace("CMP_TAIL", "").replace("NELEM", "end") + _REF_AT, "?")
_SUBARRAY_BYTES = """    pub fn subarray(&self, start: usize, count: usize) -> Result<VolatileArrayRef<'a, T, B>> {
        let size = self.element_size();
        let byteofs = start.checked_mul(size).ok_or(Error::TooBig { nelements: start, size })?;
        let nbytes = count.checked_mul(size).ok_or(Error::TooBig { nelements: count, size })?;
        let slice = self.to_slice().subslice(byteofs, NBYTES)?;
        // SAFETY: test mutant
        unsafe { Ok(VolatileArrayRef::with_bitmap(slice.addr, count, slice.bitmap, slice.mmap)) }
    }

"""
m("x5-subarray-slice-of-count-bytes", "C01", VM, _REF_AT, _SUBARRAY_BYTES.replace("NBYTES", "count.min(nbytes)") + _REF_AT, "?")

_SUBSLICE = "    pub fn subslice(&self, offset: usize, count: usize) -> Result<Self> {"
_FILL = """    pub fn fill_bytes(&self, value: u8) {
        let pattern = [value; 256];
        let mut done = 0usize;
        while done GUARD self.size {
            let n = NEXPR;
            let chunk = self.subslice(done, CHUNKLEN).unwrap();
            chunk.copy_from(&pattern[..n]);
            UPDATE
        }
    }

"""
def _fill(guard="<", nexpr="min(pattern.len(), self.size - done)", chunklen="n", update="done += n;"):
    return _FILL.replace("GUARD", guard).replace("NEXPR", nexpr).replace("CHUNKLEN", chunklen).replace("UPDATE", update) + _SUBSLICE
# the correct version must stay silent (replayed with the benign additions); these three are wrong in one place each
m("x5-fill-guard-le-spins", "C07", VM, _SUBSLICE, _fill(guard="<="), "?")
m("x5-fill-unwrap-overruns", "C07", VM, _SUBSLICE, _fill(chunklen="pattern.len()"), "?")
m("x5-fill-update-skipped", "C07", VM, _SUBSLICE, _fill(update="if n == pattern.len() { done += n; }"), "?")
m("x5-fill-step-may-be-zero", "C07", VM, _SUBSLICE, _fill(nexpr="min(pattern.len(), self.size - done) & !7"), "?")

_RMR = "    /// Remove a region into the `GuestMemoryMmap` object and return a new `GuestMemoryMmap`\n    /// on success, together with the removed region."
_RETAIN = """    /// Keeps the regions for which `keep` holds (test mutant scaffold).
    pub fn retain_regions<F: FnMut(&GuestRegionMmap<B>) -> bool>(&self, mut keep: F) -> GuestMemoryMmap<B> {
        let mut regions = Vec::with_capacity(self.regions.len());
        for region in self.regions.iter()REV {
            if keep(region.as_ref()) {
                PUSH
            }
        }
        Self { regions }
    }

"""
m("x5-retain-reversed", "C10", MM, _RMR, _RETAIN.replace("REV", ".rev()").replace("PUSH", "regions.push(Arc::clone(region));") + _RMR, "?")
m("x5-retain-insert-front", "C10", MM, _RMR, _RETAIN.replace("REV", "").replace("PUSH", "regions.insert(0, Arc::clone(region));") + _RMR, "?")

# debug assertions: true ones are discharged (refactors/Cnn-add-*), ones that CAN fail must still be reported
m("x5-assert-strict-can-fail", "C07", VM, "        let guard = slice.ptr_guard();\n\n        // SAFETY: guaranteed by function invariants.\n        copy_slice(dst, guard.as_ptr(), total)",
  "        let guard = slice.ptr_guard();\n        debug_assert!(total < guard.len());\n\n        // SAFETY: guaranteed by function invariants.\n        copy_slice(dst, guard.as_ptr(), total)", "?")
m("x5-assert-eq-buf-len", "C07", IO, "        let written = unsafe { copy_from_volatile_slice(self.as_mut_ptr(), buf, total) };\n\n        // Advance the slice, just like the stdlib",
  "        let written = unsafe { copy_from_volatile_slice(self.as_mut_ptr(), buf, total) };\n        debug_assert_eq!(written, buf.len());\n\n        // Advance the slice, just like the stdlib", "?")
m("x5-assert-true-control", "C07", IO, "        let written = unsafe { copy_from_volatile_slice(self.as_mut_ptr(), buf, total) };\n\n        // Advance the slice, just like the stdlib",
  "        let written = unsafe { copy_from_volatile_slice(self.as_mut_ptr(), buf, total) };\n        debug_assert_eq!(written, total);\n        debug_assert!(written > buf.len());\n\n        // Advance the slice, just like the stdlib", "?")

_FILLAT = """    pub fn fill_at(&self, offset: usize, count: usize, value: u8) -> Result<()> {
        let target = self.subslice(offset, count)?;
        if count == 0 {
            return Ok(());
        }
        let guard = target.ptr_guard_mut();
        // SAFETY: test mutant
        unsafe { std::ptr::write_bytes(guard.as_ptr(), value, NBYTES) };
        target.bitmap.mark_dirty(0, NBYTES);
        Ok(())
    }

"""
m("x5-fill-view-overrun", "C04,C17", VM, _SUBSLICE, _FILLAT.replace("NBYTES", "self.size") + _SUBSLICE, "?")

# the stepping closure of copy_slice_volatile turned into a function that threads (dst, src, left) through a tuple — the correct
# version is a behaviour-preserving refactor (refactors/C04-rf4-1 ...); each of these differs from it in one place
_CSV_ORIG = "    unsafe fn copy_slice_volatile(mut dst: *mut u8, mut src: *const u8, total: usize) -> usize {\n        let mut left = total;\n\n        let align = min(alignment(src as usize), alignment(dst as usize));\n\n        let mut copy_aligned_slice = |min_align| {\n            if align < min_align {\n                return;\n            }\n\n            while left >= min_align {\n                // SAFETY: Safe because we check alignment beforehand, the memory areas are valid\n                // for reads/writes, and the source always contains a valid value.\n                unsafe { copy_single(min_align, src, dst) };\n\n                left -= min_align;\n\n                if left == 0 {\n                    break;\n                }\n\n                // SAFETY: We only explain the invariants for `src`, the argument for `dst` is\n                // analogous.\n                // - `src` and `src + min_align` are within (or one byte past) the same allocated object\n                //   This is given by the invariant on this function ensuring that [src, src + total)\n                //   are part of the same allocated object, and the condition on the while loop\n                //   ensures that we do not go outside this object\n                // - The computed offset in bytes cannot overflow isize, because `min_align` is at\n                //   most 8 when the closure is called (see below)\n                // - The sum `src as usize + min_align` can only wrap around if src as usize + min_align - 1 == usize::MAX,\n                //   however in this case, left == 0, and we'll have exited the loop above.\n                unsafe {\n                    src = src.add(min_align);\n                    dst = dst.add(min_align);\n                }\n            }\n        };\n\n        if size_of::<usize>() > 4 {\n            copy_aligned_slice(8);\n        }\n        copy_aligned_slice(4);\n        copy_aligned_slice(2);\n        copy_aligned_slice(1);\n\n        total\n    }\n"
_CSV_FN = """    unsafe fn copy_slice_volatile(dst: *mut u8, src: *const u8, total: usize) -> usize {
        type Cursor = (*mut u8, *const u8, usize);
        let align = min(alignment(src as usize), alignment(ALIGN_DST as usize));

        unsafe fn pass(min_align: usize, align: usize, cursor: Cursor) -> Cursor {
            let (mut dst, mut src, mut left) = cursor;
            GATE
            while left >= min_align {
                // SAFETY: test mutant scaffold
                unsafe { copy_single(min_align, src, dst) };
                left -= min_align;
                if left == 0 {
                    break;
                }
                // SAFETY: test mutant scaffold
                unsafe {
                    src = src.add(STRIDE);
                    dst = dst.add(min_align);
                }
            }
            (dst, src, left)
        }

        let mut cursor: Cursor = (dst, src, total);
        // SAFETY: test mutant scaffold
        unsafe {
            if size_of::<usize>() > 4 {
                cursor = pass(8, align, cursor);
            }
            cursor = pass(W4, align, cursor);
            cursor = pass(W2, align, THREAD);
            pass(1, align, cursor);
        }
        total
    }"""
def _csv(align_dst="dst", gate="if align < min_align {\n                return (dst, src, left);\n            }", stride="min_align", w4="4", w2="2", thread="cursor"):
    return _CSV_FN.replace("ALIGN_DST", align_dst).replace("GATE", gate).replace("STRIDE", stride).replace("W4", w4).replace("W2", w2).replace("THREAD", thread)
m("x6-stepfn-restart-state", "C06", VM, _CSV_ORIG, _csv(thread="(dst, src, total)"), "?")
m("x6-stepfn-stride-one", "C06", VM, _CSV_ORIG, _csv(stride="1"), "?")
m("x6-stepfn-no-align-gate", "C06", VM, _CSV_ORIG, _csv(gate=""), "?")
m("x6-stepfn-order-2-4", "C06", VM, _CSV_ORIG, _csv(w4="2", w2="4"), "?")
m("x6-stepfn-align-src-only", "C06", VM, _CSV_ORIG, _csv(align_dst="src"), "?")

# ---------------------------------------------------------------- batch 7: the element loops of VolatileArrayRef spelt with enumerate() (accepted
# form since refactors/C17-rf3-2), each with one defect
_ELT_TO_ORIG = """        let mut ptr = guard.as_ptr() as *const Packed<T>;
        let start = ptr;

        for v in buf.iter_mut().take(self.len()) {
            // SAFETY: read_volatile is safe because the pointers are range-checked when
            // the slices are created, and they never escape the VolatileSlices.
            // ptr::add is safe because get_array_ref() validated that
            // size_of::<T>() * self.len() fits in an isize.
            unsafe {
                *v = read_volatile(ptr).0;
                ptr = ptr.add(1);
            }
        }

        // SAFETY: It is guaranteed that start and ptr point to the regions of the same slice.
        unsafe { ptr.offset_from(start) as usize }"""
def _elt_to(take="self.len()", pre="", step="copied = i + 1;", ret="copied"):
    return f"""        let start = guard.as_ptr() as *const Packed<T>;
        let mut copied = 0;

        for (i, v) in buf.iter_mut().take({take}).enumerate() {{
            {pre}
            // SAFETY: test mutant scaffold
            unsafe {{ *v = read_volatile(start.add(i)).0 }};
            {step}
        }}

        {ret}"""
_ELT_FROM_ORIG = """            let start = guard.as_ptr();
            let mut ptr = start as *mut Packed<T>;

            for &v in buf.iter().take(self.len()) {
                // SAFETY: write_volatile is safe because the pointers are range-checked when
                // the slices are created, and they never escape the VolatileSlices.
                // ptr::add is safe because get_array_ref() validated that
                // size_of::<T>() * self.len() fits in an isize.
                unsafe {
                    write_volatile(ptr, Packed::<T>(v));
                    ptr = ptr.add(1);
                }
            }

            self.bitmap.mark_dirty(0, ptr as usize - start as usize);"""
def _elt_from(step="copied = i + 1;", mark="copied * size_of::<T>()", pre=""):
    return f"""            let start = guard.as_ptr() as *mut Packed<T>;
            let mut copied = 0;

            for (i, &v) in buf.iter().take(self.len()).enumerate() {{
                {pre}
                // SAFETY: test mutant scaffold
                unsafe {{ write_volatile(start.add(i), Packed::<T>(v)) }};
                {step}
            }}

            self.bitmap.mark_dirty(0, {mark});"""
m("x7-enum-return-index", "C04", VM, _ELT_TO_ORIG, _elt_to(step="copied = i;"), "?")
m("x7-enum-return-buf-len", "C04", VM, _ELT_TO_ORIG, _elt_to(ret="buf.len()"), "?")
m("x7-enum-stops-early", "C04", VM, _ELT_TO_ORIG, _elt_to(pre="if i >= 3 { break; }"), "?")
m("x7-enum-count-skips-odd", "C04", VM, _ELT_TO_ORIG, _elt_to(step="if i % 2 == 0 { copied = i + 1; }"), "?")
m("x7-enum-take-unbounded", "C04", VM, _ELT_TO_ORIG, _elt_to(take="usize::MAX"), "?")
m("x7-enum-mark-index", "C05,C16", VM, _ELT_FROM_ORIG, _elt_from(step="copied = i;"), "?")
m("x7-enum-mark-buf-len", "C05,C16", VM, _ELT_FROM_ORIG, _elt_from(mark="buf.len() * size_of::<T>()"), "?")
m("x7-enum-mark-elements", "C05,C16", VM, _ELT_FROM_ORIG, _elt_from(mark="copied"), "?")
m("x7-enum-mark-skipped", "C05,C16", VM, _ELT_FROM_ORIG, _elt_from(pre="if i >= 3 { break; }"), "?")

# hand-written impls in place of a derive (accepted when they mean what the derive means, rules/derives.py), each with one defect
AT = "src/atomic.rs"
EN = "src/endian.rs"
m("x7-manual-clone-fresh-pair", "C11", AT, "#[derive(Clone, Debug)]\npub struct GuestMemoryAtomic<M: GuestMemory> {",
  "impl<M: GuestMemory + Clone> Clone for GuestMemoryAtomic<M> {\n    fn clone(&self) -> Self {\n        GuestMemoryAtomic { inner: Arc::new((ArcSwap::new(self.inner.0.load_full()), Mutex::new(()))) }\n    }\n}\n#[derive(Debug)]\npub struct GuestMemoryAtomic<M: GuestMemory> {", "?")
m("x7-manual-ord-reversed", "C19", GM, "#[derive(Clone, Copy, Debug, Eq, PartialEq, Ord, PartialOrd)]\npub struct GuestAddress(pub u64);",
  "impl PartialOrd for GuestAddress {\n    fn partial_cmp(&self, other: &Self) -> Option<std::cmp::Ordering> {\n        Some(self.cmp(other))\n    }\n}\nimpl Ord for GuestAddress {\n    fn cmp(&self, other: &Self) -> std::cmp::Ordering {\n        other.0.cmp(&self.0)\n    }\n}\n#[derive(Clone, Copy, Debug, Eq, PartialEq)]\npub struct GuestAddress(pub u64);", "?")
m("x7-manual-partial-ord-low-bits", "C19", GM, "#[derive(Clone, Copy, Debug, Eq, PartialEq, Ord, PartialOrd)]\npub struct MemoryRegionAddress(pub u64);",
  "impl PartialOrd for MemoryRegionAddress {\n    fn partial_cmp(&self, other: &Self) -> Option<std::cmp::Ordering> {\n        (self.0 as u32).partial_cmp(&(other.0 as u32))\n    }\n}\n#[derive(Clone, Copy, Debug, Eq, PartialEq, Ord)]\npub struct MemoryRegionAddress(pub u64);", "?")
m("x7-manual-mmap-clone-reversed", "C10", MM, "#[derive(Clone, Debug, Default)]\npub struct GuestMemoryMmap<B = ()> {",
  "impl<B: Clone> Clone for GuestMemoryMmap<B> {\n    fn clone(&self) -> Self {\n        GuestMemoryMmap { regions: self.regions.iter().rev().cloned().collect() }\n    }\n}\n#[derive(Debug, Default)]\npub struct GuestMemoryMmap<B = ()> {", "?")
m("x7-manual-endian-default-one", "C20", EN, "        #[derive(Copy, Clone, Eq, PartialEq, Debug, Default)]\n        #[repr(transparent)]\n        pub struct $new_type($old_type);",
  "        #[derive(Copy, Clone, Eq, PartialEq, Debug)]\n        #[repr(transparent)]\n        pub struct $new_type($old_type);\n        impl Default for $new_type {\n            fn default() -> $new_type {\n                $new_type(1)\n            }\n        }", "?")

# polarity of the bitmap's marking entries (R9.6): found by probing, not reported by any rule before
m("x7-bitmap-arms-swapped", "C09,C05,C16", AB, "            if set {", "            if !set {", "R9.6.polarity")
m("x7-bitmap-set-passes-false", "C09,C05,C16", AB, "self.set_reset_addr_range(start_addr, len, true);", "self.set_reset_addr_range(start_addr, len, false);", "R9.6.polarity")
m("x7-bitmap-set-bit-clears", "C09", AB, "self.map[index >> 6].fetch_or(1 << (index & 63), Ordering::SeqCst);", "self.map[index >> 6].fetch_and(!(1 << (index & 63)), Ordering::SeqCst);", "R9.6.polarity", occ=0)

# find_region spelt with checked_sub / prefix.last() (accepted since refactor round 5), each with one defect
_FR_ORIG = """        let index = match self.regions.binary_search_by_key(&addr, |x| x.start_addr()) {
            Ok(x) => Some(x),
            // Within the closest region with starting address < addr
            Err(x) if (x > 0 && addr <= self.regions[x - 1].last_addr()) => Some(x - 1),
            _ => None,
        };
        index.map(|x| self.regions[x].as_ref())"""
def _fr_sub(sub="1", cmp="<=", idx="prev"):
    return f"""        let index = match self.regions.binary_search_by_key(&addr, |x| x.start_addr()) {{
            Ok(x) => x,
            Err(x) => x
                .checked_sub({sub})
                .filter(|&prev| addr {cmp} self.regions[{idx}].last_addr())?,
        }};
        Some(self.regions[index].as_ref())"""
def _fr_last(cmp="<=", pick="last", rng="..x"):
    return f"""        match self.regions.binary_search_by_key(&addr, |x| x.start_addr()) {{
            Ok(x) => Some(self.regions[x].as_ref()),
            Err(x) => self.regions[{rng}]
                .{pick}()
                .filter(|prev| addr {cmp} prev.last_addr())
                .map(AsRef::as_ref),
        }}"""
m("x7-find-region-sub-strict", "C02", MM, _FR_ORIG, _fr_sub(cmp="<"), "?")
m("x7-find-region-sub-two", "C02", MM, _FR_ORIG, _fr_sub(sub="2"), "?")
m("x7-find-region-sub-tests-other", "C02", MM, _FR_ORIG, _fr_sub(idx="prev.saturating_sub(1)"), "?")
m("x7-find-region-last-strict", "C02", MM, _FR_ORIG, _fr_last(cmp="<"), "?")
m("x7-find-region-prefix-first", "C02", MM, _FR_ORIG, _fr_last(pick="first"), "?")
m("x7-find-region-prefix-inclusive", "C02", MM, _FR_ORIG, _fr_last(rng="..=x.min(self.regions.len() - 1)"), "?")

# try_access accounting spelt as a match on Ordering (accepted since refactor round 5), each with one defect
_TA_ORIG = """                    total = match total.checked_add(len) {
                        Some(x) if x < count => x,
                        Some(x) if x == count => return Ok(x),
                        _ => return Err(Error::CallbackOutOfRange),
                    };"""
def _ta_ord(less="total = new_total", equal="return Ok(new_total)", greater="return Err(Error::CallbackOutOfRange)", other=None):
    arms = f"""                        std::cmp::Ordering::Less => {less},
                        std::cmp::Ordering::Equal => {equal},
                        std::cmp::Ordering::Greater => {greater},""" if other is None else other
    return f"""                    let Some(new_total) = total.checked_add(len) else {{
                        return Err(Error::CallbackOutOfRange);
                    }};
                    match new_total.cmp(&count) {{
{arms}
                    }}"""
m("x7-ordering-equal-continues", "C03", GM, _TA_ORIG, _ta_ord(equal="total = new_total"), "?")
m("x7-ordering-greater-accepted", "C03", GM, _TA_ORIG, _ta_ord(greater="return Ok(new_total)"), "?")
m("x7-ordering-less-returns", "C03", GM, _TA_ORIG, _ta_ord(less="return Ok(new_total)"), "?")
m("x7-ordering-wildcard-swallows-equal", "C03", GM, _TA_ORIG, _ta_ord(other="                        std::cmp::Ordering::Greater => return Err(Error::CallbackOutOfRange),\n                        _ => total = new_total,"), "?")

# read_obj / region store spelt with `?` (accepted since refactor round 5), each with one defect
BY = "src/bytes.rs"
m("x7-read-obj-fills-other", "C04", BY, "        self.read_slice(result.as_mut_slice(), addr).map(|_| result)",
  "        let mut other: T = ByteValued::zeroed();\n        self.read_slice(other.as_mut_slice(), addr)?;\n        Ok(result)", "R4.5.read_obj")
m("x7-read-obj-ignores-error", "C04", BY, "        self.read_slice(result.as_mut_slice(), addr).map(|_| result)",
  "        let _ = self.read_slice(result.as_mut_slice(), addr);\n        Ok(result)", "R4.5.read_obj")
m("x7-region-store-question-offset", "C03", MM, "        self.as_volatile_slice().and_then(|s| {\n            s.store(val, addr.raw_value() as usize, order)\n                .map_err(Into::into)\n        })",
  "        let s = self.as_volatile_slice()?;\n        s.store(val, (addr.raw_value() as usize) & !7, order)\n            .map_err(Into::into)", "R3.5.region_forwarder")

# Bytes::read of a slice spelt as `match buf.len()` (accepted since refactor round 5), each with one defect
_RD_ORIG = """    fn read(&self, mut buf: &mut [u8], addr: usize) -> Result<usize> {
        if buf.is_empty() {
            return Ok(0);
        }

        if addr >= self.size {
            return Err(Error::OutOfBounds { addr });
        }
"""
_RD_HEAD = "    fn read(&self, mut buf: &mut [u8], addr: usize) -> Result<usize> {\n"
m("x7-match-len-bound-first", "C18", VM, _RD_ORIG, _RD_HEAD + "        match buf.len() {\n            _ if addr >= self.size => return Err(Error::OutOfBounds { addr }),\n            0 => return Ok(0),\n            _ => {}\n        }\n", "?")
m("x7-match-len-strict-bound", "C04", VM, _RD_ORIG, _RD_HEAD + "        match buf.len() {\n            0 => return Ok(0),\n            _ if addr > self.size => return Err(Error::OutOfBounds { addr }),\n            _ => {}\n        }\n", "?")
m("x7-match-len-one-is-empty", "C18,C04", VM, _RD_ORIG, _RD_HEAD + "        match buf.len() {\n            0 | 1 => return Ok(0),\n            _ if addr >= self.size => return Err(Error::OutOfBounds { addr }),\n            _ => {}\n        }\n", "?")

# retry_eintr! spelt with match + matches! (accepted since refactor round 5), each with one defect
IO = "src/io.rs"
_RE_ORIG = """            if let Err(crate::VolatileMemoryError::IOError(ref err)) = r {
                if err.kind() == std::io::ErrorKind::Interrupted {
                    continue;
                }
            }

            break r;"""
def _re_match(pat="std::io::ErrorKind::Interrupted"):
    return f"""            match r {{
                Err(crate::VolatileMemoryError::IOError(ref err)) if matches!(err.kind(), {pat}) => continue,
                _ => break r,
            }}"""
m("x7-retry-matches-wouldblock", "C14", IO, _RE_ORIG, _re_match("std::io::ErrorKind::WouldBlock"), "R14.1.retry_loop")
m("x7-retry-matches-two-kinds", "C14", IO, _RE_ORIG, _re_match("std::io::ErrorKind::Interrupted | std::io::ErrorKind::TimedOut"), "R14.1.retry_loop")
m("x7-retry-matches-any-io-error", "C14", IO, _RE_ORIG, "            match r {\n                Err(crate::VolatileMemoryError::IOError(_)) => continue,\n                _ => break r,\n            }", "R14.1.retry_loop")
m("x7-raw-fd-try-from-abs", "C13", IO, "    if bytes_written < 0 {\n        Err(VolatileMemoryError::IOError(std::io::Error::last_os_error()))\n    } else {\n        Ok(bytes_written.try_into().unwrap())\n    }",
  "    usize::try_from(bytes_written.wrapping_abs())\n        .map_err(|_| VolatileMemoryError::IOError(std::io::Error::last_os_error()))", "R13.5.raw_fd")

# from_arc_regions validating neighbours with zip(skip(1)).try_for_each (accepted since refactor round 5), each with one defect
_VAL_ORIG = """        for window in regions.windows(2) {
            let prev = &window[0];
            let next = &window[1];

            if prev.start_addr() > next.start_addr() {
                return Err(Error::UnsortedMemoryRegions);
            }

            if prev.last_addr() >= next.start_addr() {
                return Err(Error::MemoryRegionOverlap);
            }
        }"""
def _val_zip(skip="1", ovl=">=", first="prev", second="next"):
    return f"""        regions
            .iter()
            .zip(regions.iter().skip({skip}))
            .try_for_each(|(prev, next)| {{
                match {first}.start_addr().cmp(&{second}.start_addr()) {{
                    std::cmp::Ordering::Greater => Err(Error::UnsortedMemoryRegions),
                    _ if prev.last_addr() {ovl} next.start_addr() => Err(Error::MemoryRegionOverlap),
                    _ => Ok(()),
                }}
            }})?;"""
m("x7-validate-zip-skip-two", "C10", MM, _VAL_ORIG, _val_zip(skip="2"), "?")
m("x7-validate-zip-overlap-strict", "C10", MM, _VAL_ORIG, _val_zip(ovl=">"), "?")
m("x7-validate-zip-order-reversed", "C10", MM, _VAL_ORIG, _val_zip(first="next", second="prev"), "?")
BM = "src/bitmap/mod.rs"
m("x7-option-bitmap-is-some-and-shifted", "C05", BM, "        if let Some(inner) = self {\n            return inner.dirty_at(offset);\n        }\n        false",
  "        self.as_ref().is_some_and(|inner| inner.dirty_at(offset + 1))", "R5.3.option")
m("x7-option-bitmap-slice-at-zero", "C05", BM, "        if let Some(inner) = self {\n            return Some(inner.slice_at(offset));\n        }\n        None",
  "        self.as_ref().map(|inner| inner.slice_at(0))", "R5.3.option")
m("x7-bitmap-closure-arms-swapped", "C09,C05,C16", AB, """        for n in first_bit..=last_bit {
            if n >= self.size {
                // Attempts to set bits beyond the end of the bitmap are simply ignored.
                break;
            }
            if set {
                self.map[n >> 6].fetch_or(1 << (n & 63), Ordering::SeqCst);
            } else {
                self.map[n >> 6].fetch_and(!(1 << (n & 63)), Ordering::SeqCst);
            }
        }""", """        (first_bit..=last_bit)
            .take_while(|&n| n < self.size)
            .for_each(|n| {
                if !set {
                    self.map[n >> 6].fetch_or(1 << (n & 63), Ordering::SeqCst);
                } else {
                    self.map[n >> 6].fetch_and(!(1 << (n & 63)), Ordering::SeqCst);
                }
            });""", "R9.6.polarity")
m("x7-endian-eq-ordering-is-le", "C20", EN, "                self.0 == $old_type::$to_new(*other)", "                self.to_native().cmp(other).is_le()", "R20.1.eq")
m("x7-endian-eq-ordering-wrong-side", "C20", EN, "                self.0 == $old_type::$to_new(*other)", "                self.0.cmp(other).is_eq()", "R20.1.eq")

# check_range spelt with matches! (accepted since the corrected twins of round 8), each with one defect
_CR_ORIG = """        match self.try_access(len, base, |_, count, _, _| -> Result<usize> { Ok(count) }) {
            Ok(count) => count == len,
            _ => false,
        }"""
def _cr(guard="Ok(count) if count == len"):
    return f"""        matches!(
            self.try_access(len, base, |_, count, _, _| -> Result<usize> {{ Ok(count) }}),
            {guard}
        )"""
m("x7-check-range-matches-any-ok", "C02", GM, _CR_ORIG, _cr("Ok(_)"), "R2.3.check_range")
m("x7-check-range-matches-le", "C02", GM, _CR_ORIG, _cr("Ok(count) if count <= len"), "R2.3.check_range")
m("x7-check-range-matches-nonzero", "C02", GM, _CR_ORIG, _cr("Ok(count) if count == len && len != 0"), "R2.3.check_range")

# element loops with the count read from the iterator (ExactSizeIterator::len of the consumed chain; accepted since the corrected twins
# of round 8), each with one defect
def _elt_from_len(before_take=False, brk=""):
    chain = "buf.iter().enumerate()" if before_take else "buf.iter().enumerate().take(self.len())"
    loop = "elements.take(self.len())" if before_take else "elements"
    return f"""            let dst = guard.as_ptr() as *mut Packed<T>;
            let elements = {chain};
            let copied = elements.len();

            for (i, &v) in {loop} {{
                {brk}
                // SAFETY: test mutant scaffold
                unsafe {{ write_volatile(dst.add(i), Packed::<T>(v)) }};
            }}

            self.bitmap.mark_dirty(0, copied * self.element_size());"""
m("x7-len-mark-before-take", "C05,C16", VM, _ELT_FROM_ORIG, _elt_from_len(before_take=True), "?")
m("x7-len-mark-loop-breaks", "C05,C16", VM, _ELT_FROM_ORIG, _elt_from_len(brk="if i >= 3 { break; }"), "?")

# the page loop as `for n in (first..=last).take_while(pred)` (accepted since the corrected twins of round 8), each with one defect
_PL_ORIG = """        for n in first_bit..=last_bit {
            if n >= self.size {
                // Attempts to set bits beyond the end of the bitmap are simply ignored.
                break;
            }"""
def _pl(pred="n < self.size"):
    return f"""        for n in (first_bit..=last_bit).take_while(|&n| {pred}) {{"""
m("x7-take-while-le-size", "C09", AB, _PL_ORIG, _pl("n <= self.size"), "R9.1.guard")
m("x7-take-while-word-capacity", "C09", AB, _PL_ORIG, _pl("n < self.map.len() * 64"), "R9.1.guard")

# found by an automated sweep (negate every branch condition, run all 20 checks): silent before, reported now
XN = "src/mmap/xen.rs"
m("x8-sweep-word-size-test-negated", "C06", VM, "        if size_of::<usize>() > 4 {\n            copy_aligned_slice(8);", "        if !(size_of::<usize>() > 4) {\n            copy_aligned_slice(8);", "R6.4.descending_widths")
m("x8-sweep-word-size-test-ge-16", "C06", VM, "        if size_of::<usize>() > 4 {\n            copy_aligned_slice(8);", "        if size_of::<usize>() >= 16 {\n            copy_aligned_slice(8);", "R6.4.descending_widths")
m("x8-sweep-xen-default-prot-overrides", "C15", XN, "        if range.prot.is_none() {", "        if !(range.prot.is_none()) {", "R15.3.xen_default_only_when_none")
m("x8-sweep-xen-default-flags-always", "C15", XN, "            None => range.flags = Some(libc::MAP_NORESERVE | libc::MAP_SHARED),\n        }", "            None => {}\n        }\n        range.flags = Some(libc::MAP_NORESERVE | libc::MAP_SHARED);", "R15.3.xen_default_only_when_none")
m("x8-get-unwrap-off-by-one", "C07", MM, "if self.regions.get(region_index).unwrap().mapping.size() as GuestUsize == size {", "if self.regions.get(region_index + 1).unwrap().mapping.size() as GuestUsize == size {", "?")

# the width routine merged into the stepping pass (accepted since refactor round 6), each with one defect
_CS_ORIG = "                unsafe { copy_single(min_align, src, dst) };"
def _cs_inline(w4="u32", arms="8 | 4 | 2 | 1", a8="8", rd="src", wr="dst"):
    return f"""                unsafe {{
                    match min_align {{
                        {a8} => write_volatile({wr} as *mut u64, read_volatile({rd} as *const u64)),
                        4 => write_volatile({wr} as *mut {w4}, read_volatile({rd} as *const {w4})),
                        2 => write_volatile({wr} as *mut u16, read_volatile({rd} as *const u16)),
                        1 => write_volatile({wr}, read_volatile({rd})),
                        _ => unreachable!(),
                    }}
                }}"""
m("x8-merged-width-arm-4-as-u16", "C06", VM, _CS_ORIG, _cs_inline(w4="u16"), "?")

m("x8-merged-width-read-through-dst", "C06", VM, _CS_ORIG, _cs_inline(rd="dst as *const u8"), "?")
m("x8-merged-default-arm-reachable", "C07", VM, _CS_ORIG, _cs_inline(a8="16"), "?")

# the stepping pass as a function over `&mut` cursors and count (accepted since refactor round 6), each with one defect
def _csm(last_left="&mut left", stride="min_align", gate="if align < min_align {\n                return;\n            }"):
    return f"""    unsafe fn copy_slice_volatile(mut dst: *mut u8, mut src: *const u8, total: usize) -> usize {{
        let mut left = total;
        let mut fresh = total;
        let _ = &mut fresh;

        let align = min(alignment(src as usize), alignment(dst as usize));

        unsafe fn copy_aligned_slice(dst: &mut *mut u8, src: &mut *const u8, left: &mut usize, align: usize, min_align: usize) {{
            {gate}

            while *left >= min_align {{
                // SAFETY: test mutant scaffold
                unsafe {{ copy_single(min_align, *src, *dst) }};

                *left -= min_align;

                if *left == 0 {{
                    break;
                }}

                // SAFETY: test mutant scaffold
                unsafe {{
                    *src = (*src).add({stride});
                    *dst = (*dst).add({stride});
                }}
            }}
        }}

        // SAFETY: test mutant scaffold
        unsafe {{
            if size_of::<usize>() > 4 {{
                copy_aligned_slice(&mut dst, &mut src, &mut left, align, 8);
            }}
            copy_aligned_slice(&mut dst, &mut src, &mut left, align, 4);
            copy_aligned_slice(&mut dst, &mut src, &mut left, align, 2);
            copy_aligned_slice(&mut dst, &mut src, {last_left}, align, 1);
        }}

        total
    }}"""
m("x8-stepfn-mut-fresh-count", "C06", VM, _CSV_ORIG, _csm(last_left="&mut fresh"), "?")
m("x8-stepfn-mut-stride-one", "C06", VM, _CSV_ORIG, _csm(stride="1"), "?")
m("x8-stepfn-mut-no-gate", "C06", VM, _CSV_ORIG, _csm(gate=""), "?")
m("x8-sweep-option-bitmap-none-dirty", "C05", BM, "            return inner.dirty_at(offset);\n        }\n        false", "            return inner.dirty_at(offset);\n        }\n        true", "R5.3.option_none_clean")
m("x8-sweep-get-slice-args-swapped", "C01", VM, "        self.subslice(offset, count)", "        self.subslice(count, offset)", "R1.2.get_slice_forward")

# ---- batch x9: seed round 9 (secondary layers) -> R18.4.mark_entry, R5.1.extent element units, R3.6.slice_exact_form
_MD = "        self.set_addr_range(offset, len)\n    }"
m("x9-mark-dirty-fast-path-len0", "C18", AB, _MD,
  "        if len <= self.page_size.get() - offset % self.page_size {\n            return self.set_bit(offset / self.page_size);\n        }\n" + _MD, "R18.4.mark_entry")
m("x9-mark-dirty-len-rounded", "C18", AB, _MD, "        self.set_addr_range(offset, len.max(1))\n    }", "R18.4.mark_entry")
m("x9-array-copy-elements-mark-count", "C05", VM,
  "            let count = min(self.len() * self.element_size(), slice.size);\n            // Access both sides through pointer guards, so that memory which is mapped on\n            // demand is mapped for the duration of the copy.\n            let src = self.ptr_guard();\n            let dst = slice.ptr_guard_mut();\n            copy(src.as_ptr(), dst.as_ptr(), count);",
  "            if self.element_size() == 0 {\n                return;\n            }\n            let count = min(self.len(), slice.size / self.element_size());\n            let src = self.ptr_guard();\n            let dst = slice.ptr_guard_mut();\n            copy(src.as_ptr().cast::<Packed<T>>(), dst.as_ptr().cast::<Packed<T>>(), count);",
  "R5.1.extent")
m("x9-slice-exact-single-read", "C03", VM,
  "        src.read_exact_volatile(&mut self.get_slice(addr, count)?)",
  "        let len = self.read_volatile_from(addr, src, count)?;\n        if len != count {\n            return Err(Error::PartialBuffer {\n                expected: count,\n                completed: len,\n            });\n        }\n        Ok(())",
  "R3.6.slice_exact_form")
# wrong twin of refactors/RF-mark-dirty-guarded-fast-path: the in-page offset is not reduced, so the subtraction can underflow
m("x9-fast-path-sub-unreduced", "C07", AB, _MD,
  "        if len != 0 && len <= self.page_size.get() - offset {\n            return self.set_bit(offset / self.page_size);\n        }\n" + _MD, "A4.unreviewed")
# the corrected unit (count * element_size()) is accepted by R5.1.extent; a product with anything but the element size is not
m("x9-array-copy-elements-mark-times-two", "C05", VM,
  "            let count = min(self.len() * self.element_size(), slice.size);\n            // Access both sides through pointer guards, so that memory which is mapped on\n            // demand is mapped for the duration of the copy.\n            let src = self.ptr_guard();\n            let dst = slice.ptr_guard_mut();\n            copy(src.as_ptr(), dst.as_ptr(), count);\n            slice.bitmap.mark_dirty(0, count);",
  "            if self.element_size() == 0 {\n                return;\n            }\n            let count = min(self.len(), slice.size / self.element_size());\n            let src = self.ptr_guard();\n            let dst = slice.ptr_guard_mut();\n            copy(src.as_ptr().cast::<Packed<T>>(), dst.as_ptr().cast::<Packed<T>>(), count);\n            slice.bitmap.mark_dirty(0, count * 2);",
  "R5.1.extent")
