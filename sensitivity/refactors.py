"""Behaviour-preserving rewrites: every check named must stay SILENT on them (exit 0).
An alarm here is a false alarm of the checker and must be fixed in the rule (normalisation), never by editing the rewrite."""
VM = "src/volatile_memory.rs"
GM = "src/guest_memory.rs"
MM = "src/mmap/mod.rs"
UX = "src/mmap/unix.rs"
XN = "src/mmap/xen.rs"
AB = "src/bitmap/backend/atomic_bitmap.rs"
IO = "src/io.rs"
R = []


def r(id, props, file, old, new, occ=None):
    R.append(dict(id=id, props=props.split(","), file=file, old=old, new=new, occ=occ, expect=None))


r("rf-end-offset-swapped-cmp", "C01,C07,C18", VM, "if mem_end > self.len() {", "if self.len() < mem_end {")
r("rf-in-range-swapped", "C02,C03,C07", GM, "addr.raw_value() < self.len()", "self.len() > addr.raw_value()")
r("rf-find-region-swapped", "C02,C07", MM, "Err(x) if (x > 0 && addr <= self.regions[x - 1].last_addr()) => Some(x - 1),", "Err(x) if (x > 0 && self.regions[x - 1].last_addr() >= addr) => Some(x - 1),")
r("rf-try-access-swapped", "C03,C07,C14", GM, "Some(x) if x < count => x,", "Some(x) if count > x => x,")
r("rf-baseslice-commuted", "C05,C09,C07,C16", "src/bitmap/backend/slice.rs", ".mark_dirty(self.base_offset.wrapping_add(offset), len)", ".mark_dirty(offset.wrapping_add(self.base_offset), len)")
r("rf-bit-set-inverted", "C09,C08,C07", AB, "        if index < self.size {\n            (self.map[index >> 6].load(Ordering::Acquire) & (1 << (index & 63))) != 0\n        } else {\n            // Out-of-range bits are always unset.\n            false\n        }",
  "        if index >= self.size {\n            // Out-of-range bits are always unset.\n            false\n        } else {\n            (self.map[index >> 6].load(Ordering::Acquire) & (1 << (index & 63))) != 0\n        }")
r("rf-slice-write-bound-swapped", "C04,C18,C07", VM, "        if addr >= self.size {\n            return Err(Error::OutOfBounds { addr });\n        }\n\n        // NOTE: the duality",
  "        if self.size <= addr {\n            return Err(Error::OutOfBounds { addr });\n        }\n\n        // NOTE: the duality")
r("rf-subslice-helper", "C01,C05,C07,C17", VM, "    pub fn subslice(&self, offset: usize, count: usize) -> Result<Self> {\n        let _ = self.compute_end_offset(offset, count)?;",
  "    pub fn subslice(&self, offset: usize, count: usize) -> Result<Self> {\n        let _end = self.compute_end_offset(offset, count)?;")
r("rf-fd-branches-swapped", "C05,C13,C16,C07,C17", IO, "    if bytes_read < 0 {\n        // We don't know if a partial read might have happened, so mark everything as dirty\n        buf.bitmap().mark_dirty(0, buf.len());\n\n        Err(VolatileMemoryError::IOError(std::io::Error::last_os_error()))\n    } else {\n        let bytes_read = bytes_read.try_into().unwrap();\n        buf.bitmap().mark_dirty(0, bytes_read);\n        Ok(bytes_read)\n    }",
  "    if bytes_read >= 0 {\n        let bytes_read = bytes_read.try_into().unwrap();\n        buf.bitmap().mark_dirty(0, bytes_read);\n        Ok(bytes_read)\n    } else {\n        // We don't know if a partial read might have happened, so mark everything as dirty\n        buf.bitmap().mark_dirty(0, buf.len());\n\n        Err(VolatileMemoryError::IOError(std::io::Error::last_os_error()))\n    }")
r("rf-overlap-swapped", "C10,C07", MM, "if prev.last_addr() >= next.start_addr() {", "if next.start_addr() <= prev.last_addr() {")
r("rf-io-min-commuted", "C13,C04,C07", IO, "        let total = buf.len().min(self.len());\n", "        let total = self.len().min(buf.len());\n", occ=0)
r("rf-io-min-cmp", "C13,C04,C07", IO, "        let total = buf.len().min(self.len());\n", "        let total = std::cmp::min(buf.len(), self.len());\n", occ=1)
r("rf-routing-inverted", "C06,C04,C07", VM, "        if total <= size_of::<usize>() {\n            // SAFETY: Invariants of copy_slice_volatile are the same as invariants of copy_slice\n            unsafe {\n                copy_slice_volatile(dst, src, total);\n            };\n        } else {\n            // SAFETY:\n            // - Both src and dst are allocated for reads/writes of length `total` by function\n            //   invariant\n            // - src and dst are properly aligned, as any alignment is valid for u8\n            // - The regions are not overlapping by function invariant\n            unsafe {\n                std::ptr::copy_nonoverlapping(src, dst, total);\n            }\n        }",
  "        if total > size_of::<usize>() {\n            // SAFETY: see above\n            unsafe {\n                std::ptr::copy_nonoverlapping(src, dst, total);\n            }\n        } else {\n            // SAFETY: Invariants of copy_slice_volatile are the same as invariants of copy_slice\n            unsafe {\n                copy_slice_volatile(dst, src, total);\n            };\n        }")
r("rf-rename-locals", "C03,C07,C14,C02", GM, "            let start = region.to_region_addr(cur).unwrap();\n            let cap = region.len() - start.raw_value();\n            let len = std::cmp::min(cap, (count - total) as GuestUsize);\n            match f(total, len as usize, start, region) {",
  "            let region_start = region.to_region_addr(cur).unwrap();\n            let room = region.len() - region_start.raw_value();\n            let chunk = std::cmp::min(room, (count - total) as GuestUsize);\n            match f(total, chunk as usize, region_start, region) {")
r("rf-eof-swapped", "C15,C07", MM, "if filesize < end {", "if end > filesize {")
r("rf-remove-region-swapped-eq", "C10,C07", MM, "if self.regions.get(region_index).unwrap().mapping.size() as GuestUsize == size {", "if size == self.regions.get(region_index).unwrap().mapping.size() as GuestUsize {")
r("rf-bitmap-len0-ne", "C07,C09,C16,C05,C18", AB, "        if len == 0 {\n            return;\n        }", "        if len < 1 {\n            return;\n        }")
r("rf-array-guard-commuted", "C17,C07", VM, "PtrGuard::read(self.mmap, self.addr, self.len() * self.element_size())", "PtrGuard::read(self.mmap, self.addr, self.element_size() * self.len())")
r("rf-check-alignment-eq", "C01,C07", VM, "        if ((self.addr as usize) & (alignment - 1)) != 0 {\n            return Err(Error::Misaligned {\n                addr: self.addr as usize,\n                alignment,\n            });\n        }\n        Ok(())",
  "        if ((self.addr as usize) & (alignment - 1)) == 0 {\n            return Ok(());\n        }\n        Err(Error::Misaligned {\n            addr: self.addr as usize,\n            alignment,\n        })")
r("rf-harvest-swap", "C08,C09,C07", AB, ".map(|u| u.fetch_and(0, Ordering::SeqCst))", ".map(|u| u.swap(0, Ordering::SeqCst))")
r("rf-read-exact-swapped", "C13,C07", IO, "        if buf.len() > self.len() {", "        if self.len() < buf.len() {")
r("rf-replace-explicit-drop", "C11", "src/atomic.rs", "    pub fn replace(self, map: M) {\n        self.parent.inner.0.store(Arc::new(map))\n    }", "    pub fn replace(self, map: M) {\n        let new = Arc::new(map);\n        self.parent.inner.0.store(new);\n        drop(self);\n    }")
r("rf-owned-drop-early-return", "C12,C07", UX, "        if self.owned {\n            // SAFETY: This is safe because we mmap the area at addr ourselves, and nobody\n            // else is holding a reference to it.\n            unsafe {\n                #[cfg(not(miri))]\n                libc::munmap(self.addr as *mut libc::c_void, self.size);",
  "        if !self.owned {\n            return;\n        }\n        {\n            // SAFETY: This is safe because we mmap the area at addr ourselves, and nobody\n            // else is holding a reference to it.\n            unsafe {\n                #[cfg(not(miri))]\n                libc::munmap(self.addr as *mut libc::c_void, self.size);")
