// vmfacts: a rustc_private driver that dumps the type-checked program (MIR at opt-level 0,
// resolved callees, ADT / impl / signature / layout facts) of ONE crate as a JSON file.
// It decides nothing; the rule engine in /verif/rules does.
//
// Usage (through cargo):  RUSTC_WORKSPACE_WRAPPER=vmfacts VMFACTS_CRATE=vm_memory VMFACTS_OUT=f.json
//                         cargo +nightly check --lib ...
#![feature(rustc_private)]
#![allow(clippy::all)]

extern crate rustc_abi;
extern crate rustc_data_structures;
extern crate rustc_driver;
extern crate rustc_hir;
extern crate rustc_interface;
extern crate rustc_middle;
extern crate rustc_span;

mod json;

use json::J;
use rustc_driver::Compilation;
use rustc_hir::def::DefKind;
use rustc_hir::def_id::{DefId, LocalDefId};
use rustc_middle::mir::{
    self, AggregateKind, AssertKind, BasicBlock, Body, BorrowKind, CastKind, Operand, Place,
    ProjectionElem, Rvalue, StatementKind, TerminatorKind, UnwindAction,
};
use rustc_middle::ty::print::PrintTraitRefExt;
use rustc_middle::ty::{self, GenericArgKind, Instance, Ty, TyCtxt, TypingEnv};
use std::collections::HashMap;

struct Cb;

impl rustc_driver::Callbacks for Cb {
    fn after_analysis<'tcx>(
        &mut self,
        _c: &rustc_interface::interface::Compiler,
        tcx: TyCtxt<'tcx>,
    ) -> Compilation {
        let want = std::env::var("VMFACTS_CRATE").unwrap_or_else(|_| "vm_memory".into());
        let name = tcx.crate_name(rustc_hir::def_id::LOCAL_CRATE).to_string();
        if name != want {
            return Compilation::Continue;
        }
        let out = match std::env::var("VMFACTS_OUT") {
            Ok(o) => o,
            Err(_) => return Compilation::Continue,
        };
        let mut cx = Cx { tcx, types: Vec::new(), type_ids: HashMap::new() };
        let j = cx.dump_crate(&name);
        // one write per process
        let s = j.to_string();
        std::fs::write(&out, s).expect("vmfacts: cannot write facts");
        Compilation::Continue
    }
}

struct Cx<'tcx> {
    tcx: TyCtxt<'tcx>,
    types: Vec<J>,
    type_ids: HashMap<Ty<'tcx>, usize>,
}

fn s(x: impl Into<String>) -> J {
    J::Str(x.into())
}
fn n(x: impl TryInto<i128>) -> J {
    match x.try_into() {
        Ok(v) => J::Num(v),
        Err(_) => J::Null,
    }
}

impl<'tcx> Cx<'tcx> {
    fn iname(&self, d: DefId) -> String {
        self.tcx.opt_item_name(d).map(|x| x.to_string()).unwrap_or_else(|| "?".to_string())
    }

    fn path(&self, d: DefId) -> String {
        self.tcx.def_path_str(d)
    }

    fn span_str(&self, sp: rustc_span::Span) -> (String, i128) {
        let sm = self.tcx.sess.source_map();
        let sp = if sp.from_expansion() {
            // the place in user source where the outermost macro was invoked
            sp.source_callsite()
        } else {
            sp
        };
        let loc = sm.lookup_char_pos(sp.lo());
        let f = match &loc.file.name {
            rustc_span::FileName::Real(r) => match r.local_path() {
                Some(p) => p.to_string_lossy().to_string(),
                None => format!("{:?}", loc.file.name),
            },
            other => format!("{:?}", other),
        };
        (f, loc.line as i128)
    }

    fn ty(&mut self, t: Ty<'tcx>) -> J {
        J::Num(self.ty_id(t) as i128)
    }

    fn ty_id(&mut self, t: Ty<'tcx>) -> usize {
        if let Some(&i) = self.type_ids.get(&t) {
            return i;
        }
        let id = self.types.len();
        self.types.push(J::Null);
        self.type_ids.insert(t, id);
        let mut o = J::obj();
        o.set("s", s(format!("{}", t)));
        match t.kind() {
            ty::Bool | ty::Char | ty::Int(_) | ty::Uint(_) | ty::Float(_) | ty::Str | ty::Never => {
                o.set("k", s("prim"));
            }
            ty::Adt(def, args) => {
                o.set("k", s("adt"));
                o.set("def", s(self.path(def.did())));
                let mut a = Vec::new();
                for ga in args.iter() {
                    match ga.kind() {
                        GenericArgKind::Type(t2) => a.push(self.ty(t2)),
                        GenericArgKind::Lifetime(r) => a.push(s(format!("{}", r))),
                        GenericArgKind::Const(c) => a.push(s(format!("{}", c))),
                    }
                }
                o.set("args", J::Arr(a));
            }
            ty::Ref(r, inner, m) => {
                o.set("k", s("ref"));
                o.set("mut", J::Bool(m.is_mut()));
                o.set("rg", s(format!("{}", r)));
                let i = self.ty(*inner);
                o.set("ty", i);
            }
            ty::RawPtr(inner, m) => {
                o.set("k", s("ptr"));
                o.set("mut", J::Bool(m.is_mut()));
                let i = self.ty(*inner);
                o.set("ty", i);
            }
            ty::Slice(inner) => {
                o.set("k", s("slice"));
                let i = self.ty(*inner);
                o.set("ty", i);
            }
            ty::Array(inner, len) => {
                o.set("k", s("array"));
                let i = self.ty(*inner);
                o.set("ty", i);
                o.set("len", s(format!("{}", len)));
            }
            ty::Tuple(list) => {
                o.set("k", s("tuple"));
                let mut a = Vec::new();
                for t2 in list.iter() {
                    a.push(self.ty(t2));
                }
                o.set("args", J::Arr(a));
            }
            ty::Param(p) => {
                o.set("k", s("param"));
                o.set("name", s(p.name.to_string()));
            }
            ty::FnDef(d, args) => {
                o.set("k", s("fndef"));
                o.set("def", s(self.path(*d)));
                let mut a = Vec::new();
                for ga in args.iter() {
                    if let GenericArgKind::Type(t2) = ga.kind() {
                        a.push(self.ty(t2));
                    }
                }
                o.set("args", J::Arr(a));
            }
            ty::Closure(d, _) => {
                o.set("k", s("closure"));
                o.set("def", s(self.path(*d)));
            }
            ty::Dynamic(..) => {
                o.set("k", s("dyn"));
            }
            ty::FnPtr(..) => {
                o.set("k", s("fnptr"));
            }
            ty::Alias(..) => {
                o.set("k", s("alias"));
            }
            _ => {
                o.set("k", s("other"));
            }
        }
        self.types[id] = o;
        id
    }

    fn dump_crate(&mut self, name: &str) -> J {
        let tcx = self.tcx;
        let mut root = J::obj();
        let mut hdr = J::obj();
        hdr.set("crate", s(name));
        hdr.set("config", s(std::env::var("VMFACTS_CONFIG").unwrap_or_default()));
        hdr.set("source_hash", s(std::env::var("VMFACTS_SRCHASH").unwrap_or_default()));
        hdr.set("rustc", s(option_env!("CFG_VERSION").unwrap_or("nightly")));
        root.set("header", hdr);

        // ---- bodies
        let mut bodies = Vec::new();
        let owners: Vec<LocalDefId> = tcx.hir_body_owners().collect();
        for ldid in owners {
            let did = ldid.to_def_id();
            let kind = tcx.def_kind(did);
            match kind {
                DefKind::Fn | DefKind::AssocFn | DefKind::Closure => {}
                _ => continue,
            }
            if !tcx.is_mir_available(did) {
                continue;
            }
            bodies.push(self.dump_body(ldid, kind));
            let proms = tcx.promoted_mir(did);
            for (pi, pb) in proms.iter_enumerated() {
                bodies.push(self.dump_promoted(ldid, pi.as_usize(), pb));
            }
        }
        root.set("bodies", J::Arr(bodies));

        // ---- adts, impls, traits, consts
        let mut adts = Vec::new();
        let mut impls = Vec::new();
        let mut traits = Vec::new();
        let mut consts = Vec::new();
        let mut fns = Vec::new();
        let defs: Vec<LocalDefId> = tcx.hir_crate_items(()).definitions().collect();
        for ldid in defs {
            let did = ldid.to_def_id();
            match tcx.def_kind(did) {
                DefKind::Struct | DefKind::Enum | DefKind::Union => adts.push(self.dump_adt(did)),
                DefKind::Impl { .. } => impls.push(self.dump_impl(did)),
                DefKind::Trait => traits.push(self.dump_trait(did)),
                DefKind::Const { .. } | DefKind::AssocConst { .. } => {
                    if let Some(c) = self.dump_const(did) {
                        consts.push(c)
                    }
                }
                DefKind::Fn | DefKind::AssocFn => fns.push(self.dump_fn_sig(ldid)),
                _ => {}
            }
        }
        root.set("adts", J::Arr(adts));
        root.set("impls", J::Arr(impls));
        root.set("traits", J::Arr(traits));
        root.set("consts", J::Arr(consts));
        root.set("fns", J::Arr(fns));

        // ---- layouts of primitive ints (for comparison with wrappers)
        let mut lay = Vec::new();
        for (nm, t) in [
            ("u8", tcx.types.u8),
            ("u16", tcx.types.u16),
            ("u32", tcx.types.u32),
            ("u64", tcx.types.u64),
            ("u128", tcx.types.u128),
            ("usize", tcx.types.usize),
            ("i8", tcx.types.i8),
            ("i16", tcx.types.i16),
            ("i32", tcx.types.i32),
            ("i64", tcx.types.i64),
            ("i128", tcx.types.i128),
            ("isize", tcx.types.isize),
        ] {
            let env = TypingEnv::fully_monomorphized();
            if let Ok(l) = tcx.layout_of(env.as_query_input(t)) {
                let mut o = J::obj();
                o.set("ty", s(nm));
                o.set("size", n(l.size.bytes()));
                o.set("align", n(l.align.abi.bytes()));
                lay.push(o);
            }
        }
        root.set("prim_layouts", J::Arr(lay));

        root.set("types", J::Arr(std::mem::take(&mut self.types)));
        root
    }

    fn vis_str(&self, did: DefId) -> String {
        match self.tcx.visibility(did) {
            ty::Visibility::Public => "pub".to_string(),
            ty::Visibility::Restricted(m) => {
                if m.is_crate_root() {
                    "crate".to_string()
                } else {
                    format!("in:{}", self.path(m))
                }
            }
        }
    }

    fn dump_adt(&mut self, did: DefId) -> J {
        let tcx = self.tcx;
        let adt = tcx.adt_def(did);
        let mut o = J::obj();
        o.set("path", s(self.path(did)));
        o.set(
            "kind",
            s(if adt.is_struct() {
                "struct"
            } else if adt.is_enum() {
                "enum"
            } else {
                "union"
            }),
        );
        o.set("vis", s(self.vis_str(did)));
        let r = adt.repr();
        let mut rp = J::obj();
        rp.set("transparent", J::Bool(r.transparent()));
        rp.set("c", J::Bool(r.c()));
        rp.set("packed", J::Bool(r.packed()));
        o.set("repr", rp);
        let (f, l) = self.span_str(tcx.def_span(did));
        o.set("file", s(f));
        o.set("line", n(l));
        let gens = tcx.generics_of(did);
        let mut gs = Vec::new();
        for p in gens.own_params.iter() {
            gs.push(s(p.name.to_string()));
        }
        o.set("generics", J::Arr(gs));
        let mut vs = Vec::new();
        for v in adt.variants().iter() {
            let mut vo = J::obj();
            vo.set("name", s(v.name.to_string()));
            let mut fs = Vec::new();
            for fd in v.fields.iter() {
                let mut fo = J::obj();
                fo.set("name", s(fd.name.to_string()));
                let t = tcx.type_of(fd.did).instantiate_identity().skip_norm_wip();
                let tj = self.ty(t);
                fo.set("ty", tj);
                fo.set("vis", s(self.vis_str(fd.did)));
                fs.push(fo);
            }
            vo.set("fields", J::Arr(fs));
            vs.push(vo);
        }
        o.set("variants", J::Arr(vs));
        // layout for non-generic ADTs
        if gens.own_params.is_empty() && gens.parent.is_none() {
            let t = tcx.type_of(did).instantiate_identity().skip_norm_wip();
            let env = TypingEnv::fully_monomorphized();
            if let Ok(l) = tcx.layout_of(env.as_query_input(t)) {
                o.set("size", n(l.size.bytes()));
                o.set("align", n(l.align.abi.bytes()));
            }
        }
        o
    }

    fn dump_impl(&mut self, did: DefId) -> J {
        let tcx = self.tcx;
        let mut o = J::obj();
        o.set("path", s(self.path(did)));
        let self_ty = tcx.type_of(did).instantiate_identity().skip_norm_wip();
        let stj = self.ty(self_ty);
        o.set("self_ty", stj);
        if let Some(tr) = tcx.impl_opt_trait_ref(did) {
            let tr = tr.instantiate_identity().skip_norm_wip();
            o.set("trait", s(self.path(tr.def_id)));
            o.set("trait_ref", s(format!("{}", tr.print_only_trait_path())));
            let mut a = Vec::new();
            for ga in tr.args.iter().skip(1) {
                if let GenericArgKind::Type(t2) = ga.kind() {
                    a.push(self.ty(t2));
                }
            }
            o.set("trait_args", J::Arr(a));
            let h = tcx.impl_trait_header(did);
            o.set("unsafe", J::Bool(h.safety.is_unsafe()));
            o.set("negative", J::Bool(matches!(h.polarity, ty::ImplPolarity::Negative)));
        } else {
            o.set("trait", J::Null);
        }
        o.set("derived", J::Bool(tcx.is_automatically_derived(did)));
        let sp = tcx.def_span(did);
        o.set("from_expansion", J::Bool(sp.from_expansion()));
        let (f, l) = self.span_str(sp);
        o.set("file", s(f));
        o.set("line", n(l));
        let mut items = Vec::new();
        for &it in tcx.associated_item_def_ids(did) {
            let mut io = J::obj();
            io.set("name", s(self.iname(it)));
            io.set("path", s(self.path(it)));
            io.set("kind", s(format!("{:?}", tcx.def_kind(it))));
            items.push(io);
        }
        o.set("items", J::Arr(items));
        o
    }

    fn dump_trait(&mut self, did: DefId) -> J {
        let tcx = self.tcx;
        let mut o = J::obj();
        o.set("path", s(self.path(did)));
        o.set("unsafe", J::Bool(tcx.trait_def(did).safety.is_unsafe()));
        let mut items = Vec::new();
        for &it in tcx.associated_item_def_ids(did) {
            let mut io = J::obj();
            io.set("name", s(self.iname(it)));
            io.set("path", s(self.path(it)));
            io.set("kind", s(format!("{:?}", tcx.def_kind(it))));
            let ai = tcx.associated_item(it);
            io.set("has_default", J::Bool(ai.defaultness(tcx).has_value()));
            items.push(io);
        }
        o.set("items", J::Arr(items));
        o
    }

    fn dump_const(&mut self, did: DefId) -> Option<J> {
        let tcx = self.tcx;
        let gens = tcx.generics_of(did);
        if !gens.own_params.is_empty() {
            return None;
        }
        if let Some(p) = gens.parent {
            if tcx.generics_of(p).count() != 0 {
                return None;
            }
        }
        // trait-level associated consts have no value
        if tcx.trait_of_assoc(did).is_some() {
            return None;
        }
        let t = tcx.type_of(did).instantiate_identity().skip_norm_wip();
        let mut o = J::obj();
        o.set("path", s(self.path(did)));
        let tj = self.ty(t);
        o.set("ty", tj);
        if let Ok(v) = tcx.const_eval_poly(did) {
            if let Some(sc) = v.try_to_scalar_int() {
                o.set("val", s(format!("{}", sc.to_bits_unchecked())));
            }
        }
        Some(o)
    }

    fn dump_fn_sig(&mut self, ldid: LocalDefId) -> J {
        let tcx = self.tcx;
        let did = ldid.to_def_id();
        let mut o = J::obj();
        o.set("path", s(self.path(did)));
        let sig = tcx.fn_sig(did).instantiate_identity().skip_norm_wip();
        o.set("sig", s(format!("{}", sig)));
        let sig = sig.skip_binder();
        o.set("unsafe", J::Bool(sig.safety().is_unsafe()));
        let mut ins = Vec::new();
        for t in sig.inputs().iter() {
            ins.push(self.ty(*t));
        }
        o.set("inputs", J::Arr(ins));
        let ot = self.ty(sig.output());
        o.set("output", ot);
        o.set("vis", s(self.vis_str(did)));
        let ev = tcx.effective_visibilities(());
        o.set("reachable", J::Bool(ev.is_reachable(ldid)));
        o.set("has_body", J::Bool(tcx.is_mir_available(did)));
        o
    }

    // ------------------------------------------------------------------ bodies

    fn dump_promoted(&mut self, ldid: LocalDefId, idx: usize, body: &Body<'tcx>) -> J {
        let tcx = self.tcx;
        let did = ldid.to_def_id();
        let env = TypingEnv::post_analysis(tcx, did);
        let mut o = J::obj();
        o.set("id", s(format!("{}::promoted[{}]", self.path(did), idx)));
        o.set("kind", s("Promoted"));
        o.set("name", s("{promoted}"));
        let sp = tcx.def_span(did);
        let (f, l) = self.span_str(sp);
        o.set("file", s(f));
        o.set("line", n(l));
        o.set("from_expansion", J::Bool(sp.from_expansion()));
        o.set("root", s(self.path(did)));
        o.set("arg_count", n(0));
        self.dump_locals_and_blocks(&mut o, body, env);
        o
    }

    fn dump_body(&mut self, ldid: LocalDefId, kind: DefKind) -> J {
        let tcx = self.tcx;
        let did = ldid.to_def_id();
        let body: &Body<'tcx> = tcx.optimized_mir(did);
        let env = TypingEnv::post_analysis(tcx, did);
        let mut o = J::obj();
        o.set("id", s(self.path(did)));
        o.set("kind", s(format!("{:?}", kind)));
        o.set("name", s(match kind {
            DefKind::Closure => "{closure}".to_string(),
            _ => self.iname(did),
        }));
        let sp = tcx.def_span(did);
        let (f, l) = self.span_str(sp);
        o.set("file", s(f));
        o.set("line", n(l));
        o.set("from_expansion", J::Bool(sp.from_expansion()));
        if sp.from_expansion() {
            let ed = sp.ctxt().outer_expn_data();
            o.set("macro", s(format!("{:?}", ed.kind)));
        }
        // container
        let root = tcx.typeck_root_def_id(did);
        o.set("root", s(self.path(root)));
        if matches!(kind, DefKind::Fn | DefKind::AssocFn) {
            o.set("vis", s(self.vis_str(did)));
            let sig = tcx.fn_sig(did).instantiate_identity().skip_norm_wip();
            o.set("unsafe", J::Bool(sig.safety().is_unsafe()));
            o.set("sig", s(format!("{}", sig)));
            let ev = tcx.effective_visibilities(());
            o.set("reachable", J::Bool(ev.is_reachable(ldid)));
        }
        if let Some(tr) = tcx.trait_of_assoc(root) {
            o.set("in_trait", s(self.path(tr)));
        }
        if let Some(im) = tcx.impl_of_assoc(root) {
            o.set("impl", s(self.path(im)));
            let self_ty = tcx.type_of(im).instantiate_identity().skip_norm_wip();
            let stj = self.ty(self_ty);
            o.set("self_ty", stj);
            if let Some(tr) = tcx.impl_opt_trait_ref(im) {
                let tr = tr.instantiate_identity().skip_norm_wip();
                o.set("impl_trait", s(self.path(tr.def_id)));
                o.set("impl_trait_ref", s(format!("{}", tr.print_only_trait_path())));
            }
            o.set("impl_derived", J::Bool(tcx.is_automatically_derived(im)));
        }
        o.set("arg_count", n(body.arg_count));
        if matches!(kind, DefKind::Fn | DefKind::AssocFn) {
            // type parameters in substitution order (parents first): lets the rules instantiate an inlined callee
            let gens = tcx.generics_of(did);
            let mut gs = Vec::new();
            for i in 0..gens.count() {
                let p = gens.param_at(i, tcx);
                if matches!(p.kind, ty::GenericParamDefKind::Type { .. }) {
                    gs.push(s(p.name.to_string()));
                }
            }
            o.set("generics", J::Arr(gs));
        }
        self.dump_locals_and_blocks(&mut o, body, env);
        o
    }

    fn dump_locals_and_blocks(&mut self, o: &mut J, body: &Body<'tcx>, env: TypingEnv<'tcx>) {
        // locals
        let mut names: HashMap<usize, String> = HashMap::new();
        for vdi in body.var_debug_info.iter() {
            if let mir::VarDebugInfoContents::Place(p) = &vdi.value {
                if p.projection.is_empty() {
                    names.entry(p.local.as_usize()).or_insert(vdi.name.to_string());
                }
            }
        }
        let mut locals = Vec::new();
        for (i, ld) in body.local_decls.iter_enumerated() {
            let mut lo = J::obj();
            let tj = self.ty(ld.ty);
            lo.set("ty", tj);
            if let Some(nm) = names.get(&i.as_usize()) {
                lo.set("name", s(nm.clone()));
            }
            lo.set("mut", J::Bool(ld.mutability.is_mut()));
            locals.push(lo);
        }
        o.set("locals", J::Arr(locals));
        // upvar debug names for closures
        let mut upv = Vec::new();
        for vdi in body.var_debug_info.iter() {
            if let mir::VarDebugInfoContents::Place(p) = &vdi.value {
                if !p.projection.is_empty() {
                    let mut u = J::obj();
                    u.set("name", s(vdi.name.to_string()));
                    let pj = self.place(body, p);
                    u.set("place", pj);
                    upv.push(u);
                }
            }
        }
        o.set("upvars", J::Arr(upv));

        let mut blocks = Vec::new();
        for (_bb, bd) in body.basic_blocks.iter_enumerated() {
            let mut bo = J::obj();
            bo.set("cleanup", J::Bool(bd.is_cleanup));
            let mut stmts = Vec::new();
            for st in bd.statements.iter() {
                let (_, line) = self.span_str(st.source_info.span);
                let exp = st.source_info.span.from_expansion();
                match &st.kind {
                    StatementKind::Assign(b) => {
                        let (pl, rv) = &**b;
                        let mut so = J::obj();
                        so.set("k", s("assign"));
                        let plj = self.place(body, pl);
                        so.set("lhs", plj);
                        let rvj = self.rvalue(body, env, rv);
                        so.set("rv", rvj);
                        so.set("ln", n(line));
                        if exp {
                            so.set("exp", J::Bool(true));
                        }
                        stmts.push(so);
                    }
                    StatementKind::StorageLive(l) => {
                        let mut so = J::obj();
                        so.set("k", s("live"));
                        so.set("l", n(l.as_usize()));
                        stmts.push(so);
                    }
                    StatementKind::StorageDead(l) => {
                        let mut so = J::obj();
                        so.set("k", s("dead"));
                        so.set("l", n(l.as_usize()));
                        stmts.push(so);
                    }
                    StatementKind::SetDiscriminant { place, variant_index } => {
                        let mut so = J::obj();
                        so.set("k", s("setdiscr"));
                        let plj = self.place(body, place);
                        so.set("lhs", plj);
                        so.set("variant", n(variant_index.as_usize()));
                        stmts.push(so);
                    }
                    StatementKind::Intrinsic(i) => {
                        let mut so = J::obj();
                        so.set("k", s("intrinsic"));
                        so.set("s", s(format!("{:?}", i)));
                        so.set("ln", n(line));
                        stmts.push(so);
                    }
                    _ => {}
                }
            }
            bo.set("stmts", J::Arr(stmts));
            let term = bd.terminator();
            let tj = self.terminator(body, env, term);
            bo.set("term", tj);
            blocks.push(bo);
        }
        o.set("blocks", J::Arr(blocks));
    }

    fn field_name(&self, base_ty: mir::PlaceTy<'tcx>, f: rustc_abi::FieldIdx) -> (Option<String>, Option<String>) {
        match base_ty.ty.kind() {
            ty::Adt(def, _) => {
                let vi = base_ty.variant_index.unwrap_or(rustc_abi::FIRST_VARIANT);
                if def.is_enum() && base_ty.variant_index.is_none() {
                    return (Some(self.path(def.did())), None);
                }
                let v = def.variant(vi);
                let nm = v.fields.get(f).map(|fd| fd.name.to_string());
                let adt = if def.is_enum() {
                    format!("{}::{}", self.path(def.did()), v.name)
                } else {
                    self.path(def.did())
                };
                (Some(adt), nm)
            }
            _ => (None, None),
        }
    }

    fn place(&mut self, body: &Body<'tcx>, p: &Place<'tcx>) -> J {
        let tcx = self.tcx;
        let mut o = J::obj();
        o.set("l", n(p.local.as_usize()));
        if !p.projection.is_empty() {
            let mut pr = Vec::new();
            for (base, elem) in p.iter_projections() {
                let bty = base.ty(&body.local_decls, tcx);
                match elem {
                    ProjectionElem::Deref => pr.push(s("*")),
                    ProjectionElem::Field(f, _t) => {
                        let mut fo = J::obj();
                        fo.set("f", n(f.as_usize()));
                        let (adt, nm) = self.field_name(bty, f);
                        if let Some(a) = adt {
                            fo.set("adt", s(a));
                        }
                        if let Some(nm) = nm {
                            fo.set("name", s(nm));
                        }
                        pr.push(fo);
                    }
                    ProjectionElem::Index(l) => {
                        let mut io = J::obj();
                        io.set("idx", n(l.as_usize()));
                        pr.push(io);
                    }
                    ProjectionElem::ConstantIndex { offset, from_end, .. } => {
                        let mut io = J::obj();
                        io.set("cidx", n(offset));
                        io.set("from_end", J::Bool(from_end));
                        pr.push(io);
                    }
                    ProjectionElem::Subslice { from, to, from_end } => {
                        let mut io = J::obj();
                        io.set("sub_from", n(from));
                        io.set("sub_to", n(to));
                        io.set("from_end", J::Bool(from_end));
                        pr.push(io);
                    }
                    ProjectionElem::Downcast(nm, vi) => {
                        let mut io = J::obj();
                        io.set("downcast", n(vi.as_usize()));
                        if let Some(nm) = nm {
                            io.set("name", s(nm.to_string()));
                        }
                        pr.push(io);
                    }
                    _ => pr.push(s("?")),
                }
            }
            o.set("p", J::Arr(pr));
        }
        o
    }

    fn operand(&mut self, body: &Body<'tcx>, env: TypingEnv<'tcx>, op: &Operand<'tcx>) -> J {
        let tcx = self.tcx;
        match op {
            Operand::Copy(p) => {
                let mut o = J::obj();
                o.set("k", s("copy"));
                let pj = self.place(body, p);
                o.set("pl", pj);
                o
            }
            Operand::Move(p) => {
                let mut o = J::obj();
                o.set("k", s("move"));
                let pj = self.place(body, p);
                o.set("pl", pj);
                o
            }
            Operand::Constant(c) => {
                let mut o = J::obj();
                o.set("k", s("const"));
                let t = c.const_.ty();
                let tj = self.ty(t);
                o.set("ty", tj);
                match t.kind() {
                    ty::FnDef(d, args) => {
                        o.set("fn", s(self.path(*d)));
                        let mut a = Vec::new();
                        for ga in args.iter() {
                            if let GenericArgKind::Type(t2) = ga.kind() {
                                a.push(self.ty(t2));
                            }
                        }
                        o.set("fn_args", J::Arr(a));
                    }
                    ty::Bool | ty::Char | ty::Int(_) | ty::Uint(_) => {
                        if let Some(bits) = c.const_.try_eval_bits(tcx, env) {
                            // signed interpretation for ints
                            let v: i128 = match t.kind() {
                                ty::Int(_) => {
                                    let size = tcx
                                        .layout_of(env.as_query_input(t))
                                        .map(|l| l.size)
                                        .ok();
                                    match size {
                                        Some(sz) => sz.sign_extend(bits) as i128,
                                        None => bits as i128,
                                    }
                                }
                                _ => bits as i128,
                            };
                            if (bits >> 127) != 0 && !matches!(t.kind(), ty::Int(_)) {
                                o.set("val", s(format!("{}", bits)));
                            } else {
                                o.set("val", J::Num(v));
                            }
                        } else {
                            o.set("sym", s(format!("{}", c.const_)));
                        }
                    }
                    _ => {
                        // unevaluated / aggregate constants: keep a symbolic description
                        match c.const_ {
                            mir::Const::Unevaluated(uv, _) => {
                                o.set("uneval", s(self.path(uv.def)));
                                if let Some(p) = uv.promoted {
                                    o.set("promoted", n(p.as_usize()));
                                }
                                let mut a = Vec::new();
                                for ga in uv.args.iter() {
                                    if let GenericArgKind::Type(t2) = ga.kind() {
                                        a.push(self.ty(t2));
                                    }
                                }
                                o.set("uneval_args", J::Arr(a));
                                if let Some(bits) = c.const_.try_eval_bits(tcx, env) {
                                    o.set("val", s(format!("{}", bits)));
                                }
                            }
                            _ => {
                                if let Some(si) = c.const_.try_eval_scalar_int(tcx, env) {
                                    o.set("val", s(format!("{}", si.to_bits_unchecked())));
                                }
                            }
                        }
                        o.set("sym", s(format!("{}", c.const_)));
                    }
                }
                o
            }
            _ => {
                let mut o = J::obj();
                o.set("k", s("other"));
                o.set("s", s(format!("{:?}", op)));
                o
            }
        }
    }

    fn rvalue(&mut self, body: &Body<'tcx>, env: TypingEnv<'tcx>, rv: &Rvalue<'tcx>) -> J {
        let mut o = J::obj();
        match rv {
            Rvalue::Use(op, _) => {
                o.set("k", s("use"));
                let oj = self.operand(body, env, op);
                o.set("op", oj);
            }
            Rvalue::Repeat(op, c) => {
                o.set("k", s("repeat"));
                let oj = self.operand(body, env, op);
                o.set("op", oj);
                o.set("count", s(format!("{}", c)));
            }
            Rvalue::Ref(_, bk, pl) => {
                o.set("k", s("ref"));
                o.set("mut", J::Bool(matches!(bk, BorrowKind::Mut { .. })));
                let pj = self.place(body, pl);
                o.set("pl", pj);
            }
            Rvalue::RawPtr(k, pl) => {
                o.set("k", s("rawptr"));
                o.set("mut", J::Bool(matches!(k, mir::RawPtrKind::Mut)));
                let pj = self.place(body, pl);
                o.set("pl", pj);
            }
            Rvalue::Cast(ck, op, t) => {
                o.set("k", s("cast"));
                let ckn = match ck {
                    CastKind::PointerExposeProvenance => "PtrToInt".to_string(),
                    CastKind::PointerWithExposedProvenance => "IntToPtr".to_string(),
                    CastKind::PointerCoercion(pc, _) => format!("Coerce:{:?}", pc),
                    CastKind::IntToInt => "IntToInt".to_string(),
                    CastKind::PtrToPtr => "PtrToPtr".to_string(),
                    CastKind::Transmute => "Transmute".to_string(),
                    other => format!("{:?}", other),
                };
                o.set("cast", s(ckn));
                let oj = self.operand(body, env, op);
                o.set("op", oj);
                let tj = self.ty(*t);
                o.set("ty", tj);
            }
            Rvalue::BinaryOp(bop, b) => {
                o.set("k", s("bin"));
                o.set("op", s(format!("{:?}", bop)));
                let a = self.operand(body, env, &b.0);
                let c = self.operand(body, env, &b.1);
                o.set("a", a);
                o.set("b", c);
            }
            Rvalue::UnaryOp(uop, op) => {
                o.set("k", s("un"));
                o.set("op", s(format!("{:?}", uop)));
                let a = self.operand(body, env, op);
                o.set("a", a);
            }
            Rvalue::Discriminant(pl) => {
                o.set("k", s("discr"));
                let pj = self.place(body, pl);
                o.set("pl", pj);
                // number of variants of the enum whose discriminant is read (lets the rules turn the `otherwise` edge of a
                // two-variant match into a positive fact)
                let pt = pl.ty(&body.local_decls, self.tcx).ty;
                if let ty::Adt(ad, _) = pt.kind() {
                    if ad.is_enum() {
                        o.set("nvariants", n(ad.variants().len()));
                        // names of the variants by index (small enums only): `matches!(e.kind(), ErrorKind::Interrupted)` tests a
                        // discriminant value, and the rules speak of variants by name
                        if ad.variants().len() <= 96 {
                            let names: Vec<J> = ad.variants().iter().map(|v| s(v.name.to_string())).collect();
                            o.set("variant_names", J::Arr(names));
                            // the value the switch sees for each variant (declaration index != discriminant value when the enum
                            // has explicit discriminants, e.g. Ordering::Less = -1)
                            let vals: Vec<J> = ad.discriminants(self.tcx).map(|(_, d)| s(d.val.to_string())).collect();
                            o.set("variant_discrs", J::Arr(vals));
                        }
                    }
                }
            }
            Rvalue::Aggregate(ak, ops) => {
                o.set("k", s("agg"));
                match &**ak {
                    AggregateKind::Array(_) => o.set("agg", s("array")),
                    AggregateKind::Tuple => o.set("agg", s("tuple")),
                    AggregateKind::Adt(d, vi, _, _, _) => {
                        o.set("agg", s("adt"));
                        o.set("adt", s(self.path(*d)));
                        let def = self.tcx.adt_def(*d);
                        let v = def.variant(*vi);
                        o.set("variant", s(v.name.to_string()));
                        o.set("variant_idx", n(vi.as_usize()));
                        let mut fns = Vec::new();
                        for fd in v.fields.iter() {
                            fns.push(s(fd.name.to_string()));
                        }
                        o.set("fields", J::Arr(fns));
                    }
                    AggregateKind::Closure(d, _) => {
                        o.set("agg", s("closure"));
                        o.set("def", s(self.path(*d)));
                    }
                    AggregateKind::RawPtr(..) => o.set("agg", s("rawptr")),
                    _ => o.set("agg", s("other")),
                }
                let mut a = Vec::new();
                for op in ops.iter() {
                    a.push(self.operand(body, env, op));
                }
                o.set("ops", J::Arr(a));
            }
            Rvalue::CopyForDeref(pl) => {
                o.set("k", s("use"));
                let mut oo = J::obj();
                oo.set("k", s("copy"));
                let pj = self.place(body, pl);
                oo.set("pl", pj);
                o.set("op", oo);
            }
            Rvalue::ThreadLocalRef(d) => {
                o.set("k", s("tls"));
                o.set("def", s(self.path(*d)));
            }
            _ => {
                o.set("k", s("other"));
                o.set("s", s(format!("{:?}", rv)));
            }
        }
        o
    }

    fn unwind(&self, u: &UnwindAction) -> J {
        match u {
            UnwindAction::Cleanup(bb) => n(bb.as_usize()),
            _ => J::Null,
        }
    }

    fn terminator(&mut self, body: &Body<'tcx>, env: TypingEnv<'tcx>, term: &mir::Terminator<'tcx>) -> J {
        let tcx = self.tcx;
        let mut o = J::obj();
        let (_, line) = self.span_str(term.source_info.span);
        o.set("ln", n(line));
        if term.source_info.span.from_expansion() {
            o.set("exp", J::Bool(true));
            let ed = term.source_info.span.ctxt().outer_expn_data();
            if let rustc_span::ExpnKind::Macro(_, name) = ed.kind {
                o.set("mac", s(name.to_string()));
            }
        }
        let bbn = |b: &BasicBlock| n(b.as_usize());
        match &term.kind {
            TerminatorKind::Goto { target } => {
                o.set("k", s("goto"));
                o.set("t", bbn(target));
            }
            TerminatorKind::SwitchInt { discr, targets } => {
                o.set("k", s("switch"));
                let dj = self.operand(body, env, discr);
                o.set("discr", dj);
                let dt = discr.ty(&body.local_decls, tcx);
                let dtj = self.ty(dt);
                o.set("discr_ty", dtj);
                let mut ts = Vec::new();
                for (v, bb) in targets.iter() {
                    ts.push(J::Arr(vec![
                        if v >> 126 != 0 { s(format!("{}", v)) } else { J::Num(v as i128) },
                        bbn(&bb),
                    ]));
                }
                o.set("targets", J::Arr(ts));
                o.set("otherwise", bbn(&targets.otherwise()));
            }
            TerminatorKind::Return => o.set("k", s("return")),
            TerminatorKind::Unreachable => o.set("k", s("unreachable")),
            TerminatorKind::UnwindResume => o.set("k", s("resume")),
            TerminatorKind::UnwindTerminate(_) => o.set("k", s("terminate")),
            TerminatorKind::Drop { place, target, unwind, .. } => {
                o.set("k", s("drop"));
                let pj = self.place(body, place);
                o.set("pl", pj);
                let pt = place.ty(&body.local_decls, tcx).ty;
                let ptj = self.ty(pt);
                o.set("ty", ptj);
                o.set("t", bbn(target));
                o.set("unwind", self.unwind(unwind));
            }
            TerminatorKind::Call { func, args, destination, target, unwind, .. } => {
                o.set("k", s("call"));
                let fj = self.operand(body, env, func);
                o.set("func", fj);
                let fty = func.ty(&body.local_decls, tcx);
                if let ty::FnDef(d, ga) = fty.kind() {
                    o.set("callee", s(self.path(*d)));
                    o.set("callee_name", s(self.iname(*d)));
                    o.set("callee_local", J::Bool(d.is_local()));
                    if matches!(tcx.def_kind(*d), rustc_hir::def::DefKind::Fn | rustc_hir::def::DefKind::AssocFn) {
                        let cs = tcx.fn_sig(*d).instantiate_identity().skip_norm_wip().skip_binder();
                        o.set("callee_unsafe", J::Bool(cs.safety().is_unsafe()));
                    }
                    let mut a = Vec::new();
                    for g in ga.iter() {
                        if let GenericArgKind::Type(t2) = g.kind() {
                            a.push(self.ty(t2));
                        }
                    }
                    o.set("callee_args", J::Arr(a));
                    if let Some(tr) = tcx.trait_of_assoc(*d) {
                        o.set("trait", s(self.path(tr)));
                    }
                    if let Some(im) = tcx.impl_of_assoc(*d) {
                        let st = tcx.type_of(im).instantiate_identity().skip_norm_wip();
                        let stj = self.ty(st);
                        o.set("callee_impl_self", stj);
                        if let Some(tr) = tcx.impl_opt_trait_ref(im) {
                            let tr = tr.instantiate_identity().skip_norm_wip();
                            o.set("callee_impl_trait", s(self.path(tr.def_id)));
                        }
                    }
                    // resolution
                    let ga2 = tcx.normalize_erasing_regions(env, ty::Unnormalized::new_wip(*ga));
                    if let Ok(Some(inst)) = Instance::try_resolve(tcx, env, *d, ga2) {
                        let rd = inst.def_id();
                        if rd != *d {
                            o.set("resolved", s(self.path(rd)));
                            o.set("resolved_local", J::Bool(rd.is_local()));
                        }
                        o.set("resolved_kind", s(match inst.def {
                            ty::InstanceKind::Item(_) => "item",
                            ty::InstanceKind::Intrinsic(_) => "intrinsic",
                            ty::InstanceKind::Virtual(..) => "virtual",
                            ty::InstanceKind::ClosureOnceShim { .. } => "closure_once",
                            ty::InstanceKind::FnPtrShim(..) => "fnptr_shim",
                            ty::InstanceKind::DropGlue(..) => "drop_glue",
                            ty::InstanceKind::CloneShim(..) => "clone_shim",
                            _ => "other",
                        }));
                    }
                    // abi: foreign items (libc)
                    if tcx.is_foreign_item(*d) {
                        o.set("foreign", J::Bool(true));
                    }
                    if tcx.intrinsic(*d).is_some() {
                        o.set("intrinsic", J::Bool(true));
                    }
                }
                let mut a = Vec::new();
                let mut at = Vec::new();
                for sp in args.iter() {
                    a.push(self.operand(body, env, &sp.node));
                    let t = sp.node.ty(&body.local_decls, tcx);
                    at.push(self.ty(t));
                }
                o.set("args", J::Arr(a));
                o.set("arg_tys", J::Arr(at));
                let dj = self.place(body, destination);
                o.set("dest", dj);
                match target {
                    Some(t) => o.set("t", bbn(t)),
                    None => o.set("t", J::Null),
                }
                o.set("unwind", self.unwind(unwind));
            }
            TerminatorKind::Assert { cond, expected, msg, target, unwind } => {
                o.set("k", s("assert"));
                let cj = self.operand(body, env, cond);
                o.set("cond", cj);
                o.set("expected", J::Bool(*expected));
                let mut ops = Vec::new();
                let kind = match &**msg {
                    AssertKind::BoundsCheck { len, index } => {
                        ops.push(self.operand(body, env, len));
                        ops.push(self.operand(body, env, index));
                        "BoundsCheck".to_string()
                    }
                    AssertKind::Overflow(b, l, r) => {
                        ops.push(self.operand(body, env, l));
                        ops.push(self.operand(body, env, r));
                        format!("Overflow:{:?}", b)
                    }
                    AssertKind::OverflowNeg(x) => {
                        ops.push(self.operand(body, env, x));
                        "OverflowNeg".to_string()
                    }
                    AssertKind::DivisionByZero(x) => {
                        ops.push(self.operand(body, env, x));
                        "DivisionByZero".to_string()
                    }
                    AssertKind::RemainderByZero(x) => {
                        ops.push(self.operand(body, env, x));
                        "RemainderByZero".to_string()
                    }
                    AssertKind::MisalignedPointerDereference { .. } => "MisalignedPointerDereference".to_string(),
                    AssertKind::NullPointerDereference => "NullPointerDereference".to_string(),
                    other => format!("{:?}", other).split('(').next().unwrap_or("other").to_string(),
                };
                o.set("msg", s(kind));
                o.set("ops", J::Arr(ops));
                o.set("t", bbn(target));
                o.set("unwind", self.unwind(unwind));
            }
            TerminatorKind::FalseEdge { real_target, .. } => {
                o.set("k", s("goto"));
                o.set("t", bbn(real_target));
            }
            TerminatorKind::FalseUnwind { real_target, .. } => {
                o.set("k", s("goto"));
                o.set("t", bbn(real_target));
            }
            other => {
                o.set("k", s("other"));
                o.set("s", s(format!("{:?}", other)));
            }
        }
        o
    }
}

fn main() {
    let mut args: Vec<String> = std::env::args().collect();
    // As a RUSTC_WORKSPACE_WRAPPER, argv[1] is the path of the real rustc: drop it.
    if args.len() > 1 && (args[1].ends_with("rustc") || args[1].contains("/rustc")) {
        args.remove(1);
    }
    rustc_driver::run_compiler(&args, &mut Cb);
}
