"""Tiny pattern language over terms, used by the delegation / protocol rules.
Patterns:  P(i) parameter i | K(v) constant | V('x') bind/compare a variable | ANY
           C('Suffix::name', p1, p2, ...) call whose canonical callee ends with the suffix
           F(p, 'field') field | AGG('Adt', 'Variant', p...) aggregate | OKP(p) success payload (wrappers peeled)
           BIN('Op', a, b) | CLO('name') binds the closure body id | TUP(p...)
Matching strips casts and & / * at every level."""
from .mir import deep_strip, canon, tstr
from .checks import producer


class _Any:
    def __repr__(self):
        return "ANY"


ANY = _Any()


def P(i): return ('P', i)
def K(v): return ('K', v)
def V(n): return ('V', n)
def C(name, *args): return ('C', name, args)
def F(p, f): return ('F', p, f)
def AGG(adt, variant, *args): return ('AGG', adt, variant, args)
def OKP(p): return ('OKP', p)
def BIN(op, a, b): return ('BIN', op, a, b)
def CLO(n): return ('CLO', n)
def TUP(*args): return ('AGG', 'tuple', None, args)
def FN(suffix): return ('FN', suffix)
def ALT(*ps): return ('ALT', ps)
def VF(p, variant): return ('VF', p, variant)
def ERRP(p):
    """the failure of X handed on to the caller: `Err(e)` with e the error of X (match / map / and_then spelling) or `X?` (which
    passes e through From — the identity unless the error types differ, and then the crate's conversion table, C03 R3.4 / C14)"""
    return ('ALT', (('AGG', 'Result', 'Err', (('VF', p, 'Err'),)), ('C', 'FromResidual::from_residual', (('VF', ('C', 'Try::branch', (p,)), 'Break'),))))


def unref(t):
    t = deep_strip(t)
    while isinstance(t, tuple) and t and t[0] in ('ref', 'deref'):
        t = deep_strip(t[1])
    return t


def match(p, t, env):
    t = unref(t)
    if p is ANY:
        return True
    k = p[0]
    if k == 'ALT':
        for q in p[1]:
            e2 = dict(env)
            if match(q, t, e2):
                env.update(e2)
                return True
        return False
    if k == 'P':
        return t[0] == 'param' and t[1] == p[1]
    if k == 'K':
        return t == ('const', p[1])
    if k == 'V':
        if p[1] in env:
            return unref(env[p[1]]) == t
        env[p[1]] = t
        return True
    if k == 'C':
        if t[0] != 'call':
            return False
        c = canon(t[1])
        if not (c == p[1] or c.endswith("::" + p[1])):
            return False
        if len(p[2]) != len(t[2]):
            return False
        e2 = dict(env)
        if all(match(q, a, e2) for q, a in zip(p[2], t[2])):
            env.update(e2)
            return True
        if len(p[2]) == 2 and c.split("::")[-1] in ("min", "max", "wrapping_add", "saturating_add", "checked_add", "wrapping_mul", "checked_mul") and "Address" not in c:
            e2 = dict(env)
            if match(p[2][0], t[2][1], e2) and match(p[2][1], t[2][0], e2):
                env.update(e2)
                return True
        return False
    if k == 'F':
        if t[0] == 'field' and t[2] == p[2]:
            return match(p[1], t[1], env)
        return False
    if k == 'AGG':
        if t[0] != 'agg':
            return False
        if p[1] is not None and not (str(t[1]) == p[1] or str(t[1]).endswith("::" + p[1])):
            return False
        if p[2] is not None and t[2] != p[2]:
            return False
        if len(p[3]) != len(t[3]):
            return False
        return all(match(q, a, env) for q, a in zip(p[3], t[3]))
    if k == 'OKP':
        if t[0] != 'ok':
            return False
        return match(p[1], producer(t), env)
    if k == 'BIN':
        if t[0] == 'field' and t[2] == '0' and unref(t[1])[0] == 'bin':
            t = unref(t[1])
        if t[0] != 'bin':
            return False
        op = t[1].replace("WithOverflow", "")
        SW = {"Lt": "Gt", "Le": "Ge", "Gt": "Lt", "Ge": "Le"}
        if op == p[1]:
            e2 = dict(env)
            if match(p[2], t[2], e2) and match(p[3], t[3], e2):
                env.update(e2)
                return True
            if op in ("Add", "Mul", "BitAnd", "BitOr", "BitXor", "Eq", "Ne"):
                e2 = dict(env)
                if match(p[2], t[3], e2) and match(p[3], t[2], e2):
                    env.update(e2)
                    return True
            return False
        if SW.get(op) == p[1]:
            e2 = dict(env)
            if match(p[2], t[3], e2) and match(p[3], t[2], e2):
                env.update(e2)
                return True
        return False
    if k == 'VF':
        return t[0] == 'vfield' and t[2] == p[2] and match(p[1], t[1], env)
    if k == 'CLO':
        if t[0] == 'agg' and t[2] is None and "{closure" in str(t[1]):
            env[p[1]] = t
            return True
        return False
    if k == 'FN':
        return t[0] == 'fn' and (canon(t[1]) == p[1] or canon(t[1]).endswith("::" + p[1]) or t[1].endswith(p[1]))
    raise ValueError(p)


def closure_ret(prog, eff, clo_term):
    """return term of a closure (single-path) with its captures rewritten into the parent's terms"""
    cb = prog.by_id.get(clo_term[1])
    if cb is None:
        return None, None
    rts = cb.return_terms()
    if len(rts) != 1:
        return cb, None
    _pb, lt = eff.lift(cb, deep_strip(rts[0][1]))
    return cb, lt
