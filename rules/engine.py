"""Check context: obligations, violations, known findings, evidence, exit status."""
import json
import os
import re
import sys
import time

from . import facts, mir

VERIF = facts.VERIF


CENSUS_RULES = ("A4.", "R16.1.read_route_marks", "R6.7.route", "R6.8.atomic_forward", "R4.3.who_may_touch", "R5.2.derivation",
                "R5.4.raw_handle", "R5.1.", "R16.3.", "R17.", "R12.5.signature", "R13.5.", "R3.5.", "R8.4.owner", "R11.6.", "R15.3.",
                "R18.1.", "R18.3.zst_guard", "R4.2.capped_count", "R9.1.guard", "R20.3.derive", "R19.2.derived", "R1.6.")


class Ctx:
    def __init__(self, pid, tier, seed=0):
        self.pid = pid
        self.tier = tier
        self.seed = seed
        self.t0 = time.time()
        self.obligations = []     # dicts: rule, instance, where, ok, detail, config
        self.violations = []      # dicts with key
        self.notes = []
        self.rule_counts = {}     # rule -> {found, floor}
        self.not_decided = []
        self.assumptions = []
        self.configs = []
        self.source_hash = None
        self.extra = {}
        self.witness = None
        self.mutants = None
        kf = os.path.join(VERIF, "known_findings.json")
        self.known = json.load(open(kf))["findings"] if os.path.exists(kf) else []
        self.known_hit = []
        self._seen_keys = set()
        self.config = None  # current config name while rules run

    # -------------------------------------------------------------- recording
    def ob(self, rule, instance, ok, where="", detail="", key=None):
        """One obligation. `instance` names the construct; a failed obligation is a violation
        keyed (without line numbers) by rule + instance unless `key` overrides."""
        o = {"rule": rule, "instance": instance, "where": where, "ok": bool(ok), "detail": detail,
             "config": self.config}
        self.obligations.append(o)
        if not ok:
            self.violation(rule, key or instance, where, detail)
        return bool(ok)

    def violation(self, rule, instance, where="", detail=""):
        key = f"{self.pid}|{rule}|{instance}"
        if (key, self.config) in self._seen_keys:
            return
        self._seen_keys.add((key, self.config))
        for k in self.known:
            if k.get("status") == "open" and k["key"] == key:
                if key not in [x["key"] for x in self.known_hit]:
                    self.known_hit.append(k)
                return
        # the same key in a second configuration is the same violation
        if any(v["key"] == key for v in self.violations):
            for v in self.violations:
                if v["key"] == key and self.config not in v["configs"]:
                    v["configs"].append(self.config)
            return
        self.violations.append({"key": key, "rule": rule, "instance": instance, "where": where,
                                "detail": detail, "configs": [self.config]})

    def floor(self, rule, found, floor, MIN=None):
        """Fail closed when a rule saw fewer instances than were counted by hand.
        `MIN` = the hand-counted floor for the no-default-features configuration when it differs."""
        if self.config == "MIN" and MIN is not None:
            floor = MIN
        self.rule_counts[f"{rule}@{self.config}"] = {"found": found, "floor": floor}
        if found < floor:
            self.violation(rule + ".floor", f"instances<{floor}", "",
                           f"rule {rule} matched {found} instance(s) in config {self.config}, floor is {floor}: "
                           f"an anchor disappeared or the rule no longer recognises it (fail closed)")

    def note(self, s):
        self.notes.append(s)

    # -------------------------------------------------------------- finish
    def finish(self, level, explanation, trusted_base, checker_cmd, samples_n=8):
        OUT = os.environ.get("VERIF_OUT") or VERIF   # scratch-copy self-tests write elsewhere
        os.makedirs(os.path.join(OUT, "evidence"), exist_ok=True)
        os.makedirs(os.path.join(OUT, "violations"), exist_ok=True)
        # clear stale replay files of this property
        for f in os.listdir(os.path.join(OUT, "violations")):
            if f.startswith(self.pid + "-"):
                os.remove(os.path.join(OUT, "violations", f))
        # per-rule instance floors (rules/tables/rule_floors.json: counts confirmed on the reviewed tree; never written at run time)
        fpath = os.path.join(VERIF, "rules", "tables", "rule_floors.json")
        if os.path.exists(fpath) and not os.environ.get("VERIF_NO_FLOORS"):
            floors = json.load(open(fpath)).get(self.pid, {})
            have = {}
            for o in self.obligations:
                have[(o["config"], o["rule"])] = have.get((o["config"], o["rule"]), 0) + 1
            for cfg in self.configs + ["witness", "fixture"]:
                for rule, n in floors.get(cfg, {}).items():
                    if rule.startswith(CENSUS_RULES):
                        n = 1    # "every X in the crate" rules: fewer X is not a lost anchor; they keep their own hand floors
                    got = have.get((cfg, rule), 0)
                    if got < n:
                        self.config = cfg
                        self.violation(rule + ".instances", f"{rule}<{n}@{cfg}", "",
                                       f"rule {rule} produced {got} obligation(s) in {cfg}, {n} on the reviewed tree: an anchor disappeared or is no longer recognised (fail closed)")
        if os.environ.get("VERIF_DUMP_OBLIGATIONS"):
            with open(os.environ["VERIF_DUMP_OBLIGATIONS"], "w") as fh:
                json.dump([{k: o[k] for k in ("rule", "config", "ok")} for o in self.obligations], fh)
        n_ob = len(self.obligations)
        n_ok = sum(1 for o in self.obligations if o["ok"])
        samples = []
        seen_rules = set()
        for o in self.obligations:
            if o["rule"] not in seen_rules and o["ok"]:
                seen_rules.add(o["rule"])
                samples.append({k: o[k] for k in ("rule", "instance", "where", "detail", "config")})
        samples = samples[:max(samples_n, 8)]
        if not samples:
            samples = [{"note": "no obligations recorded"}]
        per_rule = {}
        for o in self.obligations:
            r = per_rule.setdefault(o["rule"], {"obligations": 0, "discharged": 0})
            r["obligations"] += 1
            r["discharged"] += 1 if o["ok"] else 0
        distinct = len({(o["rule"], o["instance"]) for o in self.obligations})
        cov = {
            "obligations": n_ob,
            "discharged": n_ok,
            "checker_cmd": checker_cmd,
            "trusted_base": trusted_base,
            "explanation": explanation,
            "evaluations": max(n_ob, 1),
            "distinct_nontrivial": distinct,
            "rule": "one obligation per (rule, construct) found by the analysis in the resolved MIR / type facts of "
                    "each analysed feature configuration; distinct = distinct (rule, construct) pairs",
            "samples": samples,
            "per_rule": per_rule,
            "rule_instances": self.rule_counts,
            "configs": self.configs,
            "source_hash": self.source_hash,
            "not_decided": self.not_decided,
            "known_findings_hit": [k["key"] for k in self.known_hit],
            "notes": self.notes[:50],
            "exhaustive": False,
        }
        cov.update(self.extra)
        if self.witness is not None:
            cov["witnesses"] = self.witness
        if self.mutants is not None:
            cov["sensitivity_mutants"] = self.mutants
        ev = {
            "property_id": self.pid,
            "tier": self.tier,
            "seed": self.seed,
            "level": level,
            "coverage": cov,
            "assumptions": self.assumptions + trusted_base,
            "wall_s": round(time.time() - self.t0, 2),
            "violations": len(self.violations),
        }
        with open(os.path.join(OUT, "evidence", f"{self.pid}.json"), "w") as fh:
            json.dump(ev, fh, indent=1)
        for k in self.known_hit:
            print(f"KNOWN-FINDING: property={self.pid} {k['what']}")
        for i, v in enumerate(self.violations):
            rp = os.path.join(OUT, "violations", f"{self.pid}-{i}.json")
            with open(rp, "w") as fh:
                json.dump(v, fh, indent=1)
            print(f"  rule {v['rule']} :: {v['instance']}\n    at {v['where']}\n    {v['detail']}  [configs: {','.join(str(c) for c in v['configs'])}]")
            print(f"VIOLATION property={self.pid} replay={rp}")
        print(f"{self.pid} [{self.tier}] obligations={n_ob} discharged={n_ok} violations={len(self.violations)} "
              f"known={len(self.known_hit)} configs={','.join(self.configs)} wall={ev['wall_s']}s")
        return 1 if self.violations else 0


def load_programs(configs):
    paths, h = facts.ensure(configs)
    progs = {}
    for c, p in paths.items():
        j = facts.load(p)
        if j["header"].get("config") != c:
            raise SystemExit(f"FATAL: facts file {p} is for config {j['header'].get('config')}, expected {c}")
        progs[c] = mir.Program(j, c)
    return progs, h
