"""Facts generation: run the vmfacts driver over /repo's *current working tree* for a feature
configuration, cache by source hash, fail closed when the driver did not run."""
import fcntl
import hashlib
import json
import os
import shutil
import subprocess
import sys
import time

VERIF = os.path.dirname(os.path.dirname(os.path.abspath(__file__)))
REPO = os.environ.get("VERIF_REPO", "/repo")
CACHE = os.path.join(VERIF, ".cache")
DRIVER = os.path.join(VERIF, "driver", "target", "release", "vmfacts")

CONFIGS = {
    # name: (cargo feature args)
    "FULL": ["--features", "backend-mmap,backend-atomic,backend-bitmap"],
    "XEN": ["--features", "xen,backend-atomic,backend-bitmap"],
    "MIN": ["--no-default-features"],
}

RUSTFLAGS = "-Zmir-opt-level=0 -Awarnings -Cdebug-assertions=on -Coverflow-checks=on -Zub-checks=no"


def _files(repo):
    out = []
    for rel in ("Cargo.toml", "Cargo.lock", ".cargo/config.toml"):
        p = os.path.join(repo, rel)
        if os.path.exists(p):
            out.append(rel)
    for root, _dirs, files in os.walk(os.path.join(repo, "src")):
        for f in files:
            if f.endswith(".rs"):
                out.append(os.path.relpath(os.path.join(root, f), repo))
    return sorted(out)


def source_hash(repo=REPO):
    h = hashlib.sha256()
    for rel in _files(repo):
        h.update(rel.encode())
        h.update(b"\0")
        with open(os.path.join(repo, rel), "rb") as fh:
            h.update(fh.read())
        h.update(b"\0")
    # the driver itself is part of what produced the facts
    for rel in ("driver/src/main.rs", "driver/src/json.rs"):
        with open(os.path.join(VERIF, rel), "rb") as fh:
            h.update(fh.read())
    h.update(RUSTFLAGS.encode())
    return h.hexdigest()[:24]


def sysroot():
    return subprocess.check_output(["rustc", "+nightly", "--print", "sysroot"], text=True).strip()


def ensure_driver():
    if os.path.exists(DRIVER):
        src_m = max(os.path.getmtime(os.path.join(VERIF, "driver", "src", f)) for f in ("main.rs", "json.rs"))
        if os.path.getmtime(DRIVER) >= src_m:
            return
    env = dict(os.environ, CARGO_NET_OFFLINE="true")
    r = subprocess.run(["cargo", "build", "--release", "--offline"], cwd=os.path.join(VERIF, "driver"), env=env,
                       stdout=subprocess.PIPE, stderr=subprocess.STDOUT, text=True)
    if r.returncode != 0 or not os.path.exists(DRIVER):
        sys.stderr.write(r.stdout)
        raise SystemExit("FATAL: cannot build the vmfacts driver")


def _gen(config, repo, out, crate="vm_memory", extra_args=None, manifest_dir=None, tag=None):
    """Run cargo check with the driver as workspace wrapper. One target dir per config."""
    tdir = os.path.join(CACHE, "target-" + (tag or config))
    os.makedirs(tdir, exist_ok=True)
    # cargo's freshness cache would silently skip the wrapper: delete the member's fingerprints
    fp = os.path.join(tdir, "debug", ".fingerprint")
    if os.path.isdir(fp):
        for d in os.listdir(fp):
            if d.startswith(crate.replace("_", "-")) or d.startswith(crate):
                shutil.rmtree(os.path.join(fp, d), ignore_errors=True)
    if os.path.exists(out):
        os.remove(out)
    env = dict(os.environ)
    env.update({
        "LD_LIBRARY_PATH": os.path.join(sysroot(), "lib") + ":" + env.get("LD_LIBRARY_PATH", ""),
        "RUSTFLAGS": RUSTFLAGS,
        "RUSTC_WORKSPACE_WRAPPER": DRIVER,
        "VMFACTS_CRATE": crate,
        "VMFACTS_OUT": out,
        "VMFACTS_CONFIG": config,
        "CARGO_TARGET_DIR": tdir,
        "CARGO_NET_OFFLINE": "true",
    })
    env.pop("RUSTC_WRAPPER", None)
    cmd = ["cargo", "+nightly", "check", "--offline", "--lib"] + (extra_args if extra_args is not None else CONFIGS[config])
    r = subprocess.run(cmd, cwd=manifest_dir or repo, env=env, stdout=subprocess.PIPE, stderr=subprocess.STDOUT, text=True)
    return r


def ensure(configs=("FULL", "XEN"), repo=REPO):
    """Return {config: path}. Generates what is missing for the current source hash."""
    ensure_driver()
    h = source_hash(repo)
    d = os.path.join(CACHE, "facts", h)
    os.makedirs(d, exist_ok=True)
    lock = open(os.path.join(CACHE, "lock"), "w")
    fcntl.flock(lock, fcntl.LOCK_EX)
    try:
        need = [c for c in configs if not os.path.exists(os.path.join(d, c + ".json"))]
        if need:
            import concurrent.futures as cf
            with cf.ThreadPoolExecutor(max_workers=len(need)) as ex:
                futs = {c: ex.submit(_gen, c, repo, os.path.join(d, c + ".json.tmp")) for c in need}
                for c, f in futs.items():
                    r = f.result()
                    tmp = os.path.join(d, c + ".json.tmp")
                    if r.returncode != 0 or not os.path.exists(tmp):
                        sys.stderr.write(r.stdout[-6000:])
                        raise SystemExit(f"FATAL: facts generation failed for config {c} (does /repo build with these features?)")
                    os.rename(tmp, os.path.join(d, c + ".json"))
        # keep the cache bounded: drop fact dirs other than the 6 most recent
        fd = os.path.join(CACHE, "facts")
        ents = sorted((os.path.getmtime(os.path.join(fd, e)), e) for e in os.listdir(fd))
        now = time.time()
        for _m, e in ents[:-6]:
            # never prune what a concurrent run may still be loading
            if e != h and now - _m > 900:
                shutil.rmtree(os.path.join(fd, e), ignore_errors=True)
        os.utime(d)
    finally:
        fcntl.flock(lock, fcntl.LOCK_UN)
        lock.close()
    return {c: os.path.join(d, c + ".json") for c in configs}, h


def ensure_fixture(repo=REPO):
    """Facts for the positive-control fixture crate (/verif/fixtures)."""
    ensure_driver()
    fx = os.path.join(VERIF, "fixtures")
    h = hashlib.sha256()
    for root, _d, files in os.walk(os.path.join(fx, "src")):
        for f in sorted(files):
            h.update(open(os.path.join(root, f), "rb").read())
    for rel in ("driver/src/main.rs", "driver/src/json.rs"):
        h.update(open(os.path.join(VERIF, rel), "rb").read())
    hh = h.hexdigest()[:24]
    d = os.path.join(CACHE, "fixture-facts")
    os.makedirs(d, exist_ok=True)
    out = os.path.join(d, hh + ".json")
    lock = open(os.path.join(CACHE, "lock-fx"), "w")
    fcntl.flock(lock, fcntl.LOCK_EX)
    try:
        if not os.path.exists(out):
            r = _gen("FIXTURE", repo, out + ".tmp", crate="vmfixtures", extra_args=[], manifest_dir=fx, tag="fixtures")
            if r.returncode != 0 or not os.path.exists(out + ".tmp"):
                sys.stderr.write(r.stdout[-6000:])
                raise SystemExit("FATAL: facts generation failed for the fixtures crate")
            os.rename(out + ".tmp", out)
            for e in os.listdir(d):
                if e != hh + ".json":
                    os.remove(os.path.join(d, e))
    finally:
        fcntl.flock(lock, fcntl.LOCK_UN)
        lock.close()
    return out


def load(path):
    with open(path) as fh:
        return json.load(fh)


if __name__ == "__main__":
    t = time.time()
    paths, h = ensure(tuple(sys.argv[1:]) or ("FULL", "XEN", "MIN"))
    print(h, paths, round(time.time() - t, 1))
