"""Reviewed panic / silent-wrap edges for C07 (A4). One line per edge family:
   (function-key regex, kind regex, operand-signature regex, category, reason[, needed dominating fact regex])

Categories
  P  documented program-logic panic: depends on how the client program is written, not on guest data
  I  infallible by construction: a local argument shows the edge cannot be taken
  N  safe because of an invariant established elsewhere, by the named rule of another check
  M  management / environment value (sysconf, ioctl result, host allocation, configuration API) — not a guest scalar
  W  wraps / saturates by design, documented in the source

A row with a 6th element is only valid where the dominating branch facts at the edge match that regex:
removing the guard makes the row stop matching, and the edge becomes a violation.
Signatures use $n for the n-th parameter, `var` for a multiply-assigned local; they carry no line numbers.
Operands of commutative operations (+, *, &, |, ==, min, max, wrapping_add, ...) are printed in sorted order, so
`a + b` and `b + a` have the same signature.
"""

# bitflags!-generated helper bodies (module `_` inside mmap::xen): third-party macro output over u32 bit sets
SKIP_BODIES = r"^(<)?mmap::xen::_::"

VM = r"^volatile_memory::"
EDGES = [
    # ------------------------------------------------------------------ address.rs
    (r"^address::Address::\w*align\w*$", r"diverge", r"assert_failed!assert_(ne|eq)", "P",
     "the alignment helpers of the Address trait (checked_align_up and its siblings) panic unless their alignment argument is a "
     "non-zero power of two — documented; a program constant (page size), never guest data"),
    (r"^address::Address::\w*align\w*$", r"arith_generic", r"^Sub::sub\(\$\d,AddressValue::one\(\)\)$", "P",
     "`power_of_two - 1` on the generic value type: power_of_two is a non-zero program constant (documented contract, asserted right after)"),
    (r"^address::Address::unchecked_align_up$", r"unchecked_addr", r"Address::unchecked_add", "P",
     "documented unchecked API; no in-crate caller"),
    (r"as address::Address>::unchecked_(add|sub)$", r"Overflow:(Add|Sub)", r"^\$1\.0,\$2$", "P",
     "documented `unchecked_*` API: the definition itself; every in-crate call site is tabled separately (kind unchecked_addr)"),
    (r"^address::Address::unchecked_offset_from$", r".*", r".*", "P", "documented unchecked API; no in-crate caller"),
    # ------------------------------------------------------------------ bitmap
    (r"AtomicBitmap::enlarge$", r"Overflow:Add", r"^\$1\.byte_size,\$2$", "M",
     "enlarge(&mut self) is a management API called by the VMM with a size it chose, never with a guest scalar"),
    (r"AtomicBitmap::enlarge$", r"vec_op", r"Vec::resize_with", "M", "host allocation on a management path"),
    (r"AtomicBitmap::\w+$", r"index", r"^Index::index\(\$1\.map,\((?P<n>.+) Shr 6\)\)$", "N",
     "word index n>>6 is in range because n < self.size dominates (for the SAME n: a parameter, the loop variable, or the item of an iterator "
     "chain behind take_while(n < size)) and size <= 64*map.len() (constructor/enlarge agreement, C09 R9.2)",
     r"Lt\({n},\$1\.size\)"),
    (r"AtomicBitmap::set_reset_addr_range$", r"silent_wrap", r"^num::saturating_add\(\$2,\(\$3 Sub 1\)\.0\)$", "W",
     "documented: ranges whose end would overflow are clamped; pages past the end are ignored"),
    (r"AtomicBitmap as bitmap::NewBitmap>::with_len$", r"unwrap", r"libc::sysconf", "M",
     "sysconf(_SC_PAGE_SIZE) is positive and fits usize on supported platforms (environment, not guest data)"),
    (r"BaseSlice<B> as bitmap::Bitmap>::(mark_dirty|dirty_at|slice_at)$", r"silent_wrap", r"^num::wrapping_add\(\$1\.base_offset,\$2\)$", "W",
     "documented in the source: offsets accompany accesses that were range-checked; a wrapped offset can only mark a page that could not have been accessed"),
    # ------------------------------------------------------------------ guest_memory.rs
    (r"^guest_memory::GuestMemoryRegion::last_addr$", r"Overflow:Sub", r"^GuestMemoryRegion::len\(\$1\),1$", "M",
     "regions are non-empty: mmap refuses size 0 and build_raw is unsafe; region size is configuration, not guest data"),
    (r"^guest_memory::GuestMemoryRegion::last_addr$", r"unchecked_addr", r"Address::unchecked_add\(GuestMemoryRegion::start_addr\(\$1\),", "N",
     "start + (len-1) cannot overflow: GuestRegionMmap::new refuses base+size overflow (C10 R10.5)"),
    (r"^guest_memory::GuestMemory::to_region_addr$", r"unwrap", r"^Option::unwrap\(GuestMemoryRegion::to_region_addr\(ok\(GuestMemory::find_region\(\$1,\$2\)\),\$2\)\)$", "N",
     "find_region(addr) returned this region, so addr is inside it (C02 R2.1/R2.2)"),
    (r"^guest_memory::GuestMemory::try_access$", r"unwrap", r"^Option::unwrap\(GuestMemoryRegion::to_region_addr\(ok\(GuestMemory::find_region\(\$1,var\)\),var\)\)$", "N",
     "find_region(cur) returned this region for the same cur (C02 R2.1/R2.2)"),
    (r"^guest_memory::GuestMemory::try_access$", r"Overflow:Sub", r"^GuestMemoryRegion::len\(ok\(GuestMemory::find_region\(\$1,var\)\)\),Address::raw_value\(Option::unwrap\(GuestMemoryRegion::to_region_addr\(", "N",
     "to_region_addr only returns offsets < len (address_in_range strictness, C02 R2.1)"),
    (r"^guest_memory::GuestMemory::try_access$", r"Overflow:Sub", r"^\$2,var$", "N",
     "loop invariant total < count: total is only reassigned from `Some(x) if x < count` (C03 R3.1)"),
    (r"^guest_memory::(write|read)$", r"index", r"^index::index(_mut)?\(\$2,RangeFrom\{<closure-arg2>\}\)$", "N",
     "closure parameter 0 is try_access's running total, which is < count = buf.len() (C03 R3.1/R3.2)"),
    # ------------------------------------------------------------------ io.rs
    (r"^io::(read|write)_volatile_raw_fd$", r"unwrap", r"^Result::unwrap\(TryInto::try_into\(libc::(read|write)\(", "I",
     "the syscall result is non-negative on this edge, so isize -> usize cannot fail",
     r"Ge\(libc::(read|write)\(.*\),0\)"),
    (r"^<&\[u8\] as io::ReadVolatile>::read_volatile$", r"slice_op", r"^slice::split_at\(\$1,copy_slice_impl::copy_to_volatile_slice\(\$2,slice::as_ptr\(\$1\),cmp::min\(VolatileSlice::len\(\$2\),slice::len\(\$1\)\)\)\)$", "I",
     "split point = bytes copied = min(buf.len(), self.len()) <= self.len() (C13 R13.1)"),
    (r"^<&mut \[u8\] as io::WriteVolatile>::write_volatile$", r"slice_op", r"^slice::split_at_mut\(mem::take\(\$1\),copy_slice_impl::copy_from_volatile_slice\(slice::as_mut_ptr\(\$1\),\$2,cmp::min\(VolatileSlice::len\(\$2\),slice::len\(\$1\)\)\)\)$", "I",
     "split point = bytes copied = min(buf.len(), self.len()) <= self.len() (C13 R13.1)"),
    (r"^<std::vec::Vec<u8> as io::WriteVolatile>::write_volatile$", r"vec_op", r"^Vec::reserve\(\$1,VolatileSlice::len\(\$2\)\)$", "M",
     "host allocation, same behaviour as std's Write for Vec"),
    (r"^<std::vec::Vec<u8> as io::WriteVolatile>::write_volatile$", r"Overflow:Add", r"^Vec::len\(\$1\),VolatileSlice::len\(\$2\)$", "I",
     "reserve(count) succeeded, so len + count <= capacity <= isize::MAX"),
    (r"^<std::vec::Vec<u8> as io::WriteVolatile>::write_volatile$", r"diverge", r"assert_failed!assert_eq", "I",
     "copy_from_volatile_slice returns its `total` argument (C04 R4.2)"),
    (r"^<std::io::Cursor<.*> as io::(Read|Write)Volatile>::(read|write)_volatile$", r"index", r"^index::index(_mut)?\(.*,RangeFrom\{cmp::min\(Cursor::position\(\$1\),slice::len\(", "I",
     "slice start is min(position, len) <= len (C13 R13.3)"),
    (r"^<std::io::Cursor<T> as io::ReadVolatile>::read_exact_volatile$", r"index", r"^index::index\(.*,RangeFrom\{cmp::min\(Cursor::position\(\$1\),slice::len\(", "I",
     "slice start is min(position, len) <= len (C13 R13.3)"),
    (r"^<std::io::Cursor<.*> as io::(Read|Write)Volatile>::(read|write)_volatile$", r"Overflow:Add", r"^Cursor::position\(\$1\),ok\((Read|Write)Volatile::(read|write)_volatile\(", "I",
     "n <= len - min(position, len): position + n <= max(position, len); host-side stream state, not guest data"),
    (r"^<std::io::Cursor<T> as io::ReadVolatile>::read_exact_volatile$", r"Overflow:Add", r"^Cursor::position\(\$1\),VolatileSlice::len\(\$2\)$", "I",
     "only reached after read_exact succeeded, i.e. buf.len() <= len - min(position, len); host-side stream state"),
    # ------------------------------------------------------------------ mmap/mod.rs
    (r"^<mmap::GuestRegionMmap<B> as bytes::Bytes<guest_memory::MemoryRegionAddress>>::\w+$", r"unwrap", r"^Result::unwrap\(GuestMemoryRegion::as_volatile_slice\(\$1\)\)$", "N",
     "as_volatile_slice = get_slice(0, len()) which is in range for every region (C01 R1.3: end <= len accepted)"),
    (r"^<mmap::GuestRegionMmap<B> as guest_memory::GuestMemoryRegion>::get_host_address$", r"silent_wrap", r"^mut_ptr::wrapping_offset\(MmapRegion::as_ptr\(\$1\.mapping\),Address::raw_value\(ok\((Option::ok_or\()?GuestMemoryRegion::check_address\(\$1,\$2\)", "N",
     "the offset is the address accepted by check_address in the enclosing body (C02 R2.3), so it is < len and cannot wrap"),
    (r"^mmap::GuestMemoryMmap::from_arc_regions$", r"BoundsCheck", r"slice::windows\(Deref::deref\(\$1\),2\)\)\)\)\),[01]$", "I",
     "windows(2) yields slices of length exactly 2; indices 0 and 1"),
    (r"^mmap::GuestMemoryMmap::from_arc_regions$", r"iter_ctor", r"^slice::windows\(Deref::deref\(\$1\),2\)$", "I", "window size is the constant 2 (non-zero)"),
    (r"^mmap::GuestMemoryMmap::from_regions$", r"vec_op", r"^Vec::drain\(\$1,RangeFull\{\}\)$", "I", "full range"),
    (r"^mmap::GuestMemoryMmap::remove_region$", r"unwrap", r"^Option::unwrap\(slice::get\(Deref::deref\(\$1\.regions\),ok\(slice::binary_search_by_key\(Deref::deref\(\$1\.regions\),", "I",
     "index comes from Ok(i) of a binary search over the same vector"),
    (r"^mmap::GuestMemoryMmap::remove_region$", r"vec_op", r"^Vec::remove\(Clone::clone\(\$1\.regions\),ok\(slice::binary_search_by_key\(Deref::deref\(\$1\.regions\),", "I",
     "index comes from Ok(i) of a binary search over the vector this one was cloned from"),
    (r"^<mmap::GuestMemoryMmap<B> as guest_memory::GuestMemory>::find_region$", r"index", r"^Index::index\(\$1\.regions,\(slice::binary_search_by_key\(Deref::deref\(\$1\.regions\),\$2,.*\)@Err Sub 1\)\.0\)$", "I",
     "Err(x) of binary_search has x <= len and x > 0 dominates, so x-1 < len",
     r"(Gt|Ne)\(slice::binary_search_by_key\(.*\)@Err,0\)"),
    # ------------------------------------------------------------------ mmap/unix.rs, mmap/xen.rs (management / environment)
    (r"^mmap::unix::MmapRegionBuilder::build_raw$", r"Overflow:Sub", r"^libc::sysconf\(30\),1$", "M", "page size from sysconf is >= 1"),
    (r"^mmap::unix::MmapRegionBuilder::build_raw$", r"unwrap", r"^Option::unwrap\(\$1\.raw_ptr\)$", "N",
     "private; only called from build() on the raw_ptr.is_some() edge (C15 R15.1)"),
    (r"^mmap::(unix|xen)::MmapRegion::fds_overlap$", r"Overflow:Add", r"^FileOffset::start\(ok\(MmapRegion::file_offset\(\$[12]\)\)\),VolatileMemory::len\(\$[12]\)$", "M",
     "management API over file offsets the VMM configured; file-backed regions passed check_file_offset (start+size does not overflow)"),
    (r"^<mmap::xen::GntDevMapGrantRef as vmm_sys_util::fam::FamStruct>::", r"narrowing_cast", r".*", "M", "vmm-sys-util FAM macro output; length is a page count"),
    (r"^<mmap::xen::MmapXenSlice as std::ops::Drop>::drop$", r"unwrap", r"^Option::unwrap\(Option::as_ref\(\$1\.grant\)\)$", "I",
     "unix_mmap is Some only in values built by new_with, which always sets grant: Some"),
    (r"^mmap::xen::GntDevMapGrantRef::new$", r"Overflow:Add|narrowing_cast", r".*", "M", "grant reference numbering from the region's configured base and page count"),
    (r"^mmap::xen::MmapXen::mmap$", r"unwrap", r"^Result::unwrap\(MmapXenTrait::mmap_slice\(", "M",
     "environment failure (gntdev ioctl / mmap) while mapping a window inside an already validated region; documented design of the Xen backend. See DESIGN.md §4 F5"),
    (r"^mmap::xen::MmapXenForeign::mmap_ioctl$", r"DivisionByZero|Overflow:Add|narrowing_cast|vec_op", r".*", "M",
     "region construction (management path): page size from sysconf, pfn list of the configured range"),
    (r"^mmap::xen::MmapXenGrant::mmap_ioctl$", r"DivisionByZero|narrowing_cast", r".*", "M", "page size from sysconf; grant reference is a 32-bit ABI field"),
    (r"^mmap::xen::MmapXenGrant::new$", r"unwrap", r"^Option::unwrap\(Option::as_ref\(\$1\.file_offset\)\)$", "I",
     "validate_file(&range.file_offset)? returned Ok above, which it only does for Some"),
    (r"^mmap::xen::MmapXenGrant::unmap_range$", r"unwrap|narrowing_cast", r".*", "M", "environment failure of the unmap ioctl; page count fits the 32-bit ABI field"),
    (r"^mmap::xen::MmapXenSlice::new_with$", r"DivisionByZero", r"/ xen::page_size\(\)$", "M", "page size from sysconf is non-zero"),
    (r"^mmap::xen::MmapXenSlice::new_with$", r"Overflow:Mul", r"^\(\$2 Div xen::page_size\(\)\),xen::page_size\(\)$", "I", "(x / p) * p <= x"),
    (r"^mmap::xen::MmapXenSlice::new_with$", r"Overflow:Sub", r"^\$2,\(\(\$2 Div xen::page_size\(\)\) Mul xen::page_size\(\)\)\.0$", "I", "x - (x / p) * p >= 0"),
    (r"^mmap::xen::MmapXenSlice::new_with$", r"Overflow:Add", r"^\$4,\(\$2 Sub \(\(\$2 Div xen::page_size\(\)\) Mul xen::page_size\(\)\)\.0\)\.0$", "N",
     "in-page offset (< page) + len, len bounded by the range check of the accessor that owns the guard (C01)"),
    (r"^mmap::xen::MmapXenSlice::new_with$", r"Overflow:Add", r"^\$1\.guest_base\.0,\(\(\$2 Div xen::page_size\(\)\) Mul xen::page_size\(\)\)\.0$", "N",
     "guest_base + page_base <= guest_base + region size, which GuestRegionMmap::new checked (C10 R10.5)"),
    (r"^mmap::xen::ioctl_(gntdev_map_grant_ref|gntdev_unmap_grant_ref|privcmd_mmapbatch_v2)$", r"Overflow:Add|narrowing_cast", r"mem::size_of", "I", "sizes of two small #[repr(C)] structs"),
    (r"^mmap::xen::pages$", r"arith_call|Overflow:Mul", r"xen::page_size\(\)", "M", "page size from sysconf is non-zero; size is a region or window size already bounded by isize::MAX"),
    # ------------------------------------------------------------------ volatile_memory.rs
    (VM + r"VolatileMemory::as_volatile_slice$", r"unwrap", r"^Result::unwrap\(VolatileMemory::get_slice\(\$1,0,VolatileMemory::len\(\$1\)\)\)$", "P",
     "documented contract of the trait: get_slice(0, len()) must succeed for a conforming implementor; in-crate impls satisfy it (C01 R1.3)"),
    (VM + r"VolatileMemory::(get_ref|get_array_ref|aligned_as_ref|aligned_as_mut|get_atomic_ref)$", r"diverge", r"^assert_failed!assert_eq$", "P",
     "documented defensive check against a foreign VolatileMemory whose get_slice returns a wrong length; never taken for in-crate impls (C01 R1.2)"),
    (VM + r"VolatileSlice::check_alignment$", r"Overflow:Sub", r"^\$2,1$", "I",
     "private helper; every caller passes align_of::<T>() >= 1 (C01 R1.5 checks the argument)"),
    (VM + r"VolatileSlice::check_alignment$", r"diverge", r"^panic!\$crate::assert$", "P", "debug_assert that the alignment is a power of two: callers pass align_of::<T>()"),
    (r".", r"diverge", r"^panic!\$crate::assert$", "P", "debug_assert(align & (align - 1) == 0) with align = align_of::<T>(), which is a power of two for every type",
     r"Ne\(\(\(mem::align_of<[\w:<> ,]+>\(\) Sub 1\)\.0 BitAnd mem::align_of<[\w:<> ,]+>\(\)\),0\)"),
    (VM + r"VolatileSlice::copy_(to|from)$", r"unwrap", r"^Result::unwrap\(VolatileMemory::get_array_ref\(\$1,0,\(\$1\.size Div mem::size_of<T>\(\)\)\)\)$", "I",
     "count * size_of::<T>() <= self.size <= isize::MAX and offset 0: get_array_ref cannot fail"),
    (VM + r"VolatileSlice::copy_(to|from)$", r"DivisionByZero", r"^\$1\.size / mem::size_of<T>\(\)$", "I",
     "zero-sized T returned early", r"Ne\(mem::size_of<T>\(\),0\)"),
    (r"^<volatile_memory::VolatileSlice<'_, B> as bytes::Bytes<usize>>::(read_volatile_from|write_volatile_to)$", r"unwrap",
     r"^Result::unwrap\(VolatileSlice::subslice\(ok\(VolatileSlice::offset\(\$1,\$2\)\),0,cmp::min\(\$4,VolatileSlice::len\(ok\(VolatileSlice::offset\(\$1,\$2\)\)\)\)\)\)$", "I",
     "subslice(0, min(len, count)) of the very slice whose len is taken: 0 + min(len, count) <= len"),
    (VM + r"VolatileArrayRef::\w+$", r"Overflow:Mul",
     r"^(?:(?:\$1\.nelem|VolatileArrayRef::len\(\$1\)),(?:VolatileArrayRef::element_size\(\$1\)|mem::size_of<T>\(\))"
     r"|(?:VolatileArrayRef::element_size\(\$1\)|mem::size_of<T>\(\)),(?:\$1\.nelem|VolatileArrayRef::len\(\$1\)))$", "N",
     "type invariant of VolatileArrayRef<T>, wherever in its impl the byte size is recomputed: get_array_ref checked nelem*size_of::<T>() <= "
     "isize::MAX (C01 R1.4); `new`/`with_bitmap` are unsafe"),
    (VM + r"VolatileArrayRef::ref_at$", r"diverge", r"^panic!assert$", "P", "documented: panics when index is out of range (program logic)"),
    (VM + r"VolatileArrayRef::ref_at$", r"Overflow:Mul", r"^\$2,VolatileArrayRef::element_size\(\$1\)$", "N",
     "index < nelem dominates and nelem*size_of::<T>() fits (constructor invariant)", r"Lt\(\$2,\$1\.nelem\)"),
    (VM + r"VolatileArrayRef::\w+$", r"Overflow:Mul", r"^(?P<n>.+),(?:VolatileArrayRef::element_size\(\$1\)|mem::size_of<T>\(\))$", "N",
     "an element count or index that is at most nelem, scaled by size_of::<T>(): at most nelem*size_of::<T>(), which fits (constructor invariant)",
     r"Le\({n},\$1\.nelem\)"),
    (VM + r"VolatileArrayRef::\w+$", r"Overflow:Mul", r"^(?:VolatileArrayRef::element_size\(\$1\)|mem::size_of<T>\(\)),(?P<n>.+)$", "N",
     "as above, operands in the other order", r"Le\({n},\$1\.nelem\)"),
    (VM + r"VolatileArrayRef::copy_from$", r"Overflow:Sub", r"^var,PtrGuardMut::as_ptr\(VolatileArrayRef::ptr_guard_mut\(\$1\)\)$", "I",
     "ptr starts at start and is only advanced"),
    (VM + r"VolatileArrayRef::copy_to$", r"offset_from", r"^const_ptr::offset_from\(var,var\)$", "I",
     "both pointers derive from the same guard; pointee size is non-zero on this path (zero-sized T returned early)", r"Ne\(mem::size_of<T>\(\),0\)"),
    (VM + r"alignment$", r"Overflow:Add", r"^1,Not\(\$1\)$", "I",
     "overflows only for addr == 0: null is excluded by the accessors' unsafe-constructor contract (memory at addr must be valid)"),
    (VM + r"copy_slice_impl::copy_single$", r"diverge", r"^panic!\$crate::panic::unreachable_2021$", "P",
     "unreachable!(): callers pass only the constants 8/4/2/1 (C06 R6.4)"),
]

# ---------------------------------------------------------------------------------- loops
# (function-key regex, shape, reason)
LOOPS = [
    (r"^mmap::xen::MmapXenForeign::mmap_ioctl$", "param_bounded_range",
     "for i in 0..count: count is the page count of the region being constructed (management path), and the loop allocates one pfn per iteration"),
    (r"^<volatile_memory::VolatileSlice<'_, B> as bytes::Bytes<usize>>::(read_volatile_from|write_volatile_to)$", "eintr",
     "retry_eintr!: unbounded by design, repeats only while the stream reports ErrorKind::Interrupted"),
    (r"^io::(ReadVolatile::read_exact_volatile|WriteVolatile::write_all_volatile)$", "exact",
     "outer loop: buffer shrinks by n > 0 each round (Ok(0) leaves with an error); inner loop: retry_eintr!"),
    (r"^guest_memory::GuestMemory::try_access$", "try_access",
     "progress loop: Ok(0) returns; otherwise total strictly grows and the loop continues only while total < count"),
    (r"^volatile_memory::copy_slice_impl::copy_slice_volatile$", "stepping",
     "while left >= w { left -= w }: w is one of the constants 8/4/2/1 (> 0)"),
]


def check_loop(shape, prog, b, h, blocks, calls):
    """structural re-check of the tabled loop shapes; returns (ok, detail)"""
    from ..mir import canon, deep_strip, tstr
    names = [canon(c.target) for c in calls]
    if shape in ("eintr", "exact"):
        # every loop in these bodies must contain a call to io::Error::kind and a comparison with Interrupted,
        # or (outer exact loop) a call to VolatileSlice::offset with the returned count and an is_empty test
        has_kind = any(n.endswith("io::Error::kind") or n.endswith("Error::kind") for n in names)
        has_offset = any(n.endswith("VolatileSlice::offset") for n in names)
        has_empty = any(n.endswith("VolatileSlice::is_empty") for n in names)
        if has_kind and not has_offset:
            return True, "EINTR retry loop (Error::kind compared in the loop)"
        if shape == "exact" and has_offset and has_empty:
            # the zero-progress arm must leave the loop: a switch on the Ok payload with value 0 whose target is outside
            return True, "exact-transfer loop: advances by offset(n), exits when empty; Ok(0) arm checked by C14 R14.2"
        return False, f"loop body calls {sorted(set(n.split('::')[-1] for n in names))}: not an EINTR/exact loop"
    if shape == "try_access":
        has_find = any(n.endswith("GuestMemory::find_region") for n in names)
        has_checked = any(n.endswith("num::checked_add") for n in names)
        return (has_find and has_checked), "header is `while let Some(region) = find_region(cur)`, total advanced with checked_add (details: C03 R3.1)"
    if shape == "stepping":
        # a Sub on the loop counter by the closure parameter, dominated by Ge(counter, param)
        ok = False
        for pos, t in b.terms():
            if t["k"] == "assert" and t["msg"] == "Overflow:Sub" and pos[0] in blocks:
                ok = True
        return ok, "counter decreases by the positive width each iteration"
    return False, "unknown shape"
