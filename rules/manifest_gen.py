#!/usr/bin/env python3
"""Regenerates /verif/MANIFEST.json from the table below (single source of truth)."""
import json
import os

VERIF = os.path.dirname(os.path.dirname(os.path.abspath(__file__)))

# pid -> (category, technique, text, note, design_ref)
CHECKS = {
    "C19": ("proof", "MIR term matching of every Address method against the core integer intrinsic it must be; derive/field facts; compile-fail witnesses",
            "Each operation of both address types is shown, on the resolved MIR, to be the same-named core integer intrinsic applied to the raw "
            "values in the documented operand order and re-wrapped; derived Ord/Eq on a single-field struct; align-up has the mask form behind its "
            "asserts. Modulo the trusted intrinsics that structural mapping is the property for all 2^64 x 2^64 operands, which no test can enumerate.",
            "Trusted: core integer intrinsics, Option::map, derive semantics, rustc MIR construction. Values are not computed.", "DESIGN.md §3 C19"),
}

NOT_APPLICABLE = {}

PENDING = {}  # filled below: properties whose check is not built yet


def main():
    props = [json.loads(l)["id"] for l in open(os.path.join(VERIF, "properties.jsonl"))]
    checks = []
    for pid in props:
        if pid not in CHECKS:
            continue
        cat, tech, text, note, ref = CHECKS[pid]
        checks.append({
            "property_id": pid,
            "quick_cmd": f"./check {pid} --tier quick",
            "thorough_cmd": f"./check {pid} --tier thorough",
            "evidence_file": f"/verif/evidence/{pid}.json",
            "replay_cmd_template": f"./check {pid} --replay {{path}}",
            "engine": "vmfacts+rules",
            "level_claimed": {"category": cat, "text": text, "design_ref": ref},
            "level_note": note,
            "technique": "static analysis: " + tech,
        })
    na = []
    for pid in props:
        if pid in CHECKS:
            continue
        reason = NOT_APPLICABLE.get(pid) or PENDING.get(pid) or "check not built yet in this session (static rules designed in DESIGN.md §3; not claimed until implemented)"
        na.append({"property_id": pid, "reason": reason})
    m = {
        "version": 1,
        "setup_cmd": "cd /verif/driver && CARGO_NET_OFFLINE=true cargo build --release --offline && cd /verif && python3 -m compileall -q rules && python3 rules/facts.py FULL XEN MIN",
        "hooks": {
            "guard": "none",
            "enable": "no source hooks: the checker reads /repo's working tree through a rustc_private driver (RUSTC_WORKSPACE_WRAPPER) and compile-fail doctests",
            "baseline_off_cmd": "cd /repo && cargo test --workspace --no-fail-fast --offline",
            "source_commits": [],
            "add_only": True,
        },
        "engines": [
            {"name": "vmfacts", "path": "/verif/driver", "serves_properties": sorted(CHECKS),
             "kind_free_text": "rustc_private driver dumping resolved MIR, callees, ADT/impl/signature/layout facts per feature configuration (FULL, XEN, MIN)"},
            {"name": "rules", "path": "/verif/rules", "serves_properties": sorted(CHECKS),
             "kind_free_text": "python rule engine: dominance, term resolution, call-graph effect analysis, site tables, panic-edge census"},
            {"name": "witness", "path": "/verif/witness", "serves_properties": sorted(CHECKS),
             "kind_free_text": "compile_fail,E0xxx doctests with compiling twins: rustc decides for all client programs"},
        ],
        "checks": checks,
        "not_applicable": na,
        "notes": "Technique family: static analysis only. Every verdict is computed from /repo's current source (type-checked MIR via a rustc_private "
                 "driver for feature configurations FULL/XEN/MIN, plus rustc's verdict on compile-fail witnesses). No vm-memory code is executed by a deciding step.",
    }
    with open(os.path.join(VERIF, "MANIFEST.json"), "w") as fh:
        json.dump(m, fh, indent=1)
    print("MANIFEST.json written:", len(checks), "checks,", len(na), "not_applicable")


if __name__ == "__main__":
    main()
