#!/usr/bin/env python3
"""Regenerates /verif/MANIFEST.json from the table below (single source of truth)."""
import json
import os

VERIF = os.path.dirname(os.path.dirname(os.path.abspath(__file__)))

# pid -> (category, technique, text, note, design_ref)
CHECKS = {
    "C01": ("other", "sink enumeration by effect + check-then-use by dominance with range-check summaries discovered from what a function's success return implies; alignment/length asserts; compile-fail witnesses",
            "Every site that manufactures an accessor or reference from a parent (16 constructor call sites, 3 reference sinks, 4 ByteValued views per configuration, incl. the mmap and Xen back ends no baseline test compiles) is dominated by a successful range check of the very offset/extent it uses, with Le strictness and checked arithmetic; containment for derivation chains of any depth follows by induction; rustc decides that safe clients cannot forge accessors.",
            "Trusted: the unsafe constructors' contracts; pointer provenance; rustc MIR and borrow checker.", "DESIGN.md §3 C01"),
    "C02": ("other", "term-level delegation agreement and strictness checks on find_region and the provided methods of GuestMemory / GuestMemoryRegion",
            "find_region's arms (index tested == index returned, x > 0, inclusive last), search key = start_addr, POS < LEN and LAST = start + (len-1), and every derived query as the stated function of find_region/try_access. Necessary conditions of the set-theoretic reading for every layout and address; the value-level truth table is not decided.",
            "Trusted: binary_search_by_key on a sorted slice, Option/Result/Iterator combinators; sortedness from C10.", "DESIGN.md §3 C02"),
    "C03": ("other", "protocol checks on try_access (callback argument roles, total/cur updates, exit table from dominating facts), its eight clients, the error-mapping table, the ten region forwarders and the slice-level exact stream forms (whole range checked at once, then the exact loop)",
            "Decides the chunking protocol and the role of every closure parameter for all layouts/addresses/lengths; byte contents are not decided.",
            "Trusted: C02 (lookup), C04 (copy primitives), core checked/overflowing arithmetic.", "DESIGN.md §3 C03"),
    "C04": ("other", "operand agreement at every copy site (min over both sides, returned counts), start-bound strictness, who-may-touch table over effect-discovered accesses, object-route identity by MIR local",
            "Necessary conditions for 'moves exactly the bytes it names' for all sizes, offsets and element types; data values, address order and route agreement on values are not decided.",
            "Trusted: ptr::copy/read_volatile/write_volatile semantics; C01, C06.", "DESIGN.md §3 C04"),
    "C06": ("other", "width-table, stride/decrement agreement, alignment gate over both pointers, descending width order, routing strictness, call-graph containment of all small-object routes, ordering forwarders",
            "The access sequence issued for <= 8-byte transfers is built only from single volatile accesses justified by the alignment of both addresses, and every buffer/object route at three layers ends there. Schedules and codegen are not decided.",
            "Trusted: codegen of aligned volatile machine-width accesses; atomics honour the Ordering.", "DESIGN.md §3 C06"),
    "C05": ("other", "effect pairing on resolved MIR: write primitives discovered by callee, pointer provenance classification, post-dominating mark_dirty with agreeing extent in bytes (pointee width of counted primitives read from the resolved callee); derivation offset agreement; forwarder agreement; raw-handle exemption table",
            "For every guest-memory write in every feature configuration (incl. mmap/Xen code no baseline test compiles) a mark on the owning accessor's bitmap post-dominates the write with a covering extent, and every accessor derivation moves pointer and bitmap by the same offset: soundness of tracking for all operations, offsets, lengths and derivation chains by induction. Page arithmetic inside AtomicBitmap is covered by C09/C16 form rules only.",
            "Trusted: libc::read writes at most count bytes; atomics; unsafe-constructor contracts; rustc MIR. Does not decide the page-division identity.", "DESIGN.md §3 C05"),
    "C07": ("other", "exhaustive panic-edge / silent-wrap census over all MIR bodies; discharge by dominating facts, an interval + ordering-closure domain and failure summaries of the crate's checked helpers, else a reviewed-edge table; loop-shape recognition",
            "Every Assert terminator, diverging call, may-panic callee, wrapping/saturating call and narrowing cast in every non-derived body of FULL and XEN is either discharged by a dominating branch fact / the interval and ordering closure over such facts / a complete failure summary of the callee, or matches a reviewed, reasoned table row; every loop has a recognised terminating shape. A new or newly unguarded edge is a violation. Stronger than reachability from sampled entry points; weaker than a proof in that table rows are reviewed judgements.",
            "Trusted: std/libc callees off the may-panic list are total; allocation failure, stack overflow, foreign trait impls out of scope; the reviewed table; the arithmetic axioms of rules/bounds.py (DESIGN.md §2.5b, §6).", "DESIGN.md §3 C07"),
    "C08": ("proof", "site census of all atomic operations on bitmap words + term-level checks (single RMW, single-bit masks, harvest returns the RMW's own result, no load->RMW data dependence)",
            "Given the RMW total order of atomics, the enumerated structural conditions imply that no mark is lost and no unset bit is harvested under every interleaving — a quantifier over schedules that tests cannot cover.",
            "Trusted: C++/Rust atomics semantics; Vec indexing; rustc MIR.", "DESIGN.md §3 C08"),
    "C09": ("other", "dominance + unit/endpoint form rules on AtomicBitmap: guarded word access, div_ceil sizing agreement between new/enlarge/Clone, inclusive-last range form (range body found by effect), polarity of the marking entries (set sets, reset clears, followed through the shared helper's constant or closure), forwarders",
            "Decides the form clauses (strict page<size guards on the same page term, page->word/bit units, ceil sizing, inclusive last page behind len!=0, offset-adding slices). The identity 'first..=last = overlapped pages' for all values is not decided.",
            "Trusted: core div_ceil/saturating_add/RangeInclusive/Vec; atomics.", "DESIGN.md §3 C09"),
    "C10": ("other", "who-may-construct census, validator strictness from dominating facts, structure of insert/remove on a cloned vector, deep-immutability type walk, &self receivers, witnesses",
            "A map value only comes from the validating constructor (behind its tests), remove_region, Default or Clone; overlap/sortedness tests have the right strictness and variants; updates work on a clone with search key = sort key and exact size match; nothing reachable from a map is interior-mutable; earlier maps and handles stay usable (rustc).",
            "Trusted: Vec/sort/binary_search/Arc; rustc borrow checker.", "DESIGN.md §3 C10"),
    "C11": ("other", "who-may-call census of ArcSwap store/load, MIR order in replace, who-may-construct census of the exclusive guard, type facts, compile-fail/-pass witnesses",
            "Structural side conditions under which arc-swap + Mutex give the property for all schedules: one load per snapshot, only replace stores and only while the paired mutex guard is alive, guard Clone clones the same Arc, published map deeply immutable.",
            "Trusted: arc-swap load/store semantics, Mutex exclusivity, Arc.", "DESIGN.md §3 C11"),
    "C12": ("other", "ownership typestate on MIR (mmap result -> owner aggregate -> Drop munmap of the same fields; owned flag), Clone/leak census, Xen clone-chain table, compile-fail corpus with twins + signature rule",
            "Exactly-once unmapping and no leak on construction paths as a typestate over owner types in both configurations; for ALL client programs rustc decides that no accessor outlives its region or map (15 witnesses with twins).",
            "Trusted: kernel munmap; Arc; Rust move semantics; rustc borrow checker.", "DESIGN.md §3 C12"),
    "C13": ("other", "per-adapter bookkeeping agreement on MIR terms (count copied = returned = advance), clamp-before-slice, ErrorKind/strictness from dominating facts, single-syscall rule",
            "Necessary bookkeeping clauses of std-equivalence for all seven adapters; equality with std::io for all (stream, position, length) — incl. stream state after a failed exact read — is NOT decided (needs running both).",
            "Trusted: copy helpers (C04), slice/Vec/Cursor/libc semantics.", "DESIGN.md §3 C13"),
    "C14": ("other", "loop recognition: innermost loop of every unknown-stream call has one back edge dominated exactly by {Err, IOError, kind()==Interrupted}; exact-loop advance/termination rules; C03 client rules",
            "The control skeleton of EINTR retry / short transfer / error propagation is decided for all scripts of stream behaviour; byte movement is not.",
            "Trusted: io::Error::kind; stream implementors' contract; C03, C04.", "DESIGN.md §3 C14"),
    "C15": ("other", "outcome tables from dominating branch facts for every construction function, operand/field agreement, symbolic enumeration of the Xen validity predicate over its 16 predicate assignments",
            "Each rejection is raised exactly under its documented condition (right strictness) before the first mapping effect; what is checked is what is mapped and reported; the Xen flag predicate equals its specification on all 16 rows. Kernel/file coherence is not decided.",
            "Trusted: libc constants, bitflags-generated code, kernel.", "DESIGN.md §3 C15"),
    "C16": ("other", "call-graph effect analysis (no marking effect reachable from any non-writing route), strict extent agreement (transferred count), mark-after-write dominance, orphan-mark census",
            "From every read/query/derivation/stream-out route of all three layers no marking body is reachable (trait dispatch over-approximated); every mark is paired with a dominating write and uses the transferred count; the only mark-everything branch is the failed descriptor read.",
            "Trusted: call-graph over-approximation is sound for local code; page arithmetic identity not decided.", "DESIGN.md §3 C16"),
    "C17": ("other", "unit typing of guard lengths, provenance of every raw guest access (must be a guard of its accessor), MIR guard liveness, Xen window ownership/forwarding/arithmetic form",
            "Structural necessary conditions for every accessor kind and element type in FULL and XEN (the Xen backend is compiled by no baseline test). Three reference-returning APIs are recorded as open known findings (F2b).",
            "Trusted: gntdev/munmap behaviour; Rust drop semantics; rustc MIR.", "DESIGN.md §3 C17"),
    "C18": ("other", "dominance check recursive over delegation on every Bytes::read/write impl; zero-size guard on every division/offset_from by size_of::<T>(); len != 0 dominance on every bit mutator reachable from a Bitmap::mark_dirty impl",
            "For every layer the empty-buffer edge returns Ok(0) before any fallible step, or the body forwards unconditionally to one that does; ZST arithmetic is guarded; every mark_dirty implementation is a no-op for len == 0 (hands its own len to the range routine, reaches set_bit / an RMW only where len != 0 is known). For all addresses including unmapped ones.",
            "Trusted: tabled-infallible steps between layers; rustc MIR.", "DESIGN.md §3 C18"),
    "C19": ("proof", "MIR term matching of every Address method against the core integer intrinsic it must be; derive/field facts; compile-fail witnesses",
            "Each operation of both address types is shown, on the resolved MIR, to be the same-named core integer intrinsic applied to the raw "
            "values in the documented operand order and re-wrapped; derived Ord/Eq on a single-field struct; align-up has the mask form behind its "
            "asserts. Modulo the trusted intrinsics that structural mapping is the property for all 2^64 x 2^64 operands, which no test can enumerate.",
            "Trusted: core integer intrinsics, Option::map, derive semantics, rustc MIR construction. Values are not computed.", "DESIGN.md §3 C19"),
    "C20": ("proof", "byte-order typestate over MIR terms for all eight wrappers; compiler layout facts; const-assert and compile-fail witnesses",
            "Every constructor stores a value tagged as the type name declares, every extractor returns native, both mixed PartialEq impls compare equal tags, no other body touches the field; repr(transparent) and layout_of give size/alignment. Modulo the trusted to_le/to_be intrinsics this is the property for every value.",
            "Trusted: core to_le/to_be/from_le/from_be, rustc layout computation.", "DESIGN.md §3 C20"),
}

NOT_APPLICABLE = {}

PENDING = {}  # filled below: properties whose check is not built yet


def main():
    props = [json.loads(l)["id"] for l in open(os.path.join(VERIF, "properties.jsonl"))]
    checks = []
    for pid in props:
        if pid not in CHECKS:
            continue
        cat, tech, text, note, ref = CHECKS[pid]
        checks.append({
            "property_id": pid,
            "quick_cmd": f"./check {pid} --tier quick",
            "thorough_cmd": f"./check {pid} --tier thorough",
            "evidence_file": f"/verif/evidence/{pid}.json",
            "replay_cmd_template": f"./check {pid} --replay {{path}}",
            "engine": "vmfacts+rules",
            "level_claimed": {"category": cat, "text": text, "design_ref": ref},
            "level_note": note,
            "technique": "static analysis: " + tech,
        })
    na = []
    for pid in props:
        if pid in CHECKS:
            continue
        reason = NOT_APPLICABLE.get(pid) or PENDING.get(pid) or "check not built yet in this session (static rules designed in DESIGN.md §3; not claimed until implemented)"
        na.append({"property_id": pid, "reason": reason})
    m = {
        "version": 1,
        "setup_cmd": "cd /verif/driver && CARGO_NET_OFFLINE=true cargo build --release --offline && cd /verif && python3 -m compileall -q rules && python3 rules/facts.py FULL XEN MIN",
        "hooks": {
            "guard": "none",
            "enable": "no source hooks: the checker reads /repo's working tree through a rustc_private driver (RUSTC_WORKSPACE_WRAPPER) and compile-fail doctests",
            "baseline_off_cmd": "cd /repo && cargo test --workspace --no-fail-fast --offline",
            "source_commits": [],
            "add_only": True,
        },
        "engines": [
            {"name": "vmfacts", "path": "/verif/driver", "serves_properties": sorted(CHECKS),
             "kind_free_text": "rustc_private driver dumping resolved MIR, callees, ADT/impl/signature/layout facts per feature configuration (FULL, XEN, MIN)"},
            {"name": "rules", "path": "/verif/rules", "serves_properties": sorted(CHECKS),
             "kind_free_text": "python rule engine: dominance, term resolution, call-graph effect analysis, site tables, panic-edge census"},
            {"name": "witness", "path": "/verif/witness", "serves_properties": sorted(CHECKS),
             "kind_free_text": "compile_fail,E0xxx doctests with compiling twins: rustc decides for all client programs"},
        ],
        "checks": checks,
        "not_applicable": na,
        "notes": "Technique family: static analysis only. Every verdict is computed from /repo's current source (type-checked MIR via a rustc_private "
                 "driver for feature configurations FULL/XEN/MIN, plus rustc's verdict on compile-fail witnesses). No vm-memory code is executed by a deciding step.",
    }
    with open(os.path.join(VERIF, "MANIFEST.json"), "w") as fh:
        json.dump(m, fh, indent=1)
    print("MANIFEST.json written:", len(checks), "checks,", len(na), "not_applicable")


if __name__ == "__main__":
    main()
