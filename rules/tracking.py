"""Shared by C05 / C16 / C17 / C18: which bodies touch guest memory, through which accessor, and where
the dirty marks are. Everything is discovered by effect (callee), nothing by function name."""
import re
from .mir import deep_strip, tstr, canon, subterms, is_call
from . import effects

BITMAP_OWNERS = ("bitmap::backend::atomic_bitmap::AtomicBitmap", "bad_bitmap::BadBitmap")
GUESTY = ('guard', 'addr_field', 'atomic_ref', 'guard_value', 'region_ptr', 'xen_window', 'guard_field')


def _root_adt(prog, b):
    r = prog.by_id.get(b.root, b)
    return r.self_adt


def accesses(prog, eff, role):
    """Access sites of the program; decided on the inlining normal form and, when that leaves a pointer unclassified (e.g. a
    helper that threads raw pointers through a tuple or struct was inlined into its caller), on the program as written — where the
    same helper is an ordinary raw-pointer helper. Either view classifies every access or the problems of the first are reported."""
    r = _accesses(prog, eff, role)
    if r[3] and not getattr(prog, "is_pristine", True):
        p0 = prog.pristine()
        e0 = getattr(p0, "_tracking_eff", None)
        if e0 is None:
            e0 = effects.Effects(p0)
            p0._tracking_eff = e0
        try:
            r0 = _accesses(p0, e0, role)
        except Exception:
            r0 = None
        if r0 is not None and not r0[3]:
            return r0
    return r


def _accesses(prog, eff, role):
    """role = 'dst' (writes) or 'src' (reads).
    Returns (sites, raw, problems):
      sites: list of dict(body, pos, ln, kind, origin, count, via, call) — accesses whose pointer has guest provenance
      raw:   {(body id, param idx): {'count_param': k|None, 'kind':..}} helpers taking a bare pointer
      host:  list of accesses to host memory (Rust slices, Vec) — exempt
      problems: accesses whose pointer could not be classified (fail closed)
    """
    gen = effects.write_sites if role == 'dst' else effects.read_sites
    sites, host, problems = [], [], []
    raw = {}
    for w in gen(prog, eff):
        b = w["body"]
        if _root_adt(prog, b) in BITMAP_OWNERS:
            continue  # the bitmap's own words (C08)
        ptr = w[role]
        o = eff.origin(b, ptr)
        rec = {"body": b, "pos": w["pos"], "ln": w["ln"], "kind": w["kind"], "origin": o, "count": w["count"], "via": "prim", "call": w["call"], "ptr": ptr, "elem": w.get("elem")}
        if o[0] in GUESTY:
            sites.append(rec)
        elif o[0] == 'param':
            ob = o[2]
            cp = None
            if w["count"] is not None:
                ct = deep_strip(w["count"])
                if ct[0] == 'param' and ob is b:
                    cp = ct[1]
            key = (ob.id, o[1])
            if key not in raw:
                raw[key] = {"count_param": cp, "kind": w["kind"], "via": [b.key]}
            elif cp is not None:
                raw[key]["count_param"] = cp
        elif o[0] == 'host':
            host.append(rec)
        else:
            att = _by_type(prog, b, _arg_ty(prog, w["call"], ptr))
            if att is not None:
                key = (att[0].id, att[1])
                if key not in raw:
                    raw[key] = {"count_param": None, "kind": w["kind"], "via": [b.key]}
            else:
                problems.append(rec)
    # propagate raw helpers through their call sites
    changed = True
    rounds = 0
    seen_calls = set()
    while changed and rounds < 8:
        changed = False
        rounds += 1
        for b in prog.bodies:
            for c in b.calls():
                tgt = c.target
                for (fid, idx), info in list(raw.items()):
                    if tgt != fid:
                        continue
                    ck = (b.id, c.bb, fid, idx)
                    if ck in seen_calls:
                        continue
                    seen_calls.add(ck)
                    if idx - 1 >= len(c.t["args"]):
                        continue
                    ptr = c.arg(idx - 1)
                    o = eff.origin(b, ptr)
                    cnt = None
                    if info.get("count_param") and info["count_param"] - 1 < len(c.t["args"]):
                        cnt = c.arg(info["count_param"] - 1)
                    rec = {"body": b, "pos": c.pos, "ln": c.line, "kind": info["kind"], "origin": o, "count": cnt, "via": fid, "call": c, "ptr": ptr}
                    if o[0] in GUESTY:
                        sites.append(rec)
                    elif o[0] == 'param':
                        ob = o[2]
                        cp = None
                        if cnt is not None:
                            ct = deep_strip(cnt)
                            if ct[0] == 'param' and ob is b:
                                cp = ct[1]
                        key = (ob.id, o[1])
                        if key not in raw:
                            raw[key] = {"count_param": cp, "kind": info["kind"], "via": [fid]}
                            changed = True
                    elif o[0] == 'host':
                        host.append(rec)
                    else:
                        tys = c.t.get("arg_tys") or []
                        att = _by_type(prog, b, prog.types[tys[idx - 1]]["s"] if idx - 1 < len(tys) else None)
                        if att is not None:
                            key = (att[0].id, att[1])
                            if key not in raw:
                                raw[key] = {"count_param": None, "kind": info["kind"], "via": [fid]}
                                changed = True
                        else:
                            problems.append(rec)
    return sites, raw, host, problems


CRATE_MEMORY_TYPES = re.compile(r"volatile_memory::(Volatile|PtrGuard)|mmap::|guest_memory::|bitmap::|atomic::|Guest(Memory|Region|Address)")


def _arg_ty(prog, call, ptr_term):
    """type string of the pointer operand of a primitive access"""
    tys = call.t.get("arg_tys") or []
    for i, a in enumerate(call.args()):
        if deep_strip(a) == deep_strip(ptr_term) and i < len(tys):
            return prog.types[tys[i]]["s"]
    return None


def _pure_raw_helper(prog, b):
    """a crate-internal function that handles nothing but raw pointers and integers: no accessor, guard, region or bitmap value
    appears among its locals, so every pointer it uses comes from its own inputs (by pointer arithmetic), and it never turns a
    `*const` into a `*mut`"""
    memo = prog.__dict__.setdefault("_pure_raw", {})
    if b.id in memo:
        return memo[b.id]
    memo[b.id] = False
    f = prog.fns.get(b.id)
    if b.kind not in ("Fn", "AssocFn") or f is None or f.get("vis") == "pub":
        return False
    for i in range(len(b.locals)):
        if CRATE_MEMORY_TYPES.search(b.local_ty(i).s):
            return False
    for _pos, s_ in b.stmts():
        if s_["k"] == "assign" and s_["rv"]["k"] == "cast" and s_["rv"].get("cast") in ("PtrToPtr", "Transmute", "IntToPtr"):
            to = prog.types[s_["rv"]["ty"]]["s"]
            op = s_["rv"]["op"]
            frm = b.local_ty(op["pl"]["l"]).s if "pl" in op and not op["pl"].get("p") else "?"
            if to.startswith("*mut") and not frm.startswith("*mut"):
                return False
    memo[b.id] = True
    return True


def _ptr_inputs(prog, b):
    """(param index, field path, 'mut' | 'const') for every raw-pointer input of b: pointer parameters and the pointer fields of
    tuple / struct parameters (also behind one reference)"""
    out = []
    for i in range(1, b.arg_count + 1):
        t = b.local_ty(i)
        if t.k == 'ptr':
            out.append((i, (), 'mut' if t.s.startswith("*mut") else 'const'))
            continue
        if t.k == 'ref' and t.inner() is not None:
            t = t.inner()
        if t.k == 'tuple':
            for fi, a in enumerate(t.j.get("args", [])):
                ts = prog.types[a]["s"]
                if prog.types[a]["k"] == 'ptr':
                    out.append((i, (fi,), 'mut' if ts.startswith("*mut") else 'const'))
        elif t.k == 'adt' and t.j.get("def") in prog.adts:
            for fi, fld in enumerate(prog.adts[t.j["def"]]["variants"][0]["fields"]):
                if prog.types[fld["ty"]]["k"] == 'ptr':
                    out.append((i, (fi,), 'mut' if prog.types[fld["ty"]]["s"].startswith("*mut") else 'const'))
    return out


def _by_type(prog, b, ptr_ty):
    """an access through a pointer whose data flow the term engine cannot follow (loop-carried, threaded through a tuple or a state
    struct) inside a pure raw helper: by TYPE it can only come from the helper's unique input of that pointer mutability; follow
    that input up the (pure raw helper) callers until it is a plain pointer parameter. Returns (body, param index) or None."""
    if not ptr_ty or not ptr_ty.startswith("*"):
        return None
    mut = 'mut' if ptr_ty.startswith("*mut") else 'const'
    cur = prog.by_id.get(b.root, b) if b.kind == "Closure" else b
    for _ in range(5):
        if not _pure_raw_helper(prog, cur):
            return None
        ins = [x for x in _ptr_inputs(prog, cur) if x[2] == mut]
        if len(ins) != 1:
            return None
        if ins[0][1] == ():
            return cur, ins[0][0]
        callers = {cb.id: cb for cb in prog.bodies for c in cb.calls() if c.target == cur.id and cb.id != cur.id}
        if len(callers) != 1:
            return None
        cur = list(callers.values())[0]
        cur = prog.by_id.get(cur.root, cur) if cur.kind == "Closure" else cur
    return None


def accessor_key(o):
    """(space body, accessor base term) of a guest origin"""
    if o[0] in ('guard', 'guard_value'):
        return o[3], o[1]
    if o[0] == 'addr_field':
        return o[3], o[1]
    if o[0] == 'atomic_ref':
        return o[3], o[1]
    if o[0] in ('region_ptr', 'xen_window', 'guard_field'):
        return o[2], o[1]
    return None, None


def marks_in(prog, eff, body):
    """mark_dirty call sites in `body`: list of dict(call, bitmap (lifted base term), space, off, n)"""
    out = []
    for c in body.calls():
        cn = canon(c.target or "")
        if cn.split("::")[-1] != "mark_dirty":
            continue
        bm = eff.inline(c.arg(0))
        space = body
        off, n = c.arg(1), c.arg(2)
        if body.kind == "Closure":
            space, bm = eff.lift(body, bm)
            _s, off = eff.lift(body, deep_strip(off))
            _s, n = eff.lift(body, deep_strip(n))
        out.append({"call": c, "bitmap": effects.base_of(bm), "space": space, "off": eff.inline(off), "n": eff.inline(n)})
    return out


def bitmap_of(acc_term):
    """the bitmap a mark must address for accessor X: field(X, bitmap)"""
    return ('field', acc_term, 'bitmap')


def same_bitmap(mark_bitmap, acc_term):
    mb = mark_bitmap
    want = bitmap_of(acc_term)
    if mb == want:
        return True
    # X.bitmap where X itself is deref'd/ref'd differently
    if mb[0] == 'field' and mb[2] == 'bitmap' and effects.base_of(mb[1]) == effects.base_of(acc_term):
        return True
    return False
