"""Shared by C05 / C16 / C17 / C18: which bodies touch guest memory, through which accessor, and where
the dirty marks are. Everything is discovered by effect (callee), nothing by function name."""
from .mir import deep_strip, tstr, canon, subterms, is_call
from . import effects

BITMAP_OWNERS = ("bitmap::backend::atomic_bitmap::AtomicBitmap", "bad_bitmap::BadBitmap")
GUESTY = ('guard', 'addr_field', 'atomic_ref', 'guard_value', 'region_ptr', 'xen_window', 'guard_field')


def _root_adt(prog, b):
    r = prog.by_id.get(b.root, b)
    return r.self_adt


def accesses(prog, eff, role):
    """role = 'dst' (writes) or 'src' (reads).
    Returns (sites, raw, problems):
      sites: list of dict(body, pos, ln, kind, origin, count, via, call) — accesses whose pointer has guest provenance
      raw:   {(body id, param idx): {'count_param': k|None, 'kind':..}} helpers taking a bare pointer
      host:  list of accesses to host memory (Rust slices, Vec) — exempt
      problems: accesses whose pointer could not be classified (fail closed)
    """
    gen = effects.write_sites if role == 'dst' else effects.read_sites
    sites, host, problems = [], [], []
    raw = {}
    for w in gen(prog, eff):
        b = w["body"]
        if _root_adt(prog, b) in BITMAP_OWNERS:
            continue  # the bitmap's own words (C08)
        ptr = w[role]
        o = eff.origin(b, ptr)
        rec = {"body": b, "pos": w["pos"], "ln": w["ln"], "kind": w["kind"], "origin": o, "count": w["count"], "via": "prim", "call": w["call"], "ptr": ptr}
        if o[0] in GUESTY:
            sites.append(rec)
        elif o[0] == 'param':
            ob = o[2]
            cp = None
            if w["count"] is not None:
                ct = deep_strip(w["count"])
                if ct[0] == 'param' and ob is b:
                    cp = ct[1]
            key = (ob.id, o[1])
            if key not in raw:
                raw[key] = {"count_param": cp, "kind": w["kind"], "via": [b.key]}
            elif cp is not None:
                raw[key]["count_param"] = cp
        elif o[0] == 'host':
            host.append(rec)
        else:
            problems.append(rec)
    # propagate raw helpers through their call sites
    changed = True
    rounds = 0
    seen_calls = set()
    while changed and rounds < 8:
        changed = False
        rounds += 1
        for b in prog.bodies:
            for c in b.calls():
                tgt = c.target
                for (fid, idx), info in list(raw.items()):
                    if tgt != fid:
                        continue
                    ck = (b.id, c.bb, fid, idx)
                    if ck in seen_calls:
                        continue
                    seen_calls.add(ck)
                    if idx - 1 >= len(c.t["args"]):
                        continue
                    ptr = c.arg(idx - 1)
                    o = eff.origin(b, ptr)
                    cnt = None
                    if info.get("count_param") and info["count_param"] - 1 < len(c.t["args"]):
                        cnt = c.arg(info["count_param"] - 1)
                    rec = {"body": b, "pos": c.pos, "ln": c.line, "kind": info["kind"], "origin": o, "count": cnt, "via": fid, "call": c, "ptr": ptr}
                    if o[0] in GUESTY:
                        sites.append(rec)
                    elif o[0] == 'param':
                        ob = o[2]
                        cp = None
                        if cnt is not None:
                            ct = deep_strip(cnt)
                            if ct[0] == 'param' and ob is b:
                                cp = ct[1]
                        key = (ob.id, o[1])
                        if key not in raw:
                            raw[key] = {"count_param": cp, "kind": info["kind"], "via": [fid]}
                            changed = True
                    elif o[0] == 'host':
                        host.append(rec)
                    else:
                        problems.append(rec)
    return sites, raw, host, problems


def accessor_key(o):
    """(space body, accessor base term) of a guest origin"""
    if o[0] in ('guard', 'guard_value'):
        return o[3], o[1]
    if o[0] == 'addr_field':
        return o[3], o[1]
    if o[0] == 'atomic_ref':
        return o[3], o[1]
    if o[0] in ('region_ptr', 'xen_window', 'guard_field'):
        return o[2], o[1]
    return None, None


def marks_in(prog, eff, body):
    """mark_dirty call sites in `body`: list of dict(call, bitmap (lifted base term), space, off, n)"""
    out = []
    for c in body.calls():
        cn = canon(c.target or "")
        if cn.split("::")[-1] != "mark_dirty":
            continue
        bm = eff.inline(c.arg(0))
        space = body
        off, n = c.arg(1), c.arg(2)
        if body.kind == "Closure":
            space, bm = eff.lift(body, bm)
            _s, off = eff.lift(body, deep_strip(off))
            _s, n = eff.lift(body, deep_strip(n))
        out.append({"call": c, "bitmap": effects.base_of(bm), "space": space, "off": eff.inline(off), "n": eff.inline(n)})
    return out


def bitmap_of(acc_term):
    """the bitmap a mark must address for accessor X: field(X, bitmap)"""
    return ('field', acc_term, 'bitmap')


def same_bitmap(mark_bitmap, acc_term):
    mb = mark_bitmap
    want = bitmap_of(acc_term)
    if mb == want:
        return True
    # X.bitmap where X itself is deref'd/ref'd differently
    if mb[0] == 'field' and mb[2] == 'bitmap' and effects.base_of(mb[1]) == effects.base_of(acc_term):
        return True
    return False
