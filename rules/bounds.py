"""A small abstract domain over MIR terms for the panic-edge census (C07): constant intervals plus an ordering closure.

Given the dominating branch facts at a program point, answer `a <= c`, `a < c`, `a != 0`, `ub(a)`, `lb(a)` for unsigned integer terms
by (1) constant folding and interval arithmetic on the term structure, (2) monotonicity axioms of the operators (min, max, &, >>, /,
%, checked / saturating arithmetic, items of integer ranges, lengths), and (3) transitivity through the facts. Everything is a sound
under-approximation of what holds: `False` means "not shown", never "refuted". No path is executed and no solver is involved; the
search is a depth-bounded structural recursion.

Casts are looked through (as the fact engine does); narrowing casts are census edges of their own.
"""
import re

from .mir import deep_strip, canon, map_children, children

MAXU = (1 << 64) - 1
ISIZE_MAX = (1 << 63) - 1
PRIM_SIZE = {"u8": 1, "i8": 1, "bool": 1, "u16": 2, "i16": 2, "u32": 4, "i32": 4, "char": 4, "u64": 8, "i64": 8, "usize": 8, "isize": 8, "u128": 16, "i128": 16}
PRIM_BITS = {k: 8 * v for k, v in PRIM_SIZE.items()}


_NORM_MEMO = {}
_COMM = ("Add", "Mul", "BitAnd", "BitOr", "BitXor", "Eq", "Ne")


def norm(t):
    """canonical integer term: no casts / refs / derefs anywhere, `(a OpWithOverflow b).0` -> `a Op b`, commutative operands sorted"""
    if not isinstance(t, tuple) or not t:
        return t
    r = _NORM_MEMO.get(t)
    if r is None:
        r = _norm(t)
        if len(_NORM_MEMO) > 200000:
            _NORM_MEMO.clear()
        _NORM_MEMO[t] = r
    return r


_LEN_OWNER = re.compile(r"slice|Vec|VecDeque|str|array|\[")
_SAME_ELEMS = ("deref", "deref_mut", "as_slice", "as_mut_slice", "as_ref", "as_mut", "clone", "borrow", "borrow_mut", "iter", "iter_mut", "to_vec", "to_owned")


def container(t):
    """the collection a length / index refers to: views and clones of a collection have the same elements and length"""
    t = norm(t)
    while t[0] == 'call' and len(t[2]) == 1 and canon(t[1]).split("::")[-1] in _SAME_ELEMS:
        t = norm(t[2][0])
    return t


_GEN_CMP = {"eq": "Eq", "ne": "Ne", "lt": "Lt", "le": "Le", "gt": "Gt", "ge": "Ge"}
_NEG_CMP = {"Eq": "Ne", "Ne": "Eq", "Lt": "Ge", "Ge": "Lt", "Le": "Gt", "Gt": "Le"}
SUM_HOOK = [None]      # optional: callee path -> (i, j) when `ok(callee(args))` is the non-overflowing sum args[i-1] + args[j-1]


def set_sum_hook(h):
    SUM_HOOK[0] = h
    _NORM_MEMO.clear()


RET_HOOK = [None]      # optional: callee path -> k when the local function returns its k-th argument unchanged on every path


def set_ret_hook(h):
    RET_HOOK[0] = h
    _NORM_MEMO.clear()


GETTER_HOOK = [None]   # optional: callee path -> field name when the local function is the plain getter `self.<field>`


def set_getter_hook(h):
    GETTER_HOOK[0] = h
    _NORM_MEMO.clear()


def _norm(t):
    k = t[0]
    if k == 'ok' and isinstance(t[1], tuple) and t[1]:
        p = t[1]
        while p[0] in ('cast', 'ref', 'deref'):
            p = p[2] if p[0] == 'cast' else p[1]
        if p[0] == 'call' and len(p[2]) >= 2:
            ij = (1, 2) if (canon(p[1]).endswith("num::checked_add") and len(p[2]) == 2) else (SUM_HOOK[0](p[1]) if SUM_HOOK[0] else None)
            if ij:
                return norm(('bin', 'Add', p[2][ij[0] - 1], p[2][ij[1] - 1]))
    if k in ('ref', 'deref'):
        return norm(t[1])
    if k == 'cast':
        ty = t[3] if len(t) > 3 else None
        if t[1] == "IntToInt" and ty in PRIM_BITS and PRIM_BITS[ty] < 64:
            return ('narrow', PRIM_BITS[ty], norm(t[2]))     # truncation: only `<= operand` and the width bound survive
        return norm(t[2])
    if k == 'field' and t[2] == '0' and isinstance(t[1], tuple):
        x = t[1]
        while x[0] in ('cast', 'ref', 'deref'):
            x = x[2] if x[0] == 'cast' else x[1]
        if x[0] == 'bin' and x[1].endswith("WithOverflow"):
            return norm(('bin', x[1][:-len("WithOverflow")], x[2], x[3]))
    if k == 'call' and t[2] and RET_HOOK[0] is not None:
        kk = RET_HOOK[0](t[1])
        if kk and kk <= len(t[2]):
            return norm(t[2][kk - 1])
    if k == 'call' and len(t[2]) == 1 and GETTER_HOOK[0] is not None:
        fld = GETTER_HOOK[0](t[1])
        if fld:
            return norm(('field', t[2][0], fld))
    if k == 'call' and len(t[2]) == 1 and re.search(r"PtrGuard(Mut)?::len$", canon(t[1])):
        g = t[2][0]
        while g[0] in ('cast', 'ref', 'deref'):
            g = g[2] if g[0] == 'cast' else g[1]
        if g[0] == 'call' and len(g[2]) == 1 and re.search(r"VolatileSlice::ptr_guard(_mut)?$", canon(g[1])):
            return norm(('field', g[2][0], 'size'))        # a slice's guard is as long as the slice (C17 R17.1)
    if k == 'call' and not t[2] and re.search(r"AddressValue::(zero|one)$", canon(t[1])):
        return ('const', 0 if canon(t[1]).endswith("zero") else 1)      # the additive / multiplicative unit of the address value type
    if (k == 'call' and t[2] and canon(t[1]).split("::")[-1] == "len" and _LEN_OWNER.search(canon(t[1]))) or (k == 'un' and t[1] == 'PtrMetadata'):
        c = container(t[2][0] if k == 'call' else t[2])
        if c[0] == 'agg' and c[1] == 'repeat':
            m = re.search(r"(\d+)", str(c[2]))
            if m:
                return ('const', int(m.group(1)))
        return ('len', c)
    if k == 'call' and len(t[2]) == 1 and canon(t[1]).split("::")[-1] == "len" and re.search(r"VolatileSlice|VolatileMemory", canon(t[1])):
        return norm(('field', t[2][0], 'size'))         # VolatileSlice::len() is the getter of `size`
    if k == 'field' and t[2] == 'len' and isinstance(t[1], tuple):
        g = t[1]
        while g[0] in ('cast', 'ref', 'deref') or (g[0] == 'field' and g[2] == '0'):
            g = g[2] if g[0] == 'cast' else g[1]
        if g[0] == 'call' and len(g[2]) == 1 and re.search(r"VolatileSlice::ptr_guard(_mut)?$", canon(g[1])):
            return norm(('field', g[2][0], 'size'))        # the `len` field of a slice's guard (getter inlined; PtrGuardMut wraps PtrGuard)
    if k == 'field' and t[2] == 'size':
        x = norm(t[1])
        if x[0] == 'ok' and x[1][0] == 'call' and len(x[1][2]) == 3 and canon(x[1][1]).endswith("VolatileSlice::subslice"):
            return x[1][2][2]                            # a successful subslice(o, n) is exactly n bytes long (C01 R1.2 on its body)
        return ('field', x, 'size')
    r = map_children(t, norm)
    if r[0] == 'bin' and r[1] in _COMM and repr(r[3]) < repr(r[2]):
        r = ('bin', r[1], r[3], r[2])
    if r[0] == 'call' and len(r[2]) == 2 and canon(r[1]).split("::")[-1] in ("min", "max") and repr(r[2][1]) < repr(r[2][0]):
        r = ('call', r[1], (r[2][1], r[2][0])) + tuple(r[3:])
    return r


def _last(path):
    return canon(path).split("::")[-1]


def _is(t, *names):
    return t[0] == 'call' and _last(t[1]) in names


def _args(t):
    return [norm(a) for a in t[2]]


def _search_hay(t):
    """t == binary_search*(hay, ..) -> the collection searched"""
    t = norm(t)
    if t[0] == 'call' and t[2] and canon(t[1]).split("::")[-1] in ("binary_search", "binary_search_by", "binary_search_by_key"):
        return container(t[2][0])
    return None


def _range_of_item(t):
    """t == ok(next(<iterator over an integer range>)) -> (lo, hi, inclusive) ; adaptors that only drop / reorder items are looked through"""
    if t[0] != 'ok':
        return None
    x = norm(t[1])
    if not _is(x, "next", "next_back"):
        return None
    it = _args(x)[0] if x[2] else None
    for _ in range(8):
        if it is None:
            return None
        if it[0] == 'agg' and str(it[1]).split("::")[-1] in ("Range",) and len(it[3]) == 2:
            return norm(it[3][0]), norm(it[3][1]), False
        if it[0] == 'call':
            n = _last(it[1])
            if n == "new" and "RangeInclusive" in canon(it[1]) and len(it[2]) == 2:
                return norm(it[2][0]), norm(it[2][1]), True
            if n in ("into_iter", "rev", "take", "skip", "step_by", "take_while", "skip_while", "filter", "by_ref", "iter", "peekable", "fuse"):
                it = norm(it[2][0])
                continue
        return None
    return None


_ITER_PASS = ("into_iter", "by_ref", "rev", "peekable", "fuse", "enumerate", "map", "inspect", "copied", "cloned")


def iter_count(it, d=0):
    """the number of items an iterator expression yields when driven to its end, as a term; adaptors that neither drop nor add
    items are looked through; `take(n)` / `zip` are minima. None when the chain contains anything else."""
    it = norm(it)
    if d > 8 or not isinstance(it, tuple) or not it:
        return None
    if it[0] == 'call':
        n, a = _last(it[1]), it[2]
        if n in _ITER_PASS and a:
            return iter_count(a[0], d + 1)
        if n == "take" and len(a) == 2:
            c = iter_count(a[0], d + 1)
            return norm(('call', 'core::cmp::Ord::min', (c, norm(a[1])))) if c is not None else None
        if n == "zip" and len(a) == 2:
            c1, c2 = iter_count(a[0], d + 1), iter_count(a[1], d + 1)
            return norm(('call', 'core::cmp::Ord::min', (c1, c2))) if c1 is not None and c2 is not None else None
        if n in ("iter", "iter_mut") and len(a) == 1 and _LEN_OWNER.search(canon(it[1])):
            return ('len', container(a[0]))
    if it[0] == 'agg' and str(it[1]).split("::")[-1] == "Range" and len(it[3]) == 2 and norm(it[3][0]) == ('const', 0):
        return norm(it[3][1])
    return None


def enum_index_count(t):
    """t == ok(next(<.. enumerate(X) ..>)).0, the index part of an item of an enumerated iterator (adaptors after `enumerate` that
    only forward items are looked through) -> the item count of X: the index is strictly below it"""
    t = norm(t)
    if t[0] != 'field' or t[2] != '0' or not isinstance(t[1], tuple) or t[1][0] != 'ok':
        return None
    x = norm(t[1][1])
    if not _is(x, "next") or not x[2]:
        return None
    it = norm(x[2][0])
    for _ in range(6):
        if it[0] != 'call' or not it[2]:
            return None
        n = _last(it[1])
        if n == "enumerate":
            return iter_count(it[2][0])
        if n in ("into_iter", "by_ref", "peekable", "fuse", "take"):
            # take(k) after enumerate drops only a suffix: the indices that remain are still positions in X
            it = norm(it[2][0])
            continue
        return None
    return None


class Bounds:
    def __init__(self, facts, prim_sizes=None):
        self.facts = [r for r in facts if r[0] == 'cmp']
        self.nfacts = [(r[1], norm(r[2]), norm(r[3])) for r in self.facts]
        # comparisons of a GENERIC numeric type are calls (`PartialEq::eq(a, b)` decided true / false), not MIR comparisons
        for r in facts:
            if r[0] == 'bool' and isinstance(r[1], tuple):
                t = deep_strip(r[1])
                while t[0] in ('ref', 'deref'):
                    t = deep_strip(t[1])
                if t[0] == 'call' and len(t[2]) == 2:
                    nm = canon(t[1]).split("::")[-1]
                    op = _GEN_CMP.get(nm)
                    if op and re.search(r"cmp::Partial(Eq|Ord)::", canon(t[1])):
                        if not r[2]:
                            op = _NEG_CMP[op]
                        self.nfacts.append((op, norm(t[2][0]), norm(t[2][1])))
        self.memo = {}

    # ------------------------------------------------------------------ constants
    def const(self, t):
        t = norm(t)
        if t[0] == 'const' and isinstance(t[1], int) and not isinstance(t[1], bool):
            return t[1]
        lo, hi = self.lb(t), self.ub(t)
        return lo if hi is not None and lo == hi else None

    def ub(self, t, d=0):
        t = norm(t)
        k = ('ub', t)
        if k in self.memo:
            return self.memo[k]
        self.memo[k] = None
        r = self._ub(t, d)
        # facts t <= c / t < c
        if d < 3:
            for op, x, y in self.nfacts:
                c = None
                if x == t and op in ('Le', 'Lt', 'Eq'):
                    c = self.ub(y, d + 1)
                    if c is not None and op == 'Lt':
                        c -= 1
                elif y == t and op in ('Ge', 'Gt', 'Eq'):
                    c = self.ub(x, d + 1)
                    if c is not None and op == 'Gt':
                        c -= 1
                if c is not None and c >= 0 and (r is None or c < r):
                    r = c
        self.memo[k] = r
        return r

    def _ub(self, t, d):
        if d > 6:
            return None
        if t[0] == 'const':
            return t[1] if isinstance(t[1], int) and not isinstance(t[1], bool) and t[1] >= 0 else (1 if isinstance(t[1], bool) else None)
        if t[0] == 'bin':
            op, a, b = t[1], norm(t[2]), norm(t[3])
            ua, ub_ = self.ub(a, d + 1), self.ub(b, d + 1)
            if op == 'BitAnd':
                xs = [x for x in (ua, ub_) if x is not None]
                return min(xs) if xs else None
            if op in ('BitOr', 'BitXor') and ua is not None and ub_ is not None:
                return (1 << max(ua.bit_length(), ub_.bit_length())) - 1
            if op == 'Shr' and ua is not None:
                return ua >> self.lb(b, d + 1) if self.lb(b, d + 1) < 128 else 0
            if op == 'Shl' and ua is not None and ub_ is not None and ub_ < 64 and (ua << ub_) <= MAXU:
                return ua << ub_
            if op == 'Div' and ua is not None:
                return ua // max(1, self.lb(b, d + 1))
            if op == 'Rem':
                if ub_ is not None and ub_ >= 1:
                    return min(ub_ - 1, ua) if ua is not None else ub_ - 1
                return ua
            if op == 'Sub' and ua is not None:
                return max(0, ua - self.lb(b, d + 1))
            if op == 'Add' and ua is not None and ub_ is not None and ua + ub_ <= MAXU:
                return ua + ub_
            if op == 'Mul' and ua is not None and ub_ is not None and ua * ub_ <= MAXU:
                return ua * ub_
            if op in ('Lt', 'Le', 'Gt', 'Ge', 'Eq', 'Ne'):
                return 1
            return None
        if t[0] == 'call':
            n = _last(t[1])
            a = _args(t)
            if n in ("min",) and len(a) == 2:
                xs = [x for x in (self.ub(a[0], d + 1), self.ub(a[1], d + 1)) if x is not None]
                return min(xs) if xs else None
            if n in ("max",) and len(a) == 2:
                xs = [self.ub(a[0], d + 1), self.ub(a[1], d + 1)]
                return max(xs) if None not in xs else None
            if n in ("trailing_zeros", "leading_zeros", "count_ones", "count_zeros", "trailing_ones", "leading_ones") and len(a) == 1:
                c = self.const(a[0]) if d < 4 else None
                if c is not None and c > 0 and n == "trailing_zeros":
                    return (c & -c).bit_length() - 1
                if c is not None and n == "count_ones":
                    return bin(c).count("1")
                return 64
            if n == "size_of" and len(t) > 3 and len(t[3]) == 1 and t[3][0] in PRIM_SIZE:
                return PRIM_SIZE[t[3][0]]
            if n in ("saturating_sub", "wrapping_sub") and n == "saturating_sub" and len(a) == 2:
                return self.ub(a[0], d + 1)
            if n in ("div", "div_euclid", "checked_div") and len(a) == 2:
                return self.ub(a[0], d + 1)
            if n == "div_ceil" and len(a) == 2:
                return self.ub(a[0], d + 1)
            if n in ("rem", "rem_euclid") and len(a) == 2:
                u = self.ub(a[1], d + 1)
                return u - 1 if u else self.ub(a[0], d + 1)
            if n == "len" and ("slice" in canon(t[1]) or "Vec" in canon(t[1]) or "str" in canon(t[1])):
                return ISIZE_MAX
            if n == "from" and len(a) == 1:          # u64::from(u32) etc: lossless
                return self.ub(a[0], d + 1)
            return None
        if t[0] == 'len':
            return ISIZE_MAX
        if t[0] == 'narrow':
            u = self.ub(t[2], d + 1)
            return min(u, (1 << t[1]) - 1) if u is not None else (1 << t[1]) - 1
        if t[0] == 'ok':
            rg = _range_of_item(t)
            if rg:
                lo, hi, inc = rg
                u = self.ub(hi, d + 1)
                return None if u is None else (u if inc else max(0, u - 1))
            p = norm(t[1])
            if _is(p, "checked_sub") and len(p[2]) == 2:
                return self.ub(_args(p)[0], d + 1)
            if _is(p, "checked_div", "checked_rem") and len(p[2]) == 2:
                return self.ub(_args(p)[0], d + 1)
            if _is(p, "try_from", "try_into") and len(p[2]) == 1:
                return self.ub(_args(p)[0], d + 1)
            return None
        return None

    def lb(self, t, d=0):
        t = norm(t)
        k = ('lb', t)
        if k in self.memo:
            return self.memo[k]
        self.memo[k] = 0
        r = self._lb(t, d)
        if d < 3:
            for op, x, y in self.nfacts:
                c = None
                if x == t and op in ('Ge', 'Gt', 'Eq'):
                    c = self.lb(y, d + 1) + (1 if op == 'Gt' else 0)
                elif y == t and op in ('Le', 'Lt', 'Eq'):
                    c = self.lb(x, d + 1) + (1 if op == 'Lt' else 0)
                elif x == t and op == 'Ne' and self.const(y) == 0 if d < 2 else False:
                    c = 1
                elif y == t and op == 'Ne' and self.const(x) == 0 if d < 2 else False:
                    c = 1
                if c is not None and c > r:
                    r = c
        self.memo[k] = r
        return r

    def _lb(self, t, d):
        if d > 6:
            return 0
        if t[0] == 'const':
            return t[1] if isinstance(t[1], int) and not isinstance(t[1], bool) and t[1] >= 0 else 0
        if t[0] == 'bin':
            op, a, b = t[1], norm(t[2]), norm(t[3])
            if op == 'Add':
                return self.lb(a, d + 1) + self.lb(b, d + 1)
            if op == 'Mul':
                return self.lb(a, d + 1) * self.lb(b, d + 1)
            if op == 'Sub':
                ub_ = self.ub(b, d + 1)
                return max(0, self.lb(a, d + 1) - ub_) if ub_ is not None else 0
            if op == 'BitOr':
                return max(self.lb(a, d + 1), self.lb(b, d + 1))
            if op == 'Shl':
                c = self.const(b)
                return self.lb(a, d + 1) << c if c is not None and c < 64 and (self.ub(a, d + 1) or MAXU + 1) << c <= MAXU else 0
            if op == 'Div':
                ub_ = self.ub(b, d + 1)
                return self.lb(a, d + 1) // ub_ if ub_ else 0
            return 0
        if t[0] == 'call':
            n = _last(t[1])
            a = _args(t)
            if n == "max" and len(a) == 2:
                return max(self.lb(a[0], d + 1), self.lb(a[1], d + 1))
            if n == "min" and len(a) == 2:
                return min(self.lb(a[0], d + 1), self.lb(a[1], d + 1))
            if n == "get" and "NonZero" in canon(t[1]):
                return 1
            if n == "size_of" and len(t) > 3 and len(t[3]) == 1 and t[3][0] in PRIM_SIZE:
                return PRIM_SIZE[t[3][0]]
            if n == "align_of":
                return 1
            if n == "sysconf" and a and a[0] == ('const', 30):
                return 1          # _SC_PAGESIZE: the page size is positive (POSIX; environment, not guest data)
            if n == "saturating_add" and len(a) == 2:
                return max(self.lb(a[0], d + 1), self.lb(a[1], d + 1))
            if n == "div_ceil" and len(a) == 2:
                return 1 if self.lb(a[0], d + 1) >= 1 else 0
            if n in ("trailing_zeros", "count_ones") and len(a) == 1:
                c = self.const(a[0]) if d < 4 else None
                if c is not None and c > 0:
                    return (c & -c).bit_length() - 1 if n == "trailing_zeros" else bin(c).count("1")
            if n == "from" and len(a) == 1:
                return self.lb(a[0], d + 1)
            return 0
        if t[0] == 'ok':
            rg = _range_of_item(t)
            if rg:
                return self.lb(rg[0], d + 1)
            p = norm(t[1])
            if _is(p, "checked_add") and len(p[2]) == 2:
                return self.lb(_args(p)[0], d + 1) + self.lb(_args(p)[1], d + 1)
            if _is(p, "try_from", "try_into") and len(p[2]) == 1:
                return self.lb(_args(p)[0], d + 1)
        return 0

    # ------------------------------------------------------------------ ordering
    def le(self, a, c, d=0):
        a, c = norm(a), norm(c)
        if a == c:
            return True
        k = ('le', a, c)
        if k in self.memo:
            return self.memo[k]
        self.memo[k] = False
        r = self._le(a, c, d)
        self.memo[k] = r
        return r

    def _le(self, a, c, d):
        ua = self.ub(a)
        if ua is not None and ua <= self.lb(c):
            return True
        if d > 5:
            return False
        if _is(a, "rem") and len(a[2]) == 2 and _is(c, "get") and "NonZero" in canon(c[1]) and len(c[2]) == 1 and _args(a)[1] == _args(c)[0]:
            return True     # x % nz <= nz.get() (strictly below, see _lt)
        # ---- structure of the smaller side: a <= X for a known X, then X <= c
        for x in self._uppers(a):
            if self.le(x, c, d + 1):
                return True
        # ---- structure of the larger side: Y <= c for a known Y, then a <= Y
        for y in self._lowers(c):
            if self.le(a, y, d + 1):
                return True
        # ---- a < X (strictly) and X <= c + 1 ... only the integer form a < X  =>  a <= X - 1 is used through facts below
        for op, x, y in self.nfacts:
            if x == a and op in ('Le', 'Lt', 'Eq') and y != a and self.le(y, c, d + 1):
                return True
            if y == a and op in ('Ge', 'Gt', 'Eq') and x != a and self.le(x, c, d + 1):
                return True
            if y == c and op in ('Le', 'Lt', 'Eq') and x != c and self.le(a, x, d + 1):
                return True
            if x == c and op in ('Ge', 'Gt', 'Eq') and y != c and self.le(a, y, d + 1):
                return True
        # a = x + 1 <= c  when  x < c  (integers)
        if a[0] == 'bin' and a[1] == 'Add':
            for x, y in ((a[2], a[3]), (a[3], a[2])):
                if self.const(norm(y)) == 1 and self.lt(x, c, d + 1):
                    return True
        # a = x + y <= c  when  y <= c - x  and  x <= c
        if a[0] == 'bin' and a[1] == 'Add':
            for x, y in ((a[2], a[3]), (a[3], a[2])):
                if self.le(x, c, d + 1) and self.le(y, norm(('bin', 'Sub', c, x)), d + 1):
                    return True
        # a = p - q  and  c = r - q  with p <= r   (same subtrahend)
        if a[0] == 'bin' and c[0] == 'bin' and a[1] == c[1] == 'Sub' and norm(a[3]) == norm(c[3]) and self.le(a[2], c[2], d + 1):
            return True
        # a = p + q  and  c = r + q  with p <= r   (c is known not to overflow: it has its own edge)
        if a[0] == 'bin' and c[0] == 'bin' and a[1] == c[1] == 'Add':
            for i, j in ((2, 2), (2, 3), (3, 2), (3, 3)):
                if norm(a[i]) == norm(c[j]) and self.le(a[5 - i], c[5 - j], d + 1):
                    return True
        return False

    def _uppers(self, a):
        """terms X with a <= X by the meaning of a's outermost operator"""
        out = []
        if a[0] == 'bin':
            op, x, y = a[1], norm(a[2]), norm(a[3])
            if op in ('Sub', 'Div', 'Shr'):
                out.append(x)
            elif op == 'BitAnd':
                out += [x, y]
            elif op == 'Rem':
                out += [x, y]
        elif a[0] == 'call':
            n = _last(a[1])
            g = _args(a)
            if n == "min" and len(g) == 2:
                out += g
            elif n in ("saturating_sub", "div", "checked_div", "div_euclid", "div_ceil") and len(g) == 2:
                out.append(g[0])
            elif n in ("rem", "rem_euclid") and len(g) == 2:
                out += g
            elif n == "from" and len(g) == 1:
                out.append(g[0])
            elif n == "partition_point" and g:
                out.append(('len', container(g[0])))
            elif n in ("len", "count") and len(g) == 1 and ("ExactSizeIterator" in str(a[1]) or "Iterator::count" in canon(a[1])):
                c_ = iter_count(g[0])
                if c_ is not None:
                    out.append(c_)          # the length of an iterator chain is its item count (min over take / zip)
            elif n == "position" and g and False:
                pass
        elif a[0] == 'narrow':
            out.append(a[2])
        elif a[0] == 'field' and a[2] == '0' and enum_index_count(a) is not None:
            out.append(enum_index_count(a))                 # index of an enumerated item: i < count (strictness used in lt)
        elif a[0] == 'vfield' and a[2] == 'Err' and _search_hay(a[1]) is not None:
            out.append(('len', _search_hay(a[1])))         # binary search: Err(i) has i <= len
        elif a[0] == 'ok':
            rg = _range_of_item(a)
            if rg:
                out.append(rg[1])
            p = norm(a[1])
            if _search_hay(p) is not None:
                out.append(('len', _search_hay(p)))         # Ok(i): i < len (strictness used in lt)
            if _is(p, "checked_sub", "checked_div", "checked_rem") and len(p[2]) == 2:
                out.append(_args(p)[0])
            if _is(p, "try_from", "try_into") and len(p[2]) == 1:
                out.append(_args(p)[0])
        return out

    def _lowers(self, c):
        """terms Y with Y <= c by the meaning of c's outermost operator"""
        out = []
        if c[0] == 'bin':
            op, x, y = c[1], norm(c[2]), norm(c[3])
            if op in ('Add', 'BitOr'):          # a checked Add (its overflow is its own edge)
                out += [x, y]
            elif op == 'Mul':
                if self.lb(y) >= 1:
                    out.append(x)
                if self.lb(x) >= 1:
                    out.append(y)
        elif c[0] == 'call':
            n = _last(c[1])
            g = _args(c)
            if n == "max" and len(g) == 2:
                out += g
            elif n == "saturating_add" and len(g) == 2:
                out += g
            elif n == "from" and len(g) == 1:
                out.append(g[0])
        elif c[0] == 'ok':
            p = norm(c[1])
            if _is(p, "checked_add") and len(p[2]) == 2:
                out += _args(p)
            if _is(p, "checked_mul") and len(p[2]) == 2:
                g = _args(p)
                if self.lb(g[1]) >= 1:
                    out.append(g[0])
                if self.lb(g[0]) >= 1:
                    out.append(g[1])
            rg = _range_of_item(c)
            if rg:
                out.append(rg[0])
            if _is(p, "try_from", "try_into") and len(p[2]) == 1:
                out.append(_args(p)[0])
        return out

    def lt(self, a, c, d=0):
        a, c = norm(a), norm(c)
        if a == c:
            return False
        k = ('lt', a, c)
        if k in self.memo:
            return self.memo[k]
        self.memo[k] = False
        r = self._lt(a, c, d)
        self.memo[k] = r
        return r

    def _lt(self, a, c, d):
        ua = self.ub(a)
        if ua is not None and ua < self.lb(c):
            return True
        if d > 4:
            return False
        for op, x, y in self.nfacts:
            if x == a and op == 'Lt' and self.le(y, c, d + 1):
                return True
            if y == a and op == 'Gt' and self.le(x, c, d + 1):
                return True
            if y == c and op == 'Lt' and self.le(a, x, d + 1):
                return True
            if x == c and op == 'Gt' and self.le(a, y, d + 1):
                return True
            if x == a and op in ('Le', 'Eq') and y != a and self.lt(y, c, d + 1):
                return True
            if y == a and op in ('Ge', 'Eq') and x != a and self.lt(x, c, d + 1):
                return True
        # a = x % m, x & (m-1) handled by ub; a = item of lo..hi  => a < hi
        if a[0] == 'ok':
            rg = _range_of_item(a)
            if rg and not rg[2] and self.le(rg[1], c, d + 1):
                return True
        if a[0] == 'field' and a[2] == '0':
            n_ = enum_index_count(a)
            if n_ is not None and self.le(n_, c, d + 1):
                return True
        if a[0] == 'bin' and a[1] == 'Rem' and self.le(a[3], c, d + 1):
            return True
        if _is(a, "rem", "rem_euclid") and len(a[2]) == 2 and self.le(_args(a)[1], c, d + 1):
            return True
        if _is(a, "rem") and len(a[2]) == 2 and _is(c, "get") and "NonZero" in canon(c[1]) and len(c[2]) == 1 and _args(a)[1] == _args(c)[0]:
            return True     # x % nz < nz.get()  (`usize % NonZeroUsize`: the divisor is the wrapped value)
        if a[0] == 'ok':
            p = norm(a[1])
            if _search_hay(p) is not None and self.le(('len', _search_hay(p)), c, d + 1):
                return True
            if _is(p, "checked_sub") and len(p[2]) == 2 and self.nonzero(_args(p)[1]) and self.le(_args(p)[0], c, d + 1):
                return True
        # a = x - y with y != 0 and x <= c
        if a[0] == 'bin' and a[1] == 'Sub' and self.nonzero(a[3]) and self.le(a[2], c, d + 1):
            return True
        if _is(a, "min") and len(a[2]) == 2 and any(self.lt(x, c, d + 1) for x in _args(a)):
            return True
        # c = x + y (checked) with a <= x and y != 0
        if c[0] == 'bin' and c[1] == 'Add':
            x, y = norm(c[2]), norm(c[3])
            if (self.le(a, x, d + 1) and self.nonzero(y)) or (self.le(a, y, d + 1) and self.nonzero(x)):
                return True
        for x in self._uppers(a):
            if self.lt(x, c, d + 1):
                return True
        return False

    def nonzero(self, a):
        a = norm(a)
        if self.lb(a) >= 1:
            return True
        for op, x, y in self.nfacts:
            if op == 'Ne' and ((x == a and self.const(y) == 0) or (y == a and self.const(x) == 0)):
                return True
            if (op == 'Gt' and x == a) or (op == 'Lt' and y == a):
                return True
            if op == 'Ge' and x == a and self.lb(y) >= 1:
                return True
            if op == 'Le' and y == a and self.lb(x) >= 1:
                return True
        if a[0] == 'bin' and a[1] in ('Add', 'BitOr') and (self.nonzero(a[2]) or self.nonzero(a[3])):
            return True
        if a[0] == 'bin' and a[1] == 'Mul' and self.nonzero(a[2]) and self.nonzero(a[3]):
            return True
        if a[0] == 'bin' and a[1] == 'Shl' and self.const(a[2]) == 1:
            return True
        if a[0] == 'bin' and a[1] == 'Sub' and self.lt(a[3], a[2]):
            return True
        if _is(a, "max") and any(self.nonzero(x) for x in _args(a)):
            return True
        if _is(a, "min") and all(self.nonzero(x) for x in _args(a)):
            return True
        if _is(a, "div_ceil") and len(a[2]) == 2 and self.nonzero(_args(a)[0]):
            return True
        return False

    def refutes(self, op, x, y):
        """the comparison `x op y` cannot hold"""
        x, y = norm(x), norm(y)
        if op == 'Gt':
            return self.le(x, y)
        if op == 'Ge':
            return self.lt(x, y)
        if op == 'Lt':
            return self.le(y, x)
        if op == 'Le':
            return self.lt(y, x)
        if op == 'Ne':
            return x == y or (self.le(x, y) and self.le(y, x))
        if op == 'Eq':
            return self.lt(x, y) or self.lt(y, x)
        return False

    # ------------------------------------------------------------------ edge lemmas
    def add_fits(self, a, c):
        """a + c cannot overflow u64/usize"""
        a, c = norm(a), norm(c)
        ua, uc = self.ub(a), self.ub(c)
        if ua is not None and uc is not None and ua + uc <= MAXU:
            return "interval: %d + %d fits" % (ua, uc)
        # p < X for a value X that exists, q <= 1: p + q <= X
        for p, q in ((a, c), (c, a)):
            uq = self.ub(q)
            if uq is not None and uq <= 1 and self._strictly_bounded(p):
                return "first operand is strictly below an existing value (index of an enumerated / ranged item, or a dominating `<`): adding at most 1 fits"
        # c <= X - a for some X (then a + c <= X, and X is a value that exists)
        for p, q in ((a, c), (c, a)):
            for cand in self._sub_terms_with(p, [q] + [y for _o, x, y in self.nfacts] + [x for _o, x, y in self.nfacts]):
                if self.le(q, cand):
                    return "second operand <= (X - first) for an existing X: the sum is at most X"
        return None

    def _strictly_bounded(self, p):
        if p[0] == 'field' and p[2] == '0' and enum_index_count(p) is not None:
            return True
        if p[0] == 'ok':
            rg = _range_of_item(p)
            if rg and not rg[2]:
                return True
        for op, x, y in self.nfacts:
            if (op == 'Lt' and x == p) or (op == 'Gt' and y == p):
                return True
        return False

    def _sub_terms_with(self, p, roots):
        """all subterms of the roots of the form X - p"""
        seen = []
        stack = [norm(r) for r in roots]
        n = 0
        while stack and n < 600:
            t = stack.pop()
            n += 1
            if not isinstance(t, tuple) or not t:
                continue
            if t[0] == 'bin' and t[1] == 'Sub' and t[3] == p and t not in seen:
                seen.append(t)
            if t[0] == 'call' and _last(t[1]) == "saturating_sub" and len(t[2]) == 2 and t[2][1] == p and t not in seen:
                seen.append(t)
            if t[0] == 'ok' and _is(t[1], "checked_sub") and len(t[1][2]) == 2 and t[1][2][1] == p and t not in seen:
                seen.append(t)
            stack.extend(children(t))
        return seen

    def mul_fits(self, a, c):
        ua, uc = self.ub(a), self.ub(c)
        if ua == 0 or uc == 0:
            return "one factor is 0"
        if ua is not None and uc is not None and ua * uc <= MAXU:
            return "interval: %d * %d fits" % (ua, uc)
        return None
