"""Form-independent view of what a function returns: a list of alternatives (pos, term), where

* a returned local that is assigned on several paths (match arms, early `let x = match ..`, the result of an inlined
  helper) is split into one alternative per definition, positioned at that definition (Body.return_terms does this for the
  whole return value; `alternatives` does it for such a local nested inside the returned term);
* `Option::map(x, f)` / `Result::map(x, f)` over an `x` whose alternatives are explicit `None`/`Some{v}`/`Ok{v}`/`Err{e}`
  aggregates is evaluated: `Some{f(v)}` / `None` ..., with the closure's (single-path) return term lifted into the parent.

The facts that hold for an alternative are `body.facts_at(pos)`: positioned at a definition they are a subset of what holds
at the actual return, so rules that demand facts stay sound; `match`, `if let`, `?`, early return and combinator forms of the
same function give the same alternatives."""
from .mir import deep_strip, canon, map_children, subterms, tstr
from .effects import subst


def _multi(b, t):
    return t[0] == 'var' and t[1] > b.arg_count and not b.partial_defs(t[1]) and len(b.defs(t[1])) >= 2


def alternatives(b, pos, t, depth=0, limit=24):
    """expand multiply-defined locals occurring inside `t`"""
    t = deep_strip(t)
    if depth > 3:
        return [(pos, t)]
    target = None
    for s in subterms(t):
        if isinstance(s, tuple) and s and _multi(b, s):
            target = s
            break
    if target is None:
        return [(pos, t)]
    out = []
    for p2, d in b.var_defs(target[1]):
        d = deep_strip(d)

        def rep(x):
            if x == target:
                return d
            if isinstance(x, tuple) and x and x[0] not in ('const', 'sym', 'fn', 'param', 'var', 'unknown'):
                return map_children(x, rep)
            return x
        t2 = rep(t)
        out.extend(alternatives(b, p2, t2, depth + 1, limit))
        if len(out) > limit:
            break
    return out


INFEASIBLE = ('infeasible',)


def simplify(t):
    """ok(Ok{x}) -> x ; field(tuple{a, b}, i) -> element ; ok(Err{..}) / ok(from_residual(..)) -> INFEASIBLE (the success payload
    of a value that is a failure on this alternative: the alternative cannot reach the use)"""
    t = deep_strip(t)
    if not isinstance(t, tuple) or not t or t[0] in ('const', 'sym', 'fn', 'param', 'var', 'unknown'):
        return t
    t = map_children(t, simplify)
    if any(c == INFEASIBLE for c in (t[1:] if t[0] != 'call' and t[0] != 'agg' else (t[2] if t[0] == 'call' else t[3]))):
        return INFEASIBLE
    if t[0] == 'ok':
        x = deep_strip(t[1])
        while x[0] == 'call' and canon(x[1]).endswith("Try::branch"):
            x = deep_strip(x[2][0])
        if x[0] == 'agg' and x[2] in ('Ok', 'Some', 'Continue') and len(x[3]) == 1:
            return x[3][0]
        if (x[0] == 'agg' and x[2] in ('Err', 'None', 'Break')) or (x[0] == 'call' and canon(x[1]).endswith("FromResidual::from_residual")):
            return INFEASIBLE
        return ('ok', x)
    if t[0] == 'field' and str(t[2]).isdigit():
        x = deep_strip(t[1])
        if x[0] == 'agg' and x[1] == 'tuple' and int(t[2]) < len(x[3]):
            return x[3][int(t[2])]
    return t


def feasible_alternatives(b, pos, t):
    out = []
    for p2, t2 in alternatives(b, pos, t):
        s = simplify(t2)
        if s != INFEASIBLE:
            out.append((p2, s))
    return out


def _apply_closure(prog, eff, clo_term, arg):
    cb = prog.by_id.get(clo_term[1]) if clo_term and clo_term[0] in ('agg',) else None
    if cb is None:
        return None
    rts = cb.return_terms()
    if len(rts) != 1:
        return None
    _pb, lt = eff.lift(cb, deep_strip(rts[0][1]))
    # captures the lift could not resolve (the closure of an inlined helper): the aggregate term itself lists what was captured
    caps = clo_term[3] if len(clo_term) > 3 else ()

    def cap(x):
        if isinstance(x, tuple) and x and x[0] == 'field' and isinstance(x[2], str) and x[2].isdigit():
            base = x[1]
            while isinstance(base, tuple) and base and base[0] in ('deref', 'ref'):
                base = base[1]
            if isinstance(base, tuple) and base[:2] == ('param', 1) and int(x[2]) < len(caps):
                return caps[int(x[2])]
        if isinstance(x, tuple) and x and x[0] not in ('const', 'sym', 'fn', 'param', 'var', 'unknown'):
            return map_children(x, cap)
        return x
    if caps:
        lt = cap(lt)
    # the closure's own first argument is its local 2
    return _subst_closure_arg(cb, lt, arg)


def _subst_closure_arg(cb, t, arg):
    def rep(x):
        if isinstance(x, tuple) and x and x[0] == 'param' and x[1] == 2 and len(x) > 2 and x[2] == cb.local_name(2):
            return arg
        if isinstance(x, tuple) and x and x[0] not in ('const', 'sym', 'fn', 'param', 'var', 'unknown'):
            return map_children(x, rep)
        return x
    return rep(t)


def outcomes(prog, eff, b):
    """[(pos, term, extra_facts)]: `extra_facts` are relations that hold for this alternative in addition to
    body.facts_at(pos) (used when a combinator over an opaque value is split symbolically into its two cases)."""
    from .checks import error_passthrough
    out = []
    for pos, t in b.return_terms():
        for p2, t2 in alternatives(b, pos, t):
            x = error_passthrough(t2)
            if x is not None and x[0] == 'call':
                # `X?` where X is itself a combinator chain (x.ok_or(e)?): its failure alternatives are what is returned here
                sub = _combinators(prog, eff, b, p2, x, 0)
                errs = [a for a in sub if deep_strip(a[1])[0] == 'agg' and deep_strip(a[1])[2] in ('Err', 'None')]
                if errs and all(deep_strip(a[1])[0] == 'agg' for a in sub):
                    out.extend(errs)
                    continue
                # `X?` on an opaque fallible call: the failure of X is returned (None for an Option, Err(e) for a Result)
                d2 = deep_strip(t2)
                tys = " ".join(str(s) for s in (d2[3] if len(d2) > 3 else ()))
                if "option::Option<" in tys and "result::Result<" not in tys.split("option::Option<")[0]:
                    out.append((p2, ('agg', _ADT["Option"], 'None', ()), (('discr', x, 0),)))
                    continue
            out.extend(_combinators(prog, eff, b, p2, t2, 0))
    return out


def facts_of(b, o, prog_eff=None):
    from .mir import rels_of_bool
    pos, _t, extra = o
    out = list(b.facts_at(pos))
    if prog_eff is not None:
        prog, eff = prog_eff
        for r in list(out):
            # `chain?` succeeded: what the chain's one success alternative requires holds (x.ok().filter(p).ok_or(e)? => p(v) is true)
            if r[0] == 'discr' and r[2] == 0 and deep_strip(r[1])[0] == 'call' and canon(deep_strip(r[1])[1]).endswith("Try::branch"):
                chain = deep_strip(deep_strip(r[1])[2][0])
                if chain[0] == 'call':
                    alts = _combinators(prog, eff, b, pos, chain, 0)
                    oks = [a for a in alts if deep_strip(a[1])[0] == 'agg' and deep_strip(a[1])[2] in ('Ok', 'Some')]
                    if len(oks) == 1 and all(deep_strip(a[1])[0] == 'agg' for a in alts):
                        extra = tuple(extra) + tuple(oks[0][2])
    from .mir import _signed_to_unsigned, _discr_twins
    for r in extra:
        if r[0] == 'bool':
            out.extend(rels_of_bool(r[1], r[2]))
        else:
            out.append(r)
            if r[0] == 'discr' and r[2] in (0, 1):
                # the same consequences a branch on this discriminant would have: a signed -> unsigned conversion fails exactly for
                # negative values; `y?` / ok_or / ok twins
                sg = _signed_to_unsigned(deep_strip(r[1]))
                if sg is not None:
                    out.append(('cmp', 'Ge' if r[2] == 0 else 'Lt', sg, ('const', 0)))
                out.extend(_discr_twins(deep_strip(r[1]), r[2]))
    return out


_VARIANT_IDX = {"Option": {"None": 0, "Some": 1}, "Result": {"Ok": 0, "Err": 1}}
_ADT = {"Option": "std::option::Option", "Result": "std::result::Result"}
_COMB = {("Option", "map"), ("Result", "map"), ("Option", "and_then"), ("Result", "and_then"), ("Option", "ok_or"), ("Option", "ok_or_else"),
         ("Result", "map_err"), ("Result", "ok"), ("Option", "filter")}


def _apply(prog, eff, f, arg):
    """f(arg) for a closure aggregate or a function item; None when it cannot be expressed as one term"""
    f = deep_strip(f)
    if f[0] == 'agg':
        return _apply_closure(prog, eff, f, arg)
    if f[0] == 'fn':
        last = str(f[1]).split("::")[-1]
        if last in ("Some", "Ok", "Err"):
            return ('agg', _ADT["Option" if last == "Some" else "Result"], last, (arg,))
        from .mir import strip_generics
        path = strip_generics(str(f[1]))
        if path in prog.adts:
            # a tuple-struct constructor used as a function: the same aggregate `Ctor(arg)` builds
            return ('agg', path, last, (arg,))
        return ('call', f[1], (arg,), ())
    return None


def _receiver_alts(prog, eff, b, pos, x, kind, depth):
    """alternatives of a combinator's receiver as explicit aggregates: [(pos, agg, extra_facts)] or None"""
    x = deep_strip(x)
    if x[0] == 'call' and len(x[2]) == 2 and canon(x[1]).split("::")[-1] in ("then_some", "then") and "bool" in canon(x[1]):
        sub = _combinators(prog, eff, b, pos, x, depth + 1)
        if len(sub) == 2 and all(deep_strip(a[1])[0] == 'agg' for a in sub):
            return sub
    if x[0] == 'call' and len(canon(x[1]).split("::")) >= 2 and tuple(canon(x[1]).split("::")[-2:]) in _COMB:
        sub = _combinators(prog, eff, b, pos, x, depth + 1)
        if all(deep_strip(a[1])[0] == 'agg' and deep_strip(a[1])[2] in ('Some', 'None', 'Ok', 'Err') for a in sub):
            return sub
        return None
    alts = alternatives(b, pos, x)
    if alts and not any(deep_strip(a[1])[0] == 'agg' for a in alts) and len(alts) > 1:
        # an opaque fallible call whose OPERANDS are assigned on several paths (a loop-carried total): still one opaque value
        alts = [(pos, x)]
    if len(alts) == 1 and deep_strip(alts[0][1])[0] != 'agg':
        xx = deep_strip(alts[0][1])
        okn, badn = ("Some", "None") if kind == "Option" else ("Ok", "Err")
        bad = ('agg', _ADT[kind], badn, ()) if kind == "Option" else ('agg', _ADT[kind], badn, (('vfield', xx, 'Err', 0),))
        return [(pos, ('agg', _ADT[kind], okn, (('ok', xx),)), (('discr', xx, _VARIANT_IDX[kind][okn]),)),
                (pos, bad, (('discr', xx, _VARIANT_IDX[kind][badn]),))]
    out = []
    for p2, xa in alts:
        xa = deep_strip(xa)
        if not (xa[0] == 'agg' and xa[2] in ('Some', 'None', 'Ok', 'Err')):
            return None
        out.append((p2, xa, ()))
    return out


def _combinators(prog, eff, b, pos, t, depth):
    """evaluate Option/Result combinators symbolically: a list of alternatives (pos, term, extra facts)"""
    t = deep_strip(t)
    if depth > 4 or t[0] != 'call' or not t[2]:
        return [(pos, t, ())]
    cn = canon(t[1]).split("::")
    key = tuple(cn[-2:]) if len(cn) >= 2 else None
    if cn[-1] in ("then_some", "then") and "bool" in canon(t[1]) and len(t[2]) == 2:
        # c.then_some(x) / c.then(|| x): Some(x) exactly when c
        c = deep_strip(t[2][0])
        v = t[2][1] if cn[-1] == "then_some" else _apply(prog, eff, deep_strip(t[2][1]), ('agg', 'tuple', None, ()))
        if v is not None:
            return [(pos, ('agg', _ADT["Option"], 'Some', (v,)), (('bool', c, True),)),
                    (pos, ('agg', _ADT["Option"], 'None', ()), (('bool', c, False),))]
    if key not in _COMB:
        return [(pos, t, ())]
    kind, op = key
    ralts = _receiver_alts(prog, eff, b, pos, t[2][0], kind, depth)
    if ralts is None:
        return [(pos, t, ())]
    f = deep_strip(t[2][1]) if len(t[2]) > 1 else None
    res = []
    for p2, xa, ex in ralts:
        xa = deep_strip(xa)
        good = xa[2] in ('Some', 'Ok')
        v = xa[3][0] if xa[3] else None
        if op == "map":
            if good:
                r = _apply(prog, eff, f, v)
                if r is None:
                    return [(pos, t, ())]
                res.append((p2, ('agg', xa[1], xa[2], (r,)), ex))
            else:
                res.append((p2, xa, ex))
        elif op == "and_then":
            if good:
                r = _apply(prog, eff, f, v)
                if r is None:
                    return [(pos, t, ())]
                for a in _combinators(prog, eff, b, p2, r, depth + 1):
                    res.append((a[0], a[1], tuple(ex) + tuple(a[2])))
            else:
                res.append((p2, xa, ex))
        elif op in ("ok_or", "ok_or_else"):
            if good:
                res.append((p2, ('agg', _ADT["Result"], 'Ok', (v,)), ex))
            else:
                e = f if op == "ok_or" else _apply(prog, eff, f, ('agg', 'tuple', None, ()))
                if e is None:
                    return [(pos, t, ())]
                res.append((p2, ('agg', _ADT["Result"], 'Err', (e,)), ex))
        elif op == "map_err":
            if good:
                res.append((p2, xa, ex))
            else:
                r = _apply(prog, eff, f, v)
                if r is None:
                    return [(pos, t, ())]
                res.append((p2, ('agg', xa[1], 'Err', (r,)), ex))
        elif op == "ok":
            res.append((p2, ('agg', _ADT["Option"], 'Some', (v,)) if good else ('agg', _ADT["Option"], 'None', ()), ex))
        elif op == "filter":
            if good:
                # the predicate receives a reference to the payload
                r = _apply(prog, eff, f, ('ref', v))
                if r is None:
                    return [(pos, t, ())]
                res.append((p2, xa, tuple(ex) + (('bool', deep_strip(r), True),)))
                res.append((p2, ('agg', _ADT["Option"], 'None', ()), tuple(ex) + (('bool', deep_strip(r), False),)))
            else:
                res.append((p2, xa, ex))
    return res


def map_view(prog, eff, b):
    """A body that forwards a fallible call and replaces its success value: either `inner.map(|_| payload)` or
    `inner?; Ok(payload)` (or the equivalent match). Returns (inner_call_term, payload_term) in b's own terms, or None."""
    from .checks import succeeded
    rts = b.return_terms()
    if len(rts) == 1:
        ct = deep_strip(rts[0][1])
        if ct[0] == 'call' and canon(ct[1]).endswith("Result::map") and len(ct[2]) == 2:
            inner = _unref(ct[2][0])
            clo2 = _unref(ct[2][1])
            cb2 = prog.by_id.get(clo2[1]) if clo2[0] == 'agg' else None
            if cb2 is None or inner[0] != 'call':
                return None
            r2 = cb2.return_terms()
            if len(r2) != 1:
                return None
            _p2, l2 = eff.lift(cb2, deep_strip(r2[0][1]))
            # captures of the inner closure are expressed in ITS parent's terms, which is b
            return inner, l2
    oks, inner = [], None
    for pos, t in rts:
        d = deep_strip(t)
        if d[0] == 'agg' and d[2] == 'Ok' and len(d[3]) == 1:
            oks.append((pos, d[3][0]))
        elif d[0] == 'call' and canon(d[1]).endswith("FromResidual::from_residual"):
            x = deep_strip(d[2][0])
            if x[0] == 'vfield' and x[2] == 'Break':
                br = deep_strip(x[1])
                if br[0] == 'call' and canon(br[1]).endswith("Try::branch"):
                    c = _unref(br[2][0])
                    if inner is None or inner == c:
                        inner = c
                        continue
            return None
        elif d[0] == 'agg' and d[2] == 'Err' and len(d[3]) == 1:
            # match form: Err(e) => Err(e) with e the inner call's own error
            x = deep_strip(d[3][0])
            if x[0] == 'vfield' and x[2] == 'Err':
                c = _unref(x[1])
                if inner is None or inner == c:
                    inner = c
                    continue
            return None
        else:
            return None
    if len(oks) != 1 or inner is None or inner[0] != 'call':
        return None
    pos, payload = oks[0]
    if inner not in [_unref(s) for s in succeeded(b, pos)]:
        return None
    return inner, payload


def _unref(t):
    t = deep_strip(t)
    while isinstance(t, tuple) and t and t[0] in ('ref', 'deref'):
        t = deep_strip(t[1])
    return t


def outcome_spec(ctx, prog, eff, rule, body, spec, want):
    from .pat import match
    """Form-independent delegation rule: the function's outcome table (rules/outcomes.py) must be exactly `spec`, a list of
    (term pattern, [required facts]) — every alternative the function can return matches one entry (with its facts present) and
    every entry is matched. A required fact is ('discr', pattern, variant index) or ('bool', pattern, truth)."""
    if body is None:
        ctx.ob(rule, want.split(" ")[0] if want else "?", False, "", "anchor body not found")
        return False
    outs = outcomes(prog, eff, body)
    used = set()
    bad = []
    for o in outs:
        d = deep_strip(o[1])
        facts = facts_of(body, o)
        hit = None
        for i, (pat, need) in enumerate(spec):
            env = {}
            if not match(pat, d, env):
                continue
            good = True
            for n in need:
                if not any(r[0] == n[0] and r[2] == n[2] and match(n[1], r[1], dict(env)) for r in facts):
                    good = False
            if good:
                hit = i
                break
        if hit is None:
            bad.append(tstr(d)[:160])
        else:
            used.add(hit)
    ok = not bad and len(used) == len(spec)
    ctx.ob(rule, body.key, ok, body.where(),
           f"outcomes: {[tstr(deep_strip(o[1]))[:100] for o in outs]}" + (f"; not allowed by the rule: {bad}" if bad else "") +
           (f"; missing: {len(spec) - len(used)} required outcome(s)" if len(used) != len(spec) else "") + f"; required: {want}")
    return ok
