"""Iterator loops as the resolved program shows them: `for pat in CHAIN { .. }` is a natural loop whose header calls
`Iterator::next(&mut CHAIN)` and leaves on the `None` arm.

    iter_loops(b)             the iterator loops of a body: header, blocks, latches, the `next` call, the chain term, whether the
                              None arm is the only way out (no break / return inside), and the symbolic item count of the chain
                              (bounds.iter_count: adaptors looked through, `take(n)` / `zip` are minima)
    enum_index_of(loop, t)    t is the index part of this loop's `(i, item)` pattern (chain ends in `.enumerate()`)
    counts_iterations(b, loop, pos, t)
                              the definition `v = i + 1` at `pos`, executed on every iteration of a loop that can only be left through
                              the None arm: after the loop v is the number of items the chain yielded (with the initial value 0 for the
                              empty chain) — the `enumerate()` spelling of a bumped counter / of `ptr.offset_from(start)`

Nothing is executed; these are facts about the shape of the CFG and the meaning of the std adaptors."""
from .mir import canon, deep_strip
from .pat import unref
from .bounds import iter_count, enum_index_count, norm


def natural_loops(b):
    hdrs = {}
    for (u, v) in b.loops():
        hdrs.setdefault(v, []).append(u)
    out = []
    for h, latches in sorted(hdrs.items()):
        blocks = [h] + [x for x in b.live_blocks() if x != h and any(u in b.reachable(x, removed_nodes=(h,)) for u in latches)]
        out.append((h, latches, blocks))
    return out


def iter_loops(b, eff=None):
    out = []
    for h, latches, blocks in natural_loops(b):
        nxt = [c for c in b.calls() if c.bb in blocks and canon(c.target or "").endswith("::next")]
        if len(nxt) != 1:
            continue
        c = nxt[0]
        chain = unref(c.args()[0])
        t = eff.inline(chain) if eff is not None else chain
        # the block that switches on next()'s discriminant is the only one allowed to leave the loop
        exits = [(u, w) for u in blocks for w in b.succ(u) if w not in blocks]
        sw = c.t.get("t")
        # (the `unreachable` otherwise-arm of the match on Option's discriminant also leaves from there)
        only_header = bool(exits) and all(u == sw for u, _w in exits) and b.blocks[sw]["term"]["k"] == "switch"
        out.append({"header": h, "latches": latches, "blocks": blocks, "next": c, "chain": chain, "count": iter_count(t),
                    "exits_only_on_none": only_header})
    return out


def _next_of(t):
    """t == ok(next(CHAIN)).0 -> the next call term"""
    t = norm(t)
    if t[0] == 'field' and t[2] == '0' and isinstance(t[1], tuple) and t[1][0] == 'ok':
        x = norm(t[1][1])
        if x[0] == 'call' and canon(x[1]).endswith("::next"):
            return x
    return None


def enum_index_of(b, loop, t):
    """t is the enumerate index of THIS loop's item"""
    x = _next_of(t)
    if x is None or enum_index_count(t) is None:
        return False
    mine = norm(deep_strip(b.call_term(loop["next"].t, loop["next"].pos, 0)))
    return x == mine


def counts_iterations(b, loop, pos, t):
    """definition `v = <index of this loop's item> + 1` at pos, on every iteration, in a loop left only through the None arm"""
    t = norm(t)
    if t[0] != 'bin' or t[1] != 'Add':
        return False
    ops = [t[2], t[3]]
    one = [o for o in ops if o == ('const', 1)]
    idx = [o for o in ops if o != ('const', 1)]
    if len(one) != 1 or len(idx) != 1 or not enum_index_of(b, loop, idx[0]):
        return False
    if not loop["exits_only_on_none"] or pos[0] not in loop["blocks"]:
        return False
    return all(b.node_dominates(pos[0], u) for u in loop["latches"])


def final_count_var(b, loop, v):
    """v = ('var', l, ..) with exactly two definitions: the constant 0 before the loop and `i + 1` on every iteration
    (counts_iterations): read after the loop it is the number of items the chain yielded"""
    v = norm(v)
    if v[0] != 'var':
        return False
    ds = b.var_defs(v[1])
    if len(ds) != 2 or b.partial_defs(v[1]):
        return False
    init = [(p, t) for p, t in ds if p[0] not in loop["blocks"]]
    step = [(p, t) for p, t in ds if p[0] in loop["blocks"]]
    if len(init) != 1 or len(step) != 1:
        return False
    (pi, ti), (ps, ts) = init[0], step[0]
    return norm(ti) == ('const', 0) and b.node_dominates(pi[0], loop["header"]) and counts_iterations(b, loop, ps, ts)


def chain_len_term(b, loop, t):
    """t == ExactSizeIterator::len(&X) where X is the very iterator value this loop then consumes (`let it = ..; let n = it.len();
    for x in it { .. }`): the number of items the loop will see — and, when the loop can only be left through the None arm, has seen"""
    t = norm(t)
    if not (t[0] == 'call' and len(t[2]) == 1 and canon(t[1]).split("::")[-1] == "len" and "ExactSizeIterator" in str(t[1])):
        return False
    x = norm(t[2][0])
    chain = norm(loop["chain"])
    while chain[0] == 'call' and chain[2] and canon(chain[1]).split("::")[-1] in ("into_iter", "by_ref"):
        chain = norm(chain[2][0])
    return x == chain and loop["exits_only_on_none"]


def counts_items(b, loop, t):
    """t is the number of items this loop handles: a final_count_var or the ExactSizeIterator::len of the consumed iterator"""
    return final_count_var(b, loop, t) or chain_len_term(b, loop, t)
