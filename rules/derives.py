"""`#[derive(..)]` or a hand-written impl that does what the derive would do.

Several type-level rules (C11 R11.4, C19 R19.2, C20 R20.3, C10 R10.1) rely on what a derived impl means — a field-wise clone shares
the `Arc`, a derived order on a single-field struct is the order of the field, .. . Replacing the derive by the identical hand-written
impl changes nothing for a user; what matters is the BODY. `like_derive(prog, adt, trait)` accepts

    the derive itself;
    marker traits (Copy, Eq, StructuralPartialEq) — no body to differ;
    Clone::clone      = `*self` (for a Copy type) or `Adt { f: Clone::clone(&self.f), .. }` over every field;
    Default::default  = `Adt { f: Default::default(), .. }` over every field;
    PartialEq::eq     = `self.f == other.f` (single-field type), either as the operator or as PartialEq::eq(&self.f, &other.f);
    Ord::cmp          = `Ord::cmp(&self.f, &other.f)` (single-field type);
    PartialOrd::partial_cmp = `PartialOrd::partial_cmp(&self.f, &other.f)` or `Some(Ord::cmp(self, other))`;
    Debug             — formatting is not part of any property: any one impl.

Anything else (a clone that rebuilds a field, an order that reverses or ignores it) is reported with the return term found.
Returns (ok, detail)."""
from .mir import canon, tstr
from .pat import unref

MARKERS = ("std::marker::Copy", "std::cmp::Eq", "std::marker::StructuralPartialEq")


def _self_field(t, param):
    """t == [&] (*param).f  -> f"""
    t = _noref(t)
    if t[0] == 'field' and _noref(t[1])[:2] == ('param', param):
        return t[2]
    return None


def _noref(t):
    """strip references and dereferences only: a cast changes the value that is compared / cloned"""
    while isinstance(t, tuple) and t and t[0] in ('ref', 'deref'):
        t = t[1]
    return t


def _is_call(t, *suffixes):
    return t[0] == 'call' and any(canon(t[1]).endswith(s) for s in suffixes)


def like_derive(prog, adt, trait, same_self_args=False):
    ims = prog.adt_impls(adt, trait)
    if same_self_args:
        ims = [i for i in ims if all(x == i["self_ty"] for x in i.get("trait_args", []))]
    if len(ims) != 1:
        return False, f"{len(ims)} impl(s) of {trait}"
    im = ims[0]
    if im["derived"]:
        return True, "derived"
    if trait in MARKERS:
        return True, "hand-written impl of a marker trait (no body)"
    if trait == "std::fmt::Debug":
        return True, "hand-written Debug (formatting is outside the property)"
    a = prog.adts.get(adt)
    if not a or a["kind"] != "struct":
        return False, "hand-written impl on a non-struct type"
    fields = [f["name"] if f.get("name") is not None else str(i) for i, f in enumerate(a["variants"][0]["fields"])]
    want = {"std::clone::Clone": "clone", "std::default::Default": "default", "std::cmp::PartialEq": "eq", "std::cmp::Ord": "cmp",
            "std::cmp::PartialOrd": "partial_cmp"}.get(trait)
    if want is None:
        return False, f"hand-written impl of {trait}: no equivalence rule"
    items = [it for it in im.get("items", []) if it["kind"] == "AssocFn"]
    extra = [it["name"] for it in items if it["name"] != want]
    if extra:
        return False, f"hand-written impl overrides {extra} as well"
    bs = [b for b in prog.bodies if b.id == [it["path"] for it in items if it["name"] == want][0]] if any(it["name"] == want for it in items) else []
    if len(bs) != 1:
        return False, f"body of {want} not found"
    b = bs[0]
    rts = [_noref(t) for _p, t in b.return_terms()]
    if len(rts) != 1:
        return False, f"{want} has {len(rts)} return terms"
    r = rts[0]
    shown = tstr(r)[:120]

    def agg_fields(r):
        if r[0] == 'agg' and len(r) > 3 and len(r[3]) == len(fields):
            return list(r[3])
        return None
    if want == "clone":
        if r[:2] == ('param', 1) or (r[0] == 'deref' and _noref(r[1])[:2] == ('param', 1)):
            ok = bool(prog.adt_impls(adt, "std::marker::Copy"))
            return ok, f"clone returns *self (Copy type: {ok})"
        fs = agg_fields(r)
        if fs is not None:
            got = []
            for x in fs:
                x = _noref(x)
                got.append(_self_field(x[2][0], 1) if _is_call(x, "::clone") and len(x[2]) == 1 else None)
            ok = got == fields
            return ok, f"clone builds the value from {got} (field-wise clone of {fields}: {ok}); term {shown}"
        return False, f"clone returns {shown}"
    if want == "default":
        fs = agg_fields(r)
        if fs is not None:
            ok = all(_is_call(_noref(x), "Default::default", "::default") and not _noref(x)[2] for x in fs)
            return ok, f"default builds every field with Default::default(): {ok}; term {shown}"
        return False, f"default returns {shown}"
    if len(fields) != 1:
        return False, f"hand-written {want} on a type with {len(fields)} fields"
    f0 = fields[0]
    if want == "eq":
        if r[0] == 'bin' and r[1] == 'Eq' and {_self_field(r[2], 1), _self_field(r[3], 1), _self_field(r[2], 2), _self_field(r[3], 2)} >= {f0} and \
                ((_self_field(r[2], 1) == f0 and _self_field(r[3], 2) == f0) or (_self_field(r[2], 2) == f0 and _self_field(r[3], 1) == f0)):
            return True, "eq compares the single field of both operands"
        if _is_call(r, "PartialEq::eq", "::eq") and len(r[2]) == 2 and _self_field(r[2][0], 1) == f0 and _self_field(r[2][1], 2) == f0:
            return True, "eq forwards to the field's eq"
        return False, f"eq returns {shown}"
    if want == "cmp":
        if _is_call(r, "::cmp") and len(r[2]) == 2 and _self_field(r[2][0], 1) == f0 and _self_field(r[2][1], 2) == f0:
            return True, "cmp is the order of the single field, self before other"
        return False, f"cmp returns {shown}"
    if want == "partial_cmp":
        if _is_call(r, "::partial_cmp") and len(r[2]) == 2 and _self_field(r[2][0], 1) == f0 and _self_field(r[2][1], 2) == f0:
            return True, "partial_cmp is the order of the single field, self before other"
        if r[0] == 'agg' and r[2] == 'Some' and len(r[3]) == 1:
            c = _noref(r[3][0])
            if _is_call(c, "::cmp") and len(c[2]) == 2 and _noref(c[2][0])[:2] == ('param', 1) and _noref(c[2][1])[:2] == ('param', 2):
                return True, "partial_cmp = Some(self.cmp(other))"
        return False, f"partial_cmp returns {shown}"
    return False, "no rule"
