"""Checker self-test: apply each sensitivity mutant to a scratch copy of /repo's working tree, run the
property's quick check against it, and demand that the expected rule reports it. A missed mutant is a
checker defect (SELFTEST-MISS), never a VIOLATION of the repository."""
import concurrent.futures as cf
import importlib.util
import os
import shutil
import subprocess
import sys
import tempfile

from . import facts

VERIF = facts.VERIF


def load_mutants():
    spec = importlib.util.spec_from_file_location("mutants", os.path.join(VERIF, "sensitivity", "mutants.py"))
    mod = importlib.util.module_from_spec(spec)
    spec.loader.exec_module(mod)
    return mod.M


def load_refactors():
    spec = importlib.util.spec_from_file_location("refactors", os.path.join(VERIF, "sensitivity", "refactors.py"))
    mod = importlib.util.module_from_spec(spec)
    spec.loader.exec_module(mod)
    return mod.R


def run_refactor(rf, pid):
    """behaviour-preserving rewrite: the check must stay silent"""
    m = dict(rf, expect="<none>")
    st, info = run_one(m, pid)
    if st == "skipped":
        return "skipped", info
    if st == "missed":
        return "silent", ""
    return "false_alarm", info


def refactors_main(pids):
    rfs = load_refactors()
    bad = 0
    jobs = [(rf, pid) for rf in rfs for pid in rf["props"] if not pids or pid in pids]
    with cf.ThreadPoolExecutor(max_workers=6) as ex:
        futs = {ex.submit(run_refactor, rf, pid): (rf, pid) for rf, pid in jobs}
        for f in cf.as_completed(futs):
            rf, pid = futs[f]
            st, info = f.result()
            if st == "false_alarm":
                bad += 1
                print(f"FALSE-ALARM: {pid} on behaviour-preserving rewrite {rf['id']}: {info}")
            elif st == "skipped":
                print(f"   skipped {rf['id']} [{pid}]: {info}")
    print(f"refactors: {len(jobs)} (rewrite, check) pairs, {bad} false alarm(s)")
    return 1 if bad else 0


def run_one(mut, pid):
    d = tempfile.mkdtemp(prefix="vmself-")
    try:
        repo = os.path.join(d, "repo")
        shutil.copytree(facts.REPO, repo, ignore=shutil.ignore_patterns("target", ".git"))
        p = os.path.join(repo, mut["file"])
        if not os.path.exists(p):
            return "skipped", "file missing"
        s = open(p).read()
        n = s.count(mut["old"])
        if n == 0:
            return "skipped", "pattern no longer present"
        if mut["occ"] is None:
            if n > 1:
                return "skipped", f"pattern occurs {n} times"
            s = s.replace(mut["old"], mut["new"])
        else:
            parts = s.split(mut["old"])
            if mut["occ"] + 1 >= len(parts):
                return "skipped", "occurrence out of range"
            s = mut["old"].join(parts[:mut["occ"] + 1]) + mut["new"] + mut["old"].join(parts[mut["occ"] + 1:])
        open(p, "w").write(s)
        env = dict(os.environ, VERIF_REPO=repo, VERIF_OUT=os.path.join(d, "out"), VERIF_TIER="quick")
        r = subprocess.run([os.path.join(VERIF, "check"), pid, "--tier", "quick"], env=env, cwd=VERIF, stdout=subprocess.PIPE, stderr=subprocess.STDOUT, text=True)
        out = r.stdout
        if "FATAL: facts generation failed" in out:
            return "skipped", "mutant does not compile"
        hit = any(l.strip().startswith("rule " + mut["expect"]) for l in out.splitlines())
        if r.returncode == 1 and hit:
            return "detected", mut["expect"]
        if r.returncode == 1:
            rules = sorted({l.strip().split(" ")[1] for l in out.splitlines() if l.strip().startswith("rule ")})
            return "detected_other", ",".join(rules)
        return "missed", out[-300:]
    finally:
        shutil.rmtree(d, ignore_errors=True)


def run_patch(patch, pid):
    """apply a unified diff to a scratch copy and run one quick check: returns (status, rules) with status in alarm|silent|skipped"""
    d = tempfile.mkdtemp(prefix="vmself-")
    try:
        repo = os.path.join(d, "repo")
        shutil.copytree(facts.REPO, repo, ignore=shutil.ignore_patterns("target", ".git"))
        r = subprocess.run(["patch", "-p1", "-s", "-i", patch], cwd=repo, capture_output=True, text=True)
        if r.returncode != 0:
            return "skipped", "patch no longer applies"
        env = dict(os.environ, VERIF_REPO=repo, VERIF_OUT=os.path.join(d, "out"), VERIF_TIER="quick")
        r = subprocess.run([os.path.join(VERIF, "check"), pid, "--tier", "quick"], env=env, cwd=VERIF, stdout=subprocess.PIPE, stderr=subprocess.STDOUT, text=True)
        if "FATAL: facts generation failed" in r.stdout:
            # under heavy parallel load a cargo invocation can fail spuriously: try once more before calling it uncompilable
            r = subprocess.run([os.path.join(VERIF, "check"), pid, "--tier", "quick"], env=env, cwd=VERIF, stdout=subprocess.PIPE, stderr=subprocess.STDOUT, text=True)
        if "FATAL: facts generation failed" in r.stdout:
            return "skipped", "does not compile"
        rules = sorted({l.strip().split(" ")[1] for l in r.stdout.splitlines() if l.strip().startswith("rule ")})
        return ("alarm" if r.returncode == 1 else "silent"), ",".join(rules)
    finally:
        shutil.rmtree(d, ignore_errors=True)


def run_replays_for(pid, ctx=None, workers=6):
    """thorough tier: replay (a) the stored seeded changes that break `pid` (the check must alarm) and (b) the stored
    behaviour-preserving rewrites anchored in `pid`'s code (the check must stay silent), each on its own scratch copy."""
    import glob
    import json
    seeded = []
    for mf in sorted(glob.glob(os.path.join(VERIF, "seeded", "*", "meta.json"))):
        m = json.load(open(mf))
        if m.get("breaks_property") == pid:
            seeded.append((m["id"], os.path.join(os.path.dirname(mf), "patch.diff")))
    agent_rf = []
    for mf in sorted(glob.glob(os.path.join(VERIF, "refactors", "*", "meta.json"))):
        m = json.load(open(mf))
        if pid in m.get("checks", []) and m.get("written_for_property") == pid:      # full matrix: ./check selftest --agent-refactors
            agent_rf.append((m["id"], os.path.join(os.path.dirname(mf), "patch.diff")))
    rfs = [rf for rf in load_refactors() if pid in rf["props"]]
    res = {"seeded": {"applied": 0, "reported": 0, "missed": [], "skipped": []},
           "rewrites": {"applied": 0, "silent": 0, "false_alarms": [], "skipped": []}}
    with cf.ThreadPoolExecutor(max_workers=workers) as ex:
        fs = {ex.submit(run_patch, p, pid): ("seeded", i) for i, p in seeded}
        fs.update({ex.submit(run_patch, p, pid): ("rewrite", i) for i, p in agent_rf})
        fs.update({ex.submit(run_refactor, rf, pid): ("rewrite1", rf["id"]) for rf in rfs})
        for f in cf.as_completed(fs):
            kind, i = fs[f]
            st, info = f.result()
            if kind == "seeded":
                if st == "skipped":
                    res["seeded"]["skipped"].append(f"{i}: {info}")
                    continue
                res["seeded"]["applied"] += 1
                if st == "alarm":
                    res["seeded"]["reported"] += 1
                else:
                    res["seeded"]["missed"].append(i)
                    print(f"SELFTEST-MISS: property={pid} seeded change {i} not reported")
            else:
                if st == "skipped":
                    res["rewrites"]["skipped"].append(f"{i}: {info}")
                    continue
                res["rewrites"]["applied"] += 1
                if st in ("silent",):
                    res["rewrites"]["silent"] += 1
                else:
                    res["rewrites"]["false_alarms"].append(f"{i}: {info}")
                    print(f"SELFTEST-FALSE-ALARM: property={pid} behaviour-preserving rewrite {i}: {info}")
    if ctx is not None:
        ctx.extra["seeded_changes_replayed"] = res["seeded"]
        ctx.extra["behaviour_preserving_rewrites_replayed"] = res["rewrites"]
    return res


def run_for(pid, ctx=None, workers=6):
    muts = [m for m in load_mutants() if pid in m["props"]]
    res = {"applied": 0, "detected": 0, "detected_by_other_rule": 0, "missed": [], "skipped": []}
    with cf.ThreadPoolExecutor(max_workers=workers) as ex:
        futs = {ex.submit(run_one, m, pid): m for m in muts}
        for f in cf.as_completed(futs):
            m = futs[f]
            st, info = f.result()
            if st == "skipped":
                res["skipped"].append(f"{m['id']}: {info}")
                continue
            res["applied"] += 1
            if st == "detected":
                res["detected"] += 1
            elif st == "detected_other":
                res["detected"] += 1
                res["detected_by_other_rule"] += 1
            else:
                res["missed"].append(m["id"])
                print(f"SELFTEST-MISS: property={pid} mutant={m['id']} expected rule {m['expect']} did not fire")
    if ctx is not None:
        ctx.mutants = res
    return res


def seeded_main(ids):
    """every stored seeded change must be reported by the check of the property it breaks (scratch copies; /repo untouched)"""
    import glob
    import json
    jobs = []
    for mf in sorted(glob.glob(os.path.join(VERIF, "seeded", "*", "meta.json"))):
        m = json.load(open(mf))
        if ids and m["id"] not in ids:
            continue
        jobs.append((m["id"], m["breaks_property"], os.path.join(os.path.dirname(mf), "patch.diff")))
    bad = 0
    with cf.ThreadPoolExecutor(max_workers=6) as ex:
        futs = {ex.submit(run_patch, p, pid): (i, pid) for i, pid, p in jobs}
        for f in cf.as_completed(futs):
            i, pid = futs[f]
            st, info = f.result()
            if st != "alarm":
                bad += 1
                print(f"SEEDED-MISS: {i} (breaks {pid}): {st} {info}")
    print(f"seeded: {len(jobs)} changes, {bad} not reported by their target check")
    return 1 if bad else 0


def run_patch_multi(patch, pids):
    """one scratch copy, several checks: {pid: (status, rules)}"""
    d = tempfile.mkdtemp(prefix="vmself-")
    try:
        repo = os.path.join(d, "repo")
        shutil.copytree(facts.REPO, repo, ignore=shutil.ignore_patterns("target", ".git"))
        r = subprocess.run(["patch", "-p1", "-s", "-i", patch], cwd=repo, capture_output=True, text=True)
        if r.returncode != 0:
            return {pid: ("skipped", "patch no longer applies") for pid in pids}
        env = dict(os.environ, VERIF_REPO=repo, VERIF_OUT=os.path.join(d, "out"), VERIF_TIER="quick")
        out = {}
        for pid in pids:
            r = subprocess.run([os.path.join(VERIF, "check"), pid, "--tier", "quick"], env=env, cwd=VERIF, stdout=subprocess.PIPE, stderr=subprocess.STDOUT, text=True)
            if "FATAL: facts generation failed" in r.stdout:
                out[pid] = ("skipped", "does not compile")
                continue
            rules = sorted({l.strip().split(" ")[1] for l in r.stdout.splitlines() if l.strip().startswith("rule ")})
            out[pid] = (("alarm" if r.returncode == 1 else "silent"), ",".join(rules))
        return out
    finally:
        shutil.rmtree(d, ignore_errors=True)


def agent_refactors_main(ids):
    """every stored sub-agent refactor (behaviour-preserving) must leave ALL the checks listed in its meta silent"""
    import glob
    import json
    jobs = []
    for mf in sorted(glob.glob(os.path.join(VERIF, "refactors", "*", "meta.json"))):
        m = json.load(open(mf))
        if ids and m["id"] not in ids:
            continue
        jobs.append((m["id"], m["checks"], os.path.join(os.path.dirname(mf), "patch.diff")))
    bad = pairs = 0
    with cf.ThreadPoolExecutor(max_workers=4) as ex:
        futs = {ex.submit(run_patch_multi, p, pids): i for i, pids, p in jobs}
        for f in cf.as_completed(futs):
            i = futs[f]
            for pid, (st, info) in sorted(f.result().items()):
                pairs += 1
                if st == "alarm":
                    bad += 1
                    print(f"FALSE-ALARM: {pid} on behaviour-preserving refactor {i}: {info}")
                elif st == "skipped":
                    print(f"   skipped {i} [{pid}]: {info}")
    print(f"agent refactors: {len(jobs)} refactors, {pairs} (refactor, check) pairs, {bad} false alarm(s)")
    return 1 if bad else 0


def main(argv):
    if argv and argv[0] in ("--REFACTORS", "--refactors"):
        return refactors_main([a for a in argv[1:]])
    if argv and argv[0] == "--seeded":
        return seeded_main(argv[1:])
    if argv and argv[0] == "--agent-refactors":
        return agent_refactors_main(argv[1:])
    pids = argv or sorted({p for m in load_mutants() for p in m["props"]})
    bad = 0
    for pid in pids:
        r = run_for(pid)
        print(f"{pid}: applied={r['applied']} detected={r['detected']} (other rule: {r['detected_by_other_rule']}) missed={r['missed']} skipped={len(r['skipped'])}")
        for s in r["skipped"]:
            print("   skipped", s)
        bad += len(r["missed"])
    return 1 if bad else 0
