"""MIR-level inlining of *novel* crate-local functions (functions that did not exist on the reviewed tree).

Why: the rules are written against the functions of the reviewed tree. A behaviour-preserving refactor that extracts a few
lines into a new private helper (or de-duplicates two blocks into one) moves the code the rules look at into a function they
have never heard of. Inlining is semantics-preserving, so analysing `caller[helper := body]` is exactly as valid as
analysing the original program, and it restores the shape the rules know. A helper that is private (not reachable from
outside the crate) and whose every call site was inlined is dropped as a standalone body: its code is analysed in the
context of each of its callers (with their dominating facts), which is the only way it can execute.

What is inlined: a call terminator whose statically resolved callee is a crate-local `Fn`/`AssocFn` body whose key is not in
rules/tables/known_fns.json, that is not (mutually) recursive among novel functions. Type parameters of the callee are
instantiated from the call's generic arguments. Closures defined inside an inlined helper keep their own bodies and are
re-rooted to the caller (see Program.closures_of)."""
import copy
import json
import os
import re

VERIF = os.path.dirname(os.path.dirname(os.path.abspath(__file__)))
KNOWN = os.path.join(VERIF, "rules", "tables", "known_fns.json")
MAX_ROUNDS = 6

_TYPE_KEYS_SCALAR = ("ty", "callee_impl_self", "discr_ty", "self_ty")
_TYPE_KEYS_LIST = ("fn_args", "callee_args", "arg_tys", "uneval_args")


def _strip_generics(s):
    from .mir import strip_generics
    return strip_generics(s)


def load_known(config):
    if not os.path.exists(KNOWN):
        return None
    j = json.load(open(KNOWN))
    if config not in j:
        return None
    return set(j[config]["fns"]), {tuple(e) for e in j[config]["edges"]}


def static_edges(bodies):
    """(owner key, callee key) for every statically resolved call to a crate-local function; closures count as their root"""
    out = set()
    for b in bodies:
        if b["kind"] == "Promoted":
            continue
        owner = _strip_generics(b.get("root") or b["id"]) if b["kind"] == "Closure" else _strip_generics(b["id"])
        for blk in b["blocks"]:
            c = _static_callee(blk["term"])
            if c:
                out.add((owner, _strip_generics(c)))
    return out


class _TypeSubst:
    """instantiate type ids of a generic callee with the caller's types; new entries are appended to the type table"""

    def __init__(self, types, mapping):
        self.types = types
        self.map = mapping            # param name -> type id
        self.memo = {}
        names = sorted(mapping, key=len, reverse=True)
        self.rx = re.compile(r"(?<![\w'])(" + "|".join(re.escape(n) for n in names) + r")(?!\w)") if names else None
        self.index = None

    def _s(self, s):
        if not self.rx:
            return s
        return self.rx.sub(lambda m: self.types[self.map[m.group(1)]]["s"], s)

    def _intern(self, t):
        if self.index is None:
            self.index = {}
            for i, x in enumerate(self.types):
                self.index.setdefault((x["k"], x["s"]), i)
        key = (t["k"], t["s"])
        if key in self.index:
            return self.index[key]
        self.types.append(t)
        self.index[key] = len(self.types) - 1
        return len(self.types) - 1

    def __call__(self, i):
        if not self.map or not isinstance(i, int):
            return i
        if i in self.memo:
            return self.memo[i]
        t = self.types[i]
        k = t["k"]
        if k == "param":
            r = self.map.get(t.get("name"), i)
        else:
            s2 = self._s(t["s"])
            if s2 == t["s"]:
                r = i
            else:
                n = dict(t)
                n["s"] = s2
                if "args" in n:
                    n["args"] = [self(a) for a in n["args"]]
                if isinstance(n.get("ty"), int):
                    n["ty"] = self(n["ty"])
                r = self._intern(n)
        self.memo[i] = r
        return r


def _rewrite(x, loff, boff, sub, in_term=False):
    """deep copy of a callee JSON fragment with locals and block numbers shifted and types instantiated"""
    if isinstance(x, list):
        return [_rewrite(y, loff, boff, sub) for y in x]
    if not isinstance(x, dict):
        return x
    o = {}
    for k, v in x.items():
        if k in ("l", "idx") and isinstance(v, int):
            o[k] = v + loff
        elif k in _TYPE_KEYS_SCALAR and isinstance(v, int):
            o[k] = sub(v)
        elif k in _TYPE_KEYS_LIST and isinstance(v, list):
            o[k] = [sub(a) for a in v]
        else:
            o[k] = _rewrite(v, loff, boff, sub)
    return o


def _shift_term_targets(t, boff):
    k = t["k"]
    if k == "switch":
        t["targets"] = [[v, b + boff] for v, b in t["targets"]]
        t["otherwise"] = t["otherwise"] + boff
    else:
        if isinstance(t.get("t"), int):
            t["t"] = t["t"] + boff
    if isinstance(t.get("unwind"), int):
        t["unwind"] = t["unwind"] + boff


def _static_callee(term):
    """crate-local function a call terminator certainly reaches, or None"""
    if term.get("k") != "call":
        return None
    if term.get("resolved_kind") not in ("item",):
        return None
    if term.get("resolved"):
        return term["resolved"] if term.get("resolved_local") else None
    return term.get("callee") if term.get("callee_local") else None


def _inline_one(caller, bi, callee, types, keep_call=False):
    term = caller["blocks"][bi]["term"]
    gen = callee.get("generics") or []
    args = term.get("callee_args") or []
    mapping = {}
    if term.get("resolved") and term.get("resolved") != term.get("callee"):
        # trait call resolved to an impl method: the generic arguments are those of the trait method, not of the impl.
        # Instantiate only what can be read off safely (nothing); a non-generic target is still fine.
        if gen:
            return False
    else:
        if len(gen) != len(args):
            if gen:
                return False
        mapping = {g: a for g, a in zip(gen, args) if types[a].get("name") != g or types[a]["k"] != "param"}
    sub = _TypeSubst(types, mapping)
    loff = len(caller["locals"])
    boff = len(caller["blocks"])
    for l in callee["locals"]:
        nl = dict(l)
        nl["ty"] = sub(l["ty"])
        nl["inl"] = callee["id"]
        caller["locals"].append(nl)
    # arguments -> parameter locals
    blk = caller["blocks"][bi]
    for i, a in enumerate(term["args"]):
        blk["stmts"].append({"k": "assign", "lhs": {"l": loff + 1 + i}, "rv": {"k": "use", "op": a}, "ln": term.get("ln"), "inl_arg": True})
    dest = term["dest"]
    cont = term.get("t")
    for cb in callee["blocks"]:
        nb = {"cleanup": cb["cleanup"], "stmts": _rewrite(cb["stmts"], loff, boff, sub), "inl": callee["id"]}
        ct = cb["term"]
        if ct["k"] == "return":
            nb["stmts"].append({"k": "assign", "lhs": dest, "rv": {"k": "use", "op": {"k": "move", "pl": {"l": loff}}}, "ln": ct.get("ln"), "inl_ret": True})
            nb["term"] = {"ln": ct.get("ln"), "k": "goto", "t": cont} if cont is not None else {"ln": ct.get("ln"), "k": "unreachable"}
        else:
            nt = _rewrite(ct, loff, boff, sub)
            _shift_term_targets(nt, boff)
            nb["term"] = nt
        caller["blocks"].append(nb)
    blk["term"] = {"ln": term.get("ln"), "k": "goto", "t": boff, "inl_call": callee["id"]}
    if keep_call:
        # a KNOWN function inlined along a new call edge: the call itself stays visible to the rules that look for calls of that
        # function by name (Body.calls yields it), next to its spliced body
        blk["term"]["inl_term"] = term
    caller.setdefault("inlined", [])
    if callee["id"] not in caller["inlined"]:
        caller["inlined"].append(callee["id"])
    for x in callee.get("inlined", []):
        if x not in caller["inlined"]:
            caller["inlined"].append(x)
    return True


def inline_program(j, config):
    """mutates the fact dictionary. Returns a report dict."""
    kn = load_known(config)
    rep = {"novel": [], "inlined_sites": 0, "new_edges": [], "dropped": [], "kept": []}
    if kn is None:
        return rep
    known, kedges = kn
    bodies = j["bodies"]
    by_id = {b["id"]: b for b in bodies}
    novel = {}
    for b in bodies:
        if b["kind"] in ("Fn", "AssocFn") and _strip_generics(b["id"]) not in known:
            novel[b["id"]] = b
    rep["novel"] = sorted(novel)
    # static call graph among local functions (for the recursion guard)
    succ = {}
    for b in bodies:
        if b["kind"] == "Promoted":
            continue
        owner = (b.get("root") or b["id"]) if b["kind"] == "Closure" else b["id"]
        for blk in b["blocks"]:
            c = _static_callee(blk["term"])
            if c in by_id:
                succ.setdefault(owner, set()).add(c)

    def reaches(a, target):
        seen, st = set(), [a]
        while st:
            x = st.pop()
            if x == target:
                return True
            if x in seen:
                continue
            seen.add(x)
            st.extend(succ.get(x, ()))
        return False
    pristine = {bid: copy.deepcopy(b) for bid, b in by_id.items() if b["kind"] in ("Fn", "AssocFn")}
    failed = set()
    for _round in range(MAX_ROUNDS):
        changed = False
        for b in bodies:
            if b["kind"] == "Promoted":
                continue
            b_owner = (b.get("root") or b["id"]) if b["kind"] == "Closure" else b["id"]
            bi = 0
            while bi < len(b["blocks"]):
                blk = b["blocks"][bi]
                bi += 1
                if blk.get("cleanup"):
                    continue
                term = blk["term"]
                c = _static_callee(term)
                if c is None or c not in pristine or term.get("noinline"):
                    continue
                # who "owns" this call: code of b itself and of novel helpers inlined into it is b's; code inlined from a known
                # function K keeps K's (reviewed) call edges
                owner = blk.get("owner", b_owner)
                stack = blk.get("stack", ())
                is_novel = c in novel
                new_edge = (_strip_generics(owner), _strip_generics(c)) not in kedges
                if b["id"] in novel and not is_novel:
                    # the stand-alone body of a novel function keeps its calls to known functions as calls: the rules recognise
                    # those by name (ptr_guard_mut(..).as_ptr(), offset(..), ..). When the function is inlined into a reviewed
                    # caller its code becomes the caller's and is judged by the caller's reviewed edges.
                    continue
                if not (is_novel or new_edge):
                    continue
                if c == b_owner or c in stack or reaches(c, b_owner) or len(stack) >= 3:
                    term["noinline"] = True
                    continue
                callee = pristine[c]
                n0 = len(b["blocks"])
                if _inline_one(b, bi - 1, callee, j["types"], keep_call=not is_novel):
                    for nb in b["blocks"][n0:]:
                        nb["owner"] = owner if is_novel else c
                        nb["stack"] = tuple(stack) + (c,)
                    rep["inlined_sites"] += 1
                    if not is_novel:
                        rep["new_edges"].append([_strip_generics(owner), _strip_generics(c)])
                    changed = True
                else:
                    failed.add(c)
                    term["noinline"] = True
        if not changed:
            break
    # closures handed to an inlined NOVEL function and called there (`retry(|| stream.read(..))` for a macro turned into a generic
    # function): the call of the closure parameter is now a call of a statically known closure inside its own defining function
    inlined_closures = _inline_closure_calls(j, by_id, novel, rep)
    bodies = j["bodies"]
    # a private novel helper whose every static call site was inlined is only reachable through its callers: drop it
    still_called = set()
    for b in bodies:
        for blk in b["blocks"]:
            t = blk["term"]
            if t.get("k") == "call":
                for key in ("resolved", "callee"):
                    if t.get(key) in novel:
                        still_called.add(t[key])
    drop = set()
    for n, b in novel.items():
        private = not b.get("reachable", False)
        if private and n not in still_called and n not in failed and not _used_as_value(bodies, n):
            drop.add(n)
        else:
            rep["kept"].append(n)
    if drop:
        j["bodies"] = [b for b in bodies if b["id"] not in drop]
        rep["dropped"] = sorted(drop)
    return rep


_CLOSURE_CALL = re.compile(r"ops::(function::)?Fn(Mut|Once)?::call(_mut|_once)?$")


def _peel_ty(types, i):
    t = types[i]
    while t["k"] in ("ref", "ptr") and isinstance(t.get("ty"), int):
        t = types[t["ty"]]
    return t


def _inline_closure_calls(j, by_id, novel, rep):
    types = j["types"]
    done = {}
    for b in j["bodies"]:
        if b["kind"] == "Promoted":
            continue
        bi = 0
        while bi < len(b["blocks"]):
            blk = b["blocks"][bi]
            bi += 1
            term = blk["term"]
            if blk.get("cleanup") or term.get("k") != "call" or blk.get("inl") not in novel:
                continue
            if not _CLOSURE_CALL.search(term.get("callee") or "") or not term.get("callee_args") or len(term["args"]) != 2:
                continue
            ct = _peel_ty(types, term["callee_args"][0])
            if ct["k"] != "closure" or ct.get("def") not in by_id:
                continue
            clo = by_id[ct["def"]]
            # the closure must be one defined in this very function (its types are then already in this function's terms)
            root = (b.get("root") or b["id"]) if b["kind"] == "Closure" else b["id"]
            if clo.get("root") != root:
                continue
            a0, a1 = term["args"]
            if a0.get("k") not in ("move", "copy") or types[clo["locals"][1]["ty"]]["s"] != types[term["arg_tys"][0]]["s"]:
                continue
            n_params = clo["arg_count"] - 1
            if n_params == 0:
                fields = []
            elif a1.get("k") in ("move", "copy") and "p" not in a1["pl"]:
                fields = [{"k": "move", "pl": {"l": a1["pl"]["l"], "p": [{"f": i, "name": str(i)}]}} for i in range(n_params)]
            else:
                continue
            saved = term["args"]
            term["args"] = [a0] + fields
            n0 = len(b["blocks"])
            if _inline_one(b, bi - 1, clo, types):
                for nb in b["blocks"][n0:]:
                    nb["owner"] = blk.get("owner")
                    nb["stack"] = tuple(blk.get("stack", ())) + (clo["id"],)
                    nb["inl_closure"] = clo["id"]
                rep["inlined_sites"] += 1
                done.setdefault(clo["id"], set()).add(b["id"])
            else:
                term["args"] = saved
    # a closure all of whose uses are now inlined calls is no longer a separate piece of code: drop its stand-alone body
    dropped = []
    for cid, users in done.items():
        cty = None
        escapes = False
        for b in j["bodies"]:
            for blk in b["blocks"]:
                tm = blk["term"]
                if tm.get("k") != "call":
                    continue
                for ai, a in enumerate(tm.get("args", [])):
                    if a.get("k") in ("move", "copy") and ai < len(tm.get("arg_tys", [])):
                        pt = _peel_ty(types, tm["arg_tys"][ai])
                        if pt["k"] == "closure" and pt.get("def") == cid:
                            escapes = True
        if not escapes:
            dropped.append(cid)
    if dropped:
        j["bodies"] = [b for b in j["bodies"] if b["id"] not in dropped]
        rep.setdefault("dropped_closures", []).extend(sorted(dropped))
    return done


def _used_as_value(bodies, fn_id):
    """the function item appears as a constant operand that is not the callee of a call (passed as a value)"""
    def walk(x, is_func=False):
        if isinstance(x, list):
            return any(walk(y) for y in x)
        if isinstance(x, dict):
            if x.get("k") == "const" and x.get("fn") == fn_id and not is_func:
                return True
            for k, v in x.items():
                if walk(v, is_func=(k == "func")):
                    return True
        return False
    for b in bodies:
        if b["id"] == fn_id:
            continue
        for blk in b["blocks"]:
            if walk(blk["stmts"]) or walk(blk["term"]):
                return True
    return False
