"""C10 — adding or removing a region yields a new valid map and leaves the old one intact.

R10.1 who may construct a GuestMemoryMmap: the validating constructor (behind its tests), remove_region
      (out of a valid vector), derived Default / Clone; every other constructor path funnels into the
      validator; nobody takes `&mut` of an existing map's vector;
R10.2 the validator's comparisons have the right strictness and raise the matching error variant;
R10.3 insert_region = clone, push, sort keyed on start_addr, validate THAT vector; remove_region = search
      keyed on start_addr, exact size match, remove from a clone at the found index;
R10.4 deep immutability of the map and region types (no interior mutability reachable), `&self` receivers,
      Arc sharing; witnesses: old map and region handles stay usable;
R10.5 the only GuestRegionMmap aggregate sits behind the base+size overflow test of the same values.
"""
import re

from ..mir import deep_strip, tstr, strip_generics, canon, subterms, is_call, Type
from .. import effects, witness, derives
from ..pat import P, K, V, C, F, AGG, OKP, BIN, CLO, TUP, FN, ANY, ALT, match, closure_ret, unref

CONFIGS = ("FULL", "XEN")
TRUSTED = [
    "std: Vec::clone/push/remove preserve element order; sort_by_key sorts; binary_search_by_key contract; Arc",
    "rustc nightly MIR construction; borrow checker verdicts for the witnesses",
]
MM = "mmap::GuestMemoryMmap"
REG = "mmap::GuestRegionMmap"
INTERIOR = re.compile(r"(cell::(Cell|RefCell|UnsafeCell|OnceCell|LazyCell)|sync::(Mutex|RwLock|OnceLock|Condvar)|sync::atomic::Atomic|sync::nonpoison|arc_swap::)")
CONTAINERS = re.compile(r"^(std|alloc|core)::(vec::Vec|sync::Arc|boxed::Box|option::Option|rc::Rc|result::Result)$")


def key_is_start_addr(prog, eff, clo):
    cb, ct = closure_ret(prog, eff, clo)
    return ct is not None and match(C("GuestMemoryRegion::start_addr", ALT(C("Deref::deref", P(2)), P(2))), ct, {})


def _subsequence_of_self(b, pos, s):
    """the `regions` operand of the aggregate is a fresh Vec that is only ever pushed clones of the item of ONE iteration over
    self.regions (so it is a subsequence, in order), or `self.regions.iter().filter(..).cloned().collect()`"""
    ops = s["rv"]["ops"]
    if len(ops) != 1:
        return False
    v = unref(b.term(ops[0], pos))

    def from_self_regions(it, depth=0):
        it = unref(it)
        if depth > 8:
            return False
        if it[0] == 'field' and it[2] == 'regions' and unref(it[1])[:2] == ('param', 1):
            return True
        if it[0] == 'call' and it[2] and canon(it[1]).split("::")[-1] in ("iter", "into_iter", "deref", "filter", "cloned", "copied", "by_ref", "as_slice", "skip_while", "take_while", "skip", "take"):
            return from_self_regions(it[2][0], depth + 1)
        return False

    if v[0] == 'call' and canon(v[1]).split("::")[-1] == "collect" and v[2]:
        return from_self_regions(v[2][0])
    if not (v[0] == 'call' and canon(v[1]).split("::")[-1] in ("new", "with_capacity") and "Vec" in canon(v[1])):
        return False
    pushes = [c for c in b.calls() if canon(c.target or "").endswith("Vec::push") and unref(c.args()[0]) == v]
    others = [c for c in b.calls() if re.search(r"Vec::(insert|extend|append|extend_from_slice|swap|sort\w*|reverse|dedup\w*|resize\w*|splice|drain|retain\w*)$", canon(c.target or ""))
              and c.args() and unref(c.args()[0]) == v]
    if not pushes or others:
        return False
    nexts = set()
    for c in pushes:
        x = unref(c.args()[1])
        if x[0] == 'call' and canon(x[1]).split("::")[-1] == "clone" and x[2]:
            x = unref(x[2][0])
        if not (x[0] == 'ok' and unref(x[1])[0] == 'call' and canon(unref(x[1])[1]).split("::")[-1] == "next" and from_self_regions(unref(x[1])[2][0])):
            return False
        nexts.add(unref(x[1]))
    return len(nexts) == 1


def rule_aggregates(ctx, prog, eff):
    sites = []
    for b in prog.bodies:
        for pos, s in b.stmts():
            if s["k"] == "assign" and s["rv"]["k"] == "agg" and s["rv"].get("adt") == MM:
                sites.append((b, pos, s))
    allowed = {"from_arc_regions", "remove_region"}
    for b, pos, s in sites:
        root = prog.by_id.get(b.root, b)
        derived = bool(root.j.get("impl_derived"))
        ok = derived or (root.self_adt == MM and root.name in allowed)
        if not ok and root.impl_trait == "std::clone::Clone" and root.self_adt == MM:
            # a hand-written Clone that does what the derive does (field-wise clone of self): the same sequence of the same regions
            ok, _why = derives.like_derive(prog, MM, "std::clone::Clone")
            derived = ok
        sub = False
        if not ok and root.self_adt == MM and b is root:
            sub = _subsequence_of_self(b, pos, s)
            ok = sub
        ctx.ob("R10.1.who_constructs", f"{b.key}", ok, b.where(s["ln"]),
               "GuestMemoryMmap value built in " + ("a derived Default/Clone impl (or its field-wise hand-written equivalent)" if derived else root.name) +
               (" from a vector that only receives clones of the items of one pass over self.regions, in order: a subsequence of a sorted, "
                "disjoint sequence is sorted and disjoint" if sub else "") +
               ("" if ok else " — a map constructed outside the validating constructor / remove_region may be unsorted or overlapping"))
    ctx.floor("R10.1.aggregate_sites", len(sites), 4)
    # other constructor paths funnel into from_arc_regions
    cg = prog.callgraph()
    for nm in ("from_regions", "from_ranges", "from_ranges_with_files", "insert_region"):
        for b in prog.find(adt=MM, name=nm):
            seen, _p = prog.reach([b.id])
            hit = any(strip_generics(x).endswith("GuestMemoryMmap::from_arc_regions") for x in seen)
            ctx.ob("R10.1.funnels_into_validator", b.key, hit, b.where(), "reaches GuestMemoryMmap::from_arc_regions")
    # no &mut of an existing map's `regions`
    n = 0
    for b in prog.bodies:
        if b.j.get("impl_derived"):
            continue
        for pos, s in b.stmts():
            if s["k"] == "assign" and s["rv"]["k"] in ("ref", "rawptr") and s["rv"].get("mut"):
                for e in s["rv"]["pl"].get("p", []):
                    if isinstance(e, dict) and e.get("adt") == MM and e.get("name") == "regions":
                        n += 1
                        ctx.ob("R10.1.no_mut_regions", b.key, False, b.where(s["ln"]), "takes &mut of an existing map's region vector: the map it derives from would change")
            if s["k"] == "assign" and "p" in s["lhs"]:
                for e in s["lhs"]["p"]:
                    if isinstance(e, dict) and e.get("adt") == MM and e.get("name") == "regions":
                        ctx.ob("R10.1.no_mut_regions", b.key, False, b.where(s["ln"]), "assigns to an existing map's region vector")
    ctx.ob("R10.1.no_mut_regions.scan", "all bodies", True, "", f"no &mut borrow / assignment of GuestMemoryMmap.regions anywhere ({len(prog.bodies)} bodies)")


def rule_validator(ctx, prog, eff):
    b = prog.one(adt=MM, name="from_arc_regions")
    seen = {"NoMemoryRegion": False, "UnsortedMemoryRegions": False, "MemoryRegionOverlap": False, "Ok": False}
    W0 = lambda v: ALT(C("Deref::deref", v), v)
    RAW = lambda p: ALT(p, F(p, "0"))          # a GuestAddress or its raw value (a derived / field-wise Ord compares the field)
    # neighbours may also be visited as `regions.iter().zip(regions.iter().skip(1)).try_for_each(|(prev, next)| ..)?`: the checks then
    # sit in the closure, on (arg.0, arg.1), and the walk is exhausted when try_for_each continues
    ZIP = C("Iterator::zip", C("slice::iter", W0(P(1))), C("Iterator::skip", C("slice::iter", W0(P(1))), K(1)))
    pair_closures = {}
    for c_ in b.calls():
        if canon(c_.target or "").endswith("Iterator::try_for_each"):
            tt = deep_strip(b.call_term(c_.t, c_.pos, 0))
            e_ = {}
            if match(C("Iterator::try_for_each", ZIP, CLO("f")), tt, e_):
                cb_ = prog.by_id.get(str(e_["f"][1]))
                if cb_ is not None:
                    pair_closures[cb_.id] = (cb_, tt)

    def neighbours(body, a, c):
        if body.id in pair_closures:
            return match(F(P(2), "0"), a, {}) and match(F(P(2), "1"), c, {})
        return a[0] == 'index' and c[0] == 'index' and a[1] == c[1] and a[2] == ('const', 0) and c[2] == ('const', 1)
    sites = [(b, pos, t) for pos, t in b.return_terms()]
    for cb_, _tt in pair_closures.values():
        sites += [(cb_, pos, t) for pos, t in cb_.return_terms() if deep_strip(t)[0] == 'agg' and deep_strip(t)[2] == 'Err']
    for sb, pos, t in sites:
        t = deep_strip(t)
        facts = sb.facts_at(pos)
        if t[0] == 'agg' and t[2] == 'Err':
            var = unref(t[3][0])[2]
            if var == "NoMemoryRegion":
                ok = any(r[0] == 'bool' and r[2] is True and match(ALT(C("Vec::is_empty", P(1)), C("slice::is_empty", ALT(C("Deref::deref", P(1)), P(1)))), r[1], {}) for r in facts)
                seen[var] = True
                ctx.ob("R10.2.empty", b.key, ok, b.where(), "Err(NoMemoryRegion) exactly on the regions.is_empty() edge")
            elif var == "UnsortedMemoryRegions":
                ok = False
                for r in facts:
                    e = {}
                    if r[0] == 'cmp' and r[1] == 'Gt' and match(RAW(C("GuestMemoryRegion::start_addr", W0(V("a")))), r[2], e) and match(RAW(C("GuestMemoryRegion::start_addr", W0(V("c")))), r[3], e):
                        a, c = e["a"], e["c"]
                        ok = ok or neighbours(sb, a, c)
                seen[var] = True
                ctx.ob("R10.2.sorted", b.key, ok, b.where(), "Err(UnsortedMemoryRegions) iff prev.start_addr() > next.start_addr() (window[0] vs window[1], strict)")
            elif var == "MemoryRegionOverlap":
                ok = False
                for r in facts:
                    e = {}
                    if r[0] == 'cmp' and r[1] == 'Ge' and match(RAW(C("GuestMemoryRegion::last_addr", W0(V("a")))), r[2], e) and match(RAW(C("GuestMemoryRegion::start_addr", W0(V("c")))), r[3], e):
                        a, c = e["a"], e["c"]
                        ok = ok or neighbours(sb, a, c)
                seen[var] = True
                ctx.ob("R10.2.overlap", b.key, ok, b.where(), "Err(MemoryRegionOverlap) iff prev.last_addr() >= next.start_addr() (inclusive LAST vs POS: a 1-byte overlap is caught, adjacency is allowed)")
            else:
                ctx.ob("R10.2.variant", b.key, False, b.where(), f"unexpected error variant {var}")
        elif t[0] == 'agg' and t[2] == 'Ok':
            v = unref(t[3][0])
            ne = any(r[0] == 'bool' and r[2] is False and match(ALT(C("Vec::is_empty", P(1)), C("slice::is_empty", ALT(C("Deref::deref", P(1)), P(1)))), r[1], {}) for r in facts)
            # the loop over windows(2) was exhausted: next() returned None
            done = any(r[0] == 'discr' and r[2] == 0 and match(C("Iterator::next", C("IntoIterator::into_iter", C("slice::windows", C("Deref::deref", P(1)), K(2)))), r[1], {}) for r in facts)
            # .. or try_for_each over the neighbouring pairs ran to the end (its `?` continued)
            done = done or any(r[0] == 'discr' and r[2] == 0 and any(unref(r[1]) == tt_ for _cb, tt_ in pair_closures.values()) for r in facts)
            same = v[0] == 'agg' and v[1] == MM and unref(v[3][0])[:2] == ('param', 1)
            seen["Ok"] = True
            ctx.ob("R10.1.validated_construction", b.key, ne and done and same, b.where(),
                   f"Ok(Self {{ regions }}) behind non-empty [{ne}] and exhausted windows(2) validation loop [{done}], built from the validated vector itself [{same}]")
    ctx.ob("R10.2.all_outcomes", b.key, all(seen.values()), b.where(), f"outcomes present: {seen}")


def rule_insert_remove(ctx, prog, eff):
    b = prog.one(adt=MM, name="insert_region")
    calls = [(c, deep_strip(b.call_term(c.t, c.pos, 0))) for c in b.calls()]
    names = [canon(c.target or "").split("::")[-1] for c, _t in calls]
    env = {}
    rt = b.return_terms()
    ok_ret = len(rt) == 1 and match(C("GuestMemoryMmap::from_arc_regions", V("v")), deep_strip(rt[0][1]), env)
    v = env.get("v")
    is_clone = v is not None and match(C("Clone::clone", F(P(1), "regions")), v, {})
    push = [t for c, t in calls if canon(c.target or "").endswith("Vec::push")]
    push_ok = len(push) == 1 and unref(push[0][2][0]) == v and unref(push[0][2][1])[:2] == ('param', 2)
    sort = [t for c, t in calls if re.search(r"slice::sort_by_key$|slice::sort_by_cached_key$|slice::sort_unstable_by_key$", canon(c.target or ""))]
    sort_ok = False
    if len(sort) == 1:
        e = {}
        sort_ok = match(C(canon(sort[0][1]).split("::")[-1], ALT(C("DerefMut::deref_mut", V("w")), V("w")), CLO("k")), sort[0], e) and unref(e["w"]) == v and key_is_start_addr(prog, eff, e["k"])
    order_ok = "push" in names and any(n.startswith("sort") for n in names) and names.index("push") < [i for i, n in enumerate(names) if n.startswith("sort")][0] < names.index("from_arc_regions")
    ctx.ob("R10.3.insert", b.key, ok_ret and is_clone and push_ok and sort_ok and order_ok, b.where(),
           f"clone of self.regions [{is_clone}] -> push(region) [{push_ok}] -> sort_by_key(start_addr) [{sort_ok}] -> from_arc_regions(that vector) [{ok_ret}], in this order [{order_ok}]")
    sig = b.j.get("sig", "")
    ctx.ob("R10.4.receiver", b.key, re.search(r"fn\(&('\w+ )?mmap::GuestMemoryMmap", sig) is not None, b.where(), f"receiver must be &self (sig: {sig[:120]})")
    # remove_region
    b = prog.one(adt=MM, name="remove_region")
    okr = False
    detail = ""
    from .. import outcomes
    outs = outcomes.outcomes(prog, eff, b)      # the same table for the if-let / match / combinator-chain forms
    for o in outs:
        pos, t = o[0], deep_strip(o[1])
        if t[0] == 'agg' and t[2] == 'Ok':
            e = {}
            shape = match(AGG("Result", "Ok", TUP(AGG(MM, None, V("vec")), C("Vec::remove", V("vec"), V("idx")))), t, e)
            facts = outcomes.facts_of(b, o, (prog, eff))
            search_ok = False
            size_ok = False
            if shape:
                vec_ok = match(C("Clone::clone", F(P(1), "regions")), e["vec"], {})
                idx = e["idx"]
                e2 = {}
                search_ok = match(OKP(C("binary_search_by_key", C("Deref::deref", F(P(1), "regions")), P(2), CLO("k"))), idx, e2) and key_is_start_addr(prog, eff, e2["k"]) and \
                    any(r[0] == 'discr' and r[2] == 0 and unref(r[1]) == unref(idx[1]) for r in facts)
                for r in facts:
                    if r[0] == 'cmp' and r[1] == 'Eq':
                        for lhs, rhs in ((r[2], r[3]), (r[3], r[2])):
                            e3 = {}
                            lhs = eff.inline_deep(lhs)      # regions[i].len() is the getter of regions[i].mapping.size()
                            if unref(rhs)[:2] == ('param', 3) and match(ALT(C("MmapRegion::size", F(ALT(C("Deref::deref", V("el")), V("el")), "mapping")),
                                                                             F(F(ALT(C("Deref::deref", V("el")), V("el")), "mapping"), "size")), lhs, e3):
                                el = e3["el"]
                                size_ok = any(x == idx for x in subterms(el))
                okr = shape and vec_ok and search_ok and size_ok
                detail = f"vector is a clone of self.regions [{vec_ok}], index = Ok(i) of binary_search_by_key(&base, start_addr) [{search_ok}], regions[i].size == size dominates [{size_ok}]"
            else:
                detail = f"Ok value `{tstr(t)}` is not (Self {{ v }}, v.remove(i)) over one vector"
    ctx.ob("R10.3.remove", b.key, okr, b.where(), detail)
    errs = [unref(deep_strip(o[1])[3][0])[2] for o in outs if deep_strip(o[1])[0] == 'agg' and deep_strip(o[1])[2] == 'Err' and unref(deep_strip(o[1])[3][0])[0] == 'agg']
    ctx.ob("R10.3.remove_error", b.key, bool(errs) and set(errs) == {"InvalidGuestRegion"}, b.where(), f"failure variants: {errs} (every failing path reports InvalidGuestRegion)")
    sig = b.j.get("sig", "")
    ctx.ob("R10.4.receiver", b.key, re.search(r"fn\(&('\w+ )?mmap::GuestMemoryMmap", sig) is not None, b.where(), f"receiver must be &self")


def deep_freeze(prog, root_adt, opaque_ok=("B",)):
    """walk all types reachable through fields; returns (interior-mutable hits, leaves, visited)"""
    hits, leaves, visited = [], set(), set()

    def walk_ty(ty, path):
        j = ty.j
        k = j["k"]
        if k in ("prim", "param", "fnptr", "fndef", "closure"):
            leaves.add(ty.s if k != "prim" else "prim")
            return
        if k in ("ref", "ptr", "slice", "array"):
            if k == "ptr":
                leaves.add("raw pointer (the mapped guest memory itself; exempt by the property)")
                return
            walk_ty(Type(prog, j["ty"]), path)
            return
        if k == "tuple":
            for a in ty.args():
                walk_ty(a, path)
            return
        if k == "dyn":
            leaves.add("dyn " + ty.s)
            return
        if k == "adt":
            d = j["def"]
            if INTERIOR.search(d):
                hits.append((" -> ".join(path), ty.s))
                return
            if d in prog.adts:
                walk_adt(d, path)
                for a in ty.args():
                    walk_ty(a, path)
                return
            if CONTAINERS.match(d):
                for a in ty.args():
                    walk_ty(a, path)
                return
            leaves.add(d)
            return
        leaves.add(ty.s)

    def walk_adt(d, path):
        if d in visited:
            return
        visited.add(d)
        a = prog.adts[d]
        for v in a["variants"]:
            for f in v["fields"]:
                walk_ty(Type(prog, f["ty"]), path + [f"{d.split('::')[-1]}.{f['name']}"])

    walk_adt(root_adt, [])
    return hits, leaves, visited


def rule_freeze(ctx, prog):
    hits, leaves, visited = deep_freeze(prog, MM)
    # dyn MmapXenTrait implementors are walked too
    for im in prog.trait_impls("mmap::xen::MmapXenTrait"):
        adt = prog.ty(im["self_ty"]).adt
        if adt in prog.adts:
            h2, l2, v2 = deep_freeze(prog, adt)
            hits += h2
            leaves |= l2
            visited |= v2
    ctx.ob("R10.4.deep_frozen", MM, not hits, "", f"types walked: {sorted(visited)}; opaque leaves: {sorted(leaves)}; interior mutability found: {hits}")
    ctx.floor("R10.4.types_walked", len(visited), 4)
    a = prog.adts[MM]
    f = a["variants"][0]["fields"]
    ctx.ob("R10.4.arc_sharing", MM, len(f) == 1 and re.fullmatch(r"std::vec::Vec<std::sync::Arc<mmap::GuestRegionMmap<B>>>", prog.types[f[0]["ty"]]["s"]) is not None and f[0]["vis"] != "pub",
           f"{a['file']}:{a['line']}", f"fields: {[(x['name'], prog.types[x['ty']]['s'], x['vis']) for x in f]}; regions must be shared as Arc and private")


def rule_region_new(ctx, prog, eff):
    sites = []
    for b in prog.bodies:
        for pos, s in b.stmts():
            if s["k"] == "assign" and s["rv"]["k"] == "agg" and s["rv"].get("adt") == REG:
                sites.append((b, pos, s))
    ctx.floor("R10.5.region_aggregates", len(sites), 1)
    for b, pos, s in sites:
        root = prog.by_id.get(b.root, b)
        if root.j.get("impl_derived"):
            continue
        facts = b.facts_at(pos)
        f = dict(zip(s["rv"]["fields"], [unref(b.term(o, pos)) for o in s["rv"]["ops"]]))
        chk = False
        for r in facts:
            if r[0] == 'bool' and r[2] is False:
                e = {}
                if match(C("Option::is_none", C("num::checked_add", F(V("g"), "0"), C("MmapRegion::size", V("m")))), r[1], e) or \
                        match(C("Option::is_none", C("num::checked_add", C("Address::raw_value", V("g")), C("MmapRegion::size", V("m")))), r[1], e):
                    chk = e["g"] == f.get("guest_base") and e["m"] == f.get("mapping")
            if r[0] == 'discr' and r[2] == 1:
                e = {}
                if match(ALT(C("num::checked_add", F(V("g"), "0"), C("MmapRegion::size", V("m"))),
                             C("num::checked_add", C("Address::raw_value", V("g")), C("MmapRegion::size", V("m"))),
                             C("Address::checked_add", V("g"), C("MmapRegion::size", V("m")))), r[1], e):
                    chk = chk or (e["g"] == f.get("guest_base") and e["m"] == f.get("mapping"))
        ok = root.self_adt == REG and root.name == "new" and chk
        ctx.ob("R10.5.region_overflow_check", b.key, ok, b.where(s["ln"]),
               f"GuestRegionMmap {{ mapping: {tstr(f.get('mapping'))}, guest_base: {tstr(f.get('guest_base'))} }} behind `guest_base.0.checked_add(mapping.size())` is Some of the same values: {chk}")
    for nm in ("from_range",):
        for b in prog.find(adt=REG, name=nm):
            seen, _p = prog.reach([b.id])
            ctx.ob("R10.5.funnels_into_new", b.key, any(strip_generics(x).endswith("GuestRegionMmap::new") for x in seen), b.where(), "reaches GuestRegionMmap::new")


def run(ctx, progs):
    for cfg, prog in progs.items():
        ctx.config = cfg
        eff = effects.Effects(prog)
        rule_aggregates(ctx, prog, eff)
        rule_validator(ctx, prog, eff)
        rule_insert_remove(ctx, prog, eff)
        rule_freeze(ctx, prog)
        rule_region_new(ctx, prog, eff)
    ctx.config = "witness"
    witness.run(ctx, "c10", min_pairs=2)
    ctx.not_decided = ["sort_by_key / binary_search / Vec::remove (std, trusted)", "byte contents reachable through old maps (no code path can change which memory an Arc'd region denotes: R10.4)"]
    return ctx.finish(
        "other",
        "Who-may-construct census of GuestMemoryMmap / GuestRegionMmap aggregates, validator strictness via the branch facts that dominate each error return "
        "(start > start => Unsorted; last >= start => Overlap), structure of insert_region/remove_region on a cloned vector with search key = sort key = start_addr "
        "and exact size match, deep-immutability type walk over every field reachable from the map (both configurations, including the Xen mapping owners), &self "
        "receivers, and compile-pass/fail witnesses that earlier maps and region handles stay usable. Structural for all sequences of insertions/removals.",
        TRUSTED, "./check C10")
