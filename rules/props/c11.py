"""C11 — a memory-map snapshot stays whole and usable while the map is being replaced.

Decides the structural side conditions under which arc-swap and Mutex (trusted: `load` returns one of the
stored Arcs whole, `store` is atomic, the mutex is exclusive) give the property: a snapshot IS one
ArcSwap::load; the published map is complete and immutable before it is stored; a snapshot or its clone
owns a strong reference; the only writer is `replace`, callable only by the holder of the update lock,
and the lock is released only after the store.
"""
import re

from ..mir import deep_strip, tstr, strip_generics, canon, subterms, is_call
from .. import effects, witness, derives
from ..pat import P, K, V, C, F, AGG, OKP, BIN, CLO, TUP, FN, ANY, ALT, match, unref
from . import c10

CONFIGS = ("FULL", "XEN")
TRUSTED = [
    "arc-swap: load() returns one of the stored Arcs whole; store() publishes atomically; Guard keeps the Arc alive",
    "std::sync::Mutex is exclusive; MutexGuard unlocks on drop; Arc strong counts",
    "rustc nightly MIR construction (drop elaboration); borrow checker verdicts for the witnesses",
]
ATOM = "atomic::GuestMemoryAtomic"
LOADG = "atomic::GuestMemoryLoadGuard"
EXCL = "atomic::GuestMemoryExclusiveGuard"
WRITERS = re.compile(r"arc_swap::.*::(store|swap|rcu|compare_and_swap)$|ArcSwapAny::(store|swap|rcu|compare_and_swap)$")
LOADS = re.compile(r"ArcSwapAny::(load|load_full|load_signal_safe)$|arc_swap::.*Cache")


def lock_drops(b):
    """positions where a method of the exclusive guard releases the update lock: drop of the by-value self (or of the MutexGuard
    moved out of it), or self / the guard moved into a call (mem::drop(..)) other than the ArcSwap writer itself"""
    drops = []

    def holds_lock(term):
        d = deep_strip(term)
        return d[:2] == ('param', 1) or (d[0] == 'field' and d[2] == '_guard' and deep_strip(d[1])[:2] == ('param', 1))
    for pos, t in b.terms():
        if t["k"] == "drop" and (t["pl"]["l"] == 1 or ("p" not in t["pl"] and holds_lock(b.local_term(t["pl"]["l"], pos, 0)))):
            drops.append(pos)
        if t["k"] == "call" and not WRITERS.search(canon(t.get("resolved") or t.get("callee") or "")):
            for a2 in t["args"]:
                if a2["k"] == "move" and "p" not in a2["pl"] and holds_lock(b.term(a2, pos)) and b.local_ty(a2["pl"]["l"]).k == "adt":
                    drops.append(pos)
    return drops


def run(ctx, progs):
    for cfg, prog in progs.items():
        ctx.config = cfg
        eff = effects.Effects(prog)
        # ------------------------------------------------------------ R11.1 who stores / loads
        stores, loads = [], []
        for b in prog.bodies:
            for c in b.calls():
                cn = canon(c.target or "")
                if WRITERS.search(cn):
                    stores.append((b, c))
                if LOADS.search(cn):
                    loads.append((b, c))
        ctx.floor("R11.1.store_sites", len(stores), 1)
        ctx.floor("R11.1.load_sites", len(loads), 1)
        for b, c in stores:
            root = prog.by_id.get(b.root, b)
            ok = root.self_adt == EXCL and root.name == "replace"
            why = ""
            if not ok and root.self_adt == EXCL and b is root:
                # another method of the exclusive guard (a sibling of replace): it may publish too, provided it stores a freshly built
                # Arc into self.parent.inner.0 — the ArcSwap paired with the mutex whose guard `self` holds — while that guard is
                # still alive: no drop / move-out of self (or of its MutexGuard) can reach the store
                tgt = deep_strip(b.call_term(c.t, c.pos, 0))
                # store(..) or swap(..) (which also hands back the previous map) of a complete map: any value of type Arc<M>
                tgt_ok = match(ALT(C("ArcSwapAny::store", F(C("Deref::deref", F(F(P(1), "parent"), "inner")), "0"), ANY),
                                   C("ArcSwapAny::swap", F(C("Deref::deref", F(F(P(1), "parent"), "inner")), "0"), ANY)), tgt, {})
                drops = lock_drops(b)
                held = all(c.pos[0] not in b.reachable(d[0]) and not (d[0] == c.pos[0] and d[1] < c.pos[1]) for d in drops)
                ok = bool(tgt_ok) and held
                why = f"; sibling of replace: stores / swaps an Arc<M> into self.parent.inner.0 [{bool(tgt_ok)}], no release of self / its MutexGuard reaches the store [{held}, {len(drops)} release point(s)]"
            ctx.ob("R11.1.only_replace_stores", f"{b.key}|{canon(c.target).split('::')[-1]}", ok, c.where(),
                   "ArcSwap writer call" + why + ("" if ok else " — outside GuestMemoryExclusiveGuard (or not under its lock): a store that does not hold the update lock can lose a replacement"))
        DIRECT = C("ArcSwapAny::load", F(C("Deref::deref", F(P(1), "inner")), "0"))
        mem_bodies = prog.find(adt=ATOM, trait="guest_memory::GuestAddressSpace", name="memory")
        for b, c in loads:
            root = prog.by_id.get(b.root, b)
            # the one place a snapshot is taken: the private load() helper, or memory() itself when the helper is inlined
            ok = root.self_adt == ATOM and (root.name == "load" or (root in mem_bodies and canon(c.target).split("::")[-1] == "load"))
            why = "ArcSwap load call site"
            if not ok and root.self_adt == EXCL and b is root:
                # a method of the exclusive guard reading the map it guards (self.parent.inner.0): a snapshot taken under the update lock
                tgt = deep_strip(b.call_term(c.t, c.pos, 0))
                ok = bool(match(ALT(C("ArcSwapAny::load", F(C("Deref::deref", F(F(P(1), "parent"), "inner")), "0")),
                                    C("ArcSwapAny::load_full", F(C("Deref::deref", F(F(P(1), "parent"), "inner")), "0"))), tgt, {}))
                why = f"load of self.parent.inner.0 inside a method of the exclusive guard (the update lock is held) [{ok}]"
            ctx.ob("R11.1.only_load_loads", f"{b.key}|{canon(c.target).split('::')[-1]}", ok, c.where(), why)
        hb = prog.find(adt=ATOM, name="load")
        if len(hb) == 1:
            b = hb[0]
            rt = b.return_terms()
            ok = len(rt) == 1 and match(DIRECT, deep_strip(rt[0][1]), {})
            ctx.ob("R11.1.load_is_one_load", b.key, ok, b.where(), f"load() = self.inner.0.load(): `{tstr(deep_strip(rt[0][1])) if rt else '?'}`")
        elif len(hb) > 1:
            ctx.ob("R11.1.load_is_one_load", ATOM + "::load", False, "", f"{len(hb)} bodies named load")
        if not mem_bodies:
            ctx.ob("R11.1.snapshot_is_one_load", ATOM + "::memory", False, "", "anchor body not found (fail closed)")
        for b in mem_bodies:
            rt = b.return_terms()
            ok = len(rt) == 1 and match(AGG(LOADG, None, ALT(C("GuestMemoryAtomic::load", P(1)), DIRECT)), deep_strip(rt[0][1]), {})
            n_loads = sum(1 for c in b.calls() if canon(c.target or "").endswith("GuestMemoryAtomic::load") or LOADS.search(canon(c.target or "")))
            ctx.ob("R11.1.snapshot_is_one_load", b.key, ok and n_loads == 1, b.where(), f"memory() builds the guard from exactly one load of self.inner.0 ({n_loads})")
            if not hb:
                ctx.ob("R11.1.load_is_one_load", b.key, ok and n_loads == 1, b.where(), "no separate load() helper: memory() itself performs the single self.inner.0.load()")
        # ------------------------------------------------------------ R11.2 replace: store before unlock
        b = prog.one(adt=EXCL, name="replace")
        sig = b.j.get("sig", "")
        by_value = re.search(r"fn\(atomic::GuestMemoryExclusiveGuard<", sig) is not None
        st = [c for c in b.calls() if WRITERS.search(canon(c.target or ""))]
        store_ok = False
        if len(st) == 1:
            e = {}
            store_ok = match(C("ArcSwapAny::store", F(C("Deref::deref", F(F(P(1), "parent"), "inner")), "0"), C("Arc::new", P(2))), deep_strip(b.call_term(st[0].t, st[0].pos, 0)), e)
        # drop of self (or of its _guard field) must come after the store on every path
        drops = lock_drops(b)
        order_ok = bool(st) and all(b.pos_dominates(st[0].pos, d) for d in drops) and bool(drops)
        # `map` not used after the store
        used_after = False
        if st:
            for c in b.calls():
                if c.pos != st[0].pos and b.pos_dominates(st[0].pos, c.pos):
                    if any(unref(a)[:2] == ('param', 2) for a in c.args()):
                        used_after = True
        ctx.ob("R11.2.replace", b.key, by_value and store_ok and order_ok and not used_after, b.where(),
               f"takes self by value [{by_value}]; stores Arc::new(map) into self.parent.inner.0 [{store_ok}]; every drop of self (hence of the MutexGuard) is dominated by the store [{order_ok}, {len(drops)} drop(s)]; map untouched after publication [{not used_after}]")
        # ------------------------------------------------------------ R11.3 exclusive guard only from lock()
        aggs = []
        for b2 in prog.bodies:
            for pos, s in b2.stmts():
                if s["k"] == "assign" and s["rv"]["k"] == "agg" and s["rv"].get("adt") == EXCL:
                    aggs.append((b2, pos, s))
        # one guard-building closure used more than once (`let exclusive = |g| Guard {{ parent: self, _guard: g }};
        # lock().map(exclusive).map_err(|e| PoisonError::new(exclusive(e.into_inner())))`): every USE of the closure is a construction site,
        # with the value that use feeds it
        shared = []
        for b2, pos, s in list(aggs):
            if b2.kind != "Closure":
                continue
            gop = dict(zip(s["rv"]["fields"], s["rv"]["ops"])).get("_guard")
            if gop is None or unref(b2.term(gop, pos))[:2] != ('param', 2):
                continue
            root = prog.by_id.get(b2.root, b2)
            uses = []
            for fb in prog.family(root):
                for c in fb.calls():
                    if c.target == b2.id and len(c.args()) >= 2:
                        tup = unref(c.args()[1])
                        if tup[0] == 'agg' and len(tup[3]) == 1:
                            uses.append(unref(eff.in_parent(fb, tup[3][0])[1]) if fb.kind == "Closure" else unref(tup[3][0]))
                    elif canon(c.target or "").split("::")[-1] in ("map", "and_then") and len(c.args()) == 2 and \
                            unref(c.args()[1])[0] == 'agg' and str(unref(c.args()[1])[1]) == b2.id:
                        uses.append(('ok', unref(c.args()[0])))
            if len(uses) >= 2:
                shared.append((b2, pos, s, uses))
                aggs.remove((b2, pos, s))
        ctx.floor("R11.3.guard_aggregates", len(aggs) + sum(len(u[3]) for u in shared), 2)
        for b2, pos, s, uses in shared:
            root = prog.by_id.get(b2.root, b2)
            lock = ALT(C("Mutex::lock", F(C("Deref::deref", F(P(1), "inner")), "1")), C("Mutex::try_lock", F(C("Deref::deref", F(P(1), "inner")), "1")))
            par = unref(eff.in_parent(b2, b2.term(dict(zip(s["rv"]["fields"], s["rv"]["ops"]))["parent"], pos))[1])
            for k, g in enumerate(uses):
                g_ok = match(OKP(lock), g, {}) or (match(C("PoisonError::into_inner", ANY), g, {}) and any(match(lock, x, {}) for x in subterms(g)))
                ok = root.self_adt == ATOM and par[:2] == ('param', 1) and bool(g_ok)
                ctx.ob("R11.3.guard_from_lock", f"{b2.key}|use {k}", ok, b2.where(s["ln"]),
                       f"exclusive guard built by a shared closure, use {k}: {{ parent: {tstr(par)}, _guard: {tstr(g)[:80]} }} must come from self and the (try_)lock guard of self.inner.1")
        for b2, pos, s in aggs:
            root = prog.by_id.get(b2.root, b2)
            # `match lock() { Ok(g) => .., Err(e) => .. }` and `lock().map(|g| ..).map_err(|e| ..)` build the same guards: read the
            # fields in the term space of lock() itself
            f = dict(zip(s["rv"]["fields"], [unref(eff.in_parent(b2, b2.term(o, pos))[1]) for o in s["rv"]["ops"]]))
            # lock() and a non-blocking try_lock() of the SAME mutex both hand out the one MutexGuard there is
            lock = ALT(C("Mutex::lock", F(C("Deref::deref", F(P(1), "inner")), "1")), C("Mutex::try_lock", F(C("Deref::deref", F(P(1), "inner")), "1")))
            g = f.get("_guard")
            g_ok = g is not None and (match(OKP(lock), g, {}) or match(C("PoisonError::into_inner", ANY), g, {}) and any(match(lock, x, {}) for x in subterms(g)))
            ok = root.self_adt == ATOM and f.get("parent", ('x',))[:2] == ('param', 1) and g_ok
            ctx.ob("R11.3.guard_from_lock", f"{b2.key}", ok, b2.where(s["ln"]),
                   f"exclusive guard {{ parent: {tstr(f.get('parent'))}, _guard: {tstr(g)[:80] if g else '?'} }} must be built by a method of the replaceable memory from self and the (try_)lock guard of self.inner.1 — the mutex paired with the ArcSwap `replace` stores into")
        a = prog.adts[EXCL]
        ctx.ob("R11.3.guard_private", EXCL, all(f["vis"] != "pub" for f in a["variants"][0]["fields"]), f"{a['file']}:{a['line']}", "fields private: clients cannot forge an exclusive guard")
        ctx.ob("R11.3.guard_not_clone", EXCL, not prog.adt_impls(EXCL, "std::clone::Clone"), "", "the exclusive guard must not be Clone")
        # ------------------------------------------------------------ R11.4 type facts
        a = prog.adts[ATOM]
        f = a["variants"][0]["fields"]
        ts = [prog.types[x["ty"]]["s"] for x in f]
        ok = len(f) == 1 and re.fullmatch(r"std::sync::Arc<\((\w+::)*arc_swap::ArcSwapAny<std::sync::Arc<M>>, std::sync::Mutex<\(\)>\)>", ts[0]) is not None
        ctx.ob("R11.4.shared_pair", ATOM, ok, f"{a['file']}:{a['line']}", f"fields {ts}: all clones must share one (ArcSwap, Mutex) pair through an Arc")
        okc, whyc = derives.like_derive(prog, ATOM, "std::clone::Clone")
        ctx.ob("R11.4.atomic_clone_derived", ATOM, okc, "", f"GuestMemoryAtomic: derived Clone or its field-wise equivalent (clones the Arc, shares the pair): {whyc}")
        a = prog.adts[LOADG]
        ts = [prog.types[x["ty"]]["s"] for x in a["variants"][0]["fields"]]
        ctx.ob("R11.4.guard_holds_arc", LOADG, (len(ts) == 1 and re.fullmatch(r"(\w+::)*arc_swap::Guard<std::sync::Arc<M>>", ts[0]) is not None), f"{a['file']}:{a['line']}", f"fields {ts}: the snapshot owns a Guard<Arc<M>>")
        for b in prog.find(adt=LOADG, trait="std::clone::Clone", name="clone"):
            rt = b.return_terms()
            ok = len(rt) == 1 and match(AGG(LOADG, None, C("Guard::from_inner", C("Clone::clone", C("Deref::deref", F(P(1), "guard"))))), deep_strip(rt[0][1]), {})
            ctx.ob("R11.4.guard_clone", b.key, ok, b.where(), f"clone = Guard::from_inner(Arc::clone(&*self.guard)) — the SAME map, not a re-load: `{tstr(deep_strip(rt[0][1])) if rt else '?'}`")
        for b in prog.find(adt=LOADG, name="into_inner"):
            rt = b.return_terms()
            ok = len(rt) == 1 and match(C("Guard::into_inner", F(P(1), "guard")), deep_strip(rt[0][1]), {})
            ctx.ob("R11.4.into_inner", b.key, ok, b.where(), "into_inner = Guard::into_inner(self.guard)")
        for b in prog.find(adt=LOADG, trait="std::ops::Deref", name="deref"):
            rt = b.return_terms()
            ok = len(rt) == 1 and any(unref(x) == ('field', ('param', 1, 'self'), 'guard') or (unref(x)[0] == 'field' and unref(x)[2] == 'guard') for x in subterms(deep_strip(rt[0][1])))
            ctx.ob("R11.4.deref", b.key, ok, b.where(), "Deref borrows from the guard")
        # the map type reached through the guard is deep-frozen (R10.4)
        if "mmap::GuestMemoryMmap" in prog.adts:
            hits, leaves, visited = c10.deep_freeze(prog, "mmap::GuestMemoryMmap")
            ctx.ob("R11.4.snapshot_immutable", "mmap::GuestMemoryMmap", not hits, "", f"no interior mutability reachable from the published map type ({len(visited)} types walked): a snapshot cannot change under its holder")
        # ------------------------------------------------------------ R11.5 in-crate updaters derive under the lock
        # a function of the crate that itself publishes (calls replace / a sibling publisher) and also takes a snapshot of the
        # replaceable memory must take that snapshot AFTER it holds the update lock: a map derived from a snapshot taken before
        # lock() overwrites whatever another updater published in between (a lost replacement)
        n_pub = n_both = 0
        for b in prog.bodies:
            if b.kind != "Fn" and b.kind != "AssocFn":
                continue
            fam = prog.family(b)
            pubs = [(fb, c) for fb in fam for c in fb.calls()
                    if (canon(c.target or "").startswith(EXCL + "::") and c.t.get("callee_local")) or WRITERS.search(canon(c.target or ""))]
            if not pubs or b.self_adt == EXCL:
                continue
            n_pub += 1
            locks = [c for c in b.calls() if re.search(r"GuestMemoryAtomic::(lock|try_lock)$|Mutex::(lock|try_lock)$", canon(c.target or ""))]
            snaps = [c for c in b.calls() if re.search(r"GuestAddressSpace::memory$|GuestMemoryAtomic::load$", canon(c.target or "")) or LOADS.search(canon(c.target or ""))]
            if not snaps:
                continue
            n_both += 1
            for c in snaps:
                ok = any(b.pos_dominates(l.pos, c.pos) for l in locks)
                ctx.ob("R11.5.derive_under_lock", f"{b.key}|{canon(c.target).split('::')[-1]}", ok, c.where(),
                       "a function that publishes a new map takes its snapshot of the current map only after acquiring the update lock"
                       + ("" if ok else " — here the snapshot is taken before (or without) lock(): another updater's replacement in between is overwritten"))
        ctx.ob("R11.5.scan", "all bodies", True, "", f"{n_pub} function(s) outside the exclusive guard publish a map; {n_both} of them also take a snapshot")
        # ------------------------------------------------------------ R11.6 trivial address spaces
        n = 0
        for b in prog.bodies:
            if b.impl_trait == "guest_memory::GuestAddressSpace" and b.name == "memory" and b.self_adt != ATOM:
                n += 1
                rt = b.return_terms()
                t = deep_strip(rt[0][1]) if len(rt) == 1 else None
                ok = t is not None and (unref(t)[:2] == ('param', 1) or match(C("Clone::clone", P(1)), t, {}))
                ctx.ob("R11.6.forwarder", b.key, ok, b.where(), f"memory() returns `{tstr(t) if t else '?'}` (self / self.clone())")
        ctx.floor("R11.6.forwarders", n, 3)
    ctx.config = "witness"
    witness.run(ctx, "c11", min_pairs=4)
    ctx.not_decided = [
        "what concurrent readers observe under every interleaving (delegated to arc-swap / Mutex through the structural conditions above)",
        "lost updates between two updaters that each derived a new map before taking the lock (client protocol)",
    ]
    return ctx.finish(
        "other",
        "Who-may-call census of ArcSwap store/load, MIR order in replace (store dominates every drop of the by-value self that owns the MutexGuard), who-may-construct "
        "census of the exclusive guard (only lock(), from the mutex paired with the ArcSwap that replace stores into), type facts (shared (ArcSwap, Mutex) pair, snapshot "
        "owns Guard<Arc<M>>, guard Clone clones the same Arc instead of re-loading), deep immutability of the published map, and compile-fail/-pass witnesses. With the "
        "trusted library semantics these conditions imply the property for all schedules; observations themselves are not computed.",
        TRUSTED, "./check C11")
