"""C16 — dirty marks are confined to what was written (tracking is precise).

R16.1 effect analysis over the call graph: no marking effect is reachable from any non-writing route
      (reads, loads, queries, derivations, stream writes out of memory); every mark_dirty call site outside
      the Bitmap forwarders is paired with a guest write in the same body (no orphan marks);
R16.2 every mark uses the count actually transferred (tighter side of C05 R5.1), except the one tabled
      mark-everything branch of a failed descriptor read;
R16.3 no mark can execute before/without its write (the write dominates the mark, or the extent is the
      loop's pointer difference, which is zero when nothing was written);
R16.4 the range-to-pages loop has inclusive-last form (= C09 R9.3).
"""
import re

from ..mir import deep_strip, tstr, strip_generics, canon, subterms, is_call
from .. import effects, tracking, fixtures, loops
from ..bounds import norm
from . import c05, c09

CONFIGS = ("FULL", "XEN")
TRUSTED = [
    "call-graph over-approximation: unresolved trait calls fan out to every local impl",
    "AtomicBitmap arithmetic identity (see C09 not_decided)",
    "rustc nightly MIR construction and Instance resolution",
]

MARKERS = re.compile(r"Bitmap::mark_dirty$|AtomicBitmap::(set_addr_range|set_bit|set_reset_addr_range)$")

# Non-writing routes: (selector kwargs for Program.find) — stable API names only.
BYTES = "bytes::Bytes"
READ_ENTRIES = (
    [dict(trait=BYTES, name=n) for n in ("read", "read_slice", "load", "write_volatile_to", "write_all_volatile_to")]
    + [dict(in_trait=BYTES, name="read_obj")]
    + [dict(adt="volatile_memory::VolatileSlice", name=n) for n in
       ("copy_to", "subslice", "offset", "split_at", "ptr_guard", "ptr_guard_mut", "len", "is_empty", "bitmap", "check_alignment")]
    + [dict(adt="volatile_memory::VolatileRef", name=n) for n in ("load", "to_slice", "ptr_guard", "ptr_guard_mut", "len", "bitmap")]
    + [dict(adt="volatile_memory::VolatileArrayRef", name=n) for n in ("load", "copy_to", "ref_at", "to_slice", "ptr_guard", "ptr_guard_mut", "len", "is_empty", "element_size", "bitmap")]
    + [dict(in_trait="volatile_memory::VolatileMemory", name=n) for n in
       ("get_ref", "get_array_ref", "aligned_as_ref", "aligned_as_mut", "get_atomic_ref", "compute_end_offset", "as_volatile_slice", "is_empty")]
    + [dict(trait="volatile_memory::VolatileMemory", name=n) for n in ("get_slice", "len")]
    + [dict(name="copy_from_volatile_slice"), dict(name="write_volatile_raw_fd")]
    + [dict(trait="io::WriteVolatile", name=n) for n in ("write_volatile", "write_all_volatile")]
    + [dict(in_trait="io::WriteVolatile", name="write_all_volatile")]
    + [dict(trait="bitmap::Bitmap", name=n) for n in ("dirty_at", "slice_at")]
    + [dict(in_trait="guest_memory::GuestMemory", name=n) for n in
       ("last_addr", "to_region_addr", "address_in_range", "check_address", "check_range", "checked_offset", "try_access", "get_host_address", "get_slice")]
    + [dict(trait="guest_memory::GuestMemory", name=n) for n in ("find_region", "num_regions", "iter")]
    + [dict(in_trait="guest_memory::GuestMemoryRegion", name=n) for n in
       ("last_addr", "check_address", "address_in_range", "checked_offset", "to_region_addr", "as_volatile_slice")]
    + [dict(trait="guest_memory::GuestMemoryRegion", name=n) for n in ("get_slice", "get_host_address", "len", "start_addr", "bitmap", "file_offset")]
    + [dict(adt="bitmap::backend::atomic_bitmap::AtomicBitmap", name=n) for n in ("is_bit_set", "is_addr_set", "len", "byte_size")]
)


def has_marker(body):
    for c in body.calls():
        if MARKERS.search(canon(c.target or "")):
            return c
    return None


def rule_no_mark_on_reads(rep, prog):
    cg = prog.callgraph()
    marking_bodies = {b.id: has_marker(b) for b in prog.bodies if has_marker(b)}
    n = 0
    for sel in READ_ENTRIES:
        bs = prog.find(**sel)
        for b in bs:
            n += 1
            seen, parent = prog.reach([b.id])
            hit = [x for x in seen if x in marking_bodies]
            if hit:
                path = prog.path_to(parent, hit[0])
                rep("R16.1.read_route_marks", b.key, False, b.where(),
                    "a dirty-marking effect is reachable from this non-writing route: " + " -> ".join(strip_generics(p) for p in path) +
                    f" (marks at line {marking_bodies[hit[0]].line})")
            else:
                rep("R16.1.read_route_marks", b.key, True, b.where(), f"{len(seen)} reachable bodies, none marks")
    return n


def rule_orphans_and_order(rep, prog, eff, sites, used):
    """every mark call site outside Bitmap impls is paired with a write; the write dominates it (R16.3)"""
    n = 0
    by_body = {}
    for s in sites:
        by_body.setdefault(s["body"].id, []).append(s)
    for b in prog.bodies:
        if b.impl_trait == "bitmap::Bitmap" or (b.kind == "Closure" and prog.by_id.get(b.root) and prog.by_id[b.root].impl_trait == "bitmap::Bitmap"):
            continue
        if b.self_adt == "bitmap::backend::atomic_bitmap::AtomicBitmap":
            continue
        for c in b.calls():
            if not canon(c.target or "").endswith("Bitmap::mark_dirty"):
                continue
            n += 1
            inst = f"{b.key}|mark({tstr(deep_strip(c.arg(1)))},{tstr(eff.inline(c.arg(2)))[:60]})"
            if (b.id, c.bb) not in used:
                rep("R16.1.orphan_mark", inst, False, c.where(), "this mark_dirty is not paired with any guest write in the same body: it marks pages nobody wrote")
                continue
            ws = by_body.get(b.id, [])
            dom = any(b.pos_dominates(w["pos"], c.pos) for w in ws)
            loop_diff = False
            nt = deep_strip(eff.inline(c.arg(2)))
            if nt[0] == 'field' and nt[2] == '0':
                nt = nt[1]
            if nt[0] == 'bin' and nt[1].startswith("Sub") and deep_strip(nt[2])[0] == 'var':
                loop_diff = True
            nn = norm(eff.inline(c.arg(2)))
            if not dom and nn[0] == 'bin' and nn[1] == 'Mul':
                # length = (iterations of the element loop that contains the write) * size: zero when the loop body never ran
                for il in loops.iter_loops(b, eff):
                    if any(w["pos"][0] in il["blocks"] for w in ws) and any(loops.counts_items(b, il, x) for x in (nn[2], nn[3])):
                        loop_diff = True
            rep("R16.3.mark_after_write", inst, dom or loop_diff, c.where(),
                "the write dominates the mark" if dom else ("extent is the loop's pointer difference / iteration count (zero when nothing was written)" if loop_diff else
                "the mark can execute on a path where the write did not: a request rejected before any byte was written would still mark"))
    return n


def run(ctx, progs):
    for cfg, prog in progs.items():
        ctx.config = cfg
        eff = effects.Effects(prog)
        n = rule_no_mark_on_reads(ctx.ob, prog)
        ctx.floor("R16.1.read_entries", n, 70)
        sites, raw, host, used = c05.rule_marking(ctx.ob, prog, eff, strict=True)
        ctx.floor("R16.2.sites", len(sites), 7)
        n = rule_orphans_and_order(ctx.ob, prog, eff, sites, used)
        ctx.floor("R16.1.mark_sites", n, 8)
        c09.rule_range_form(ctx.ob, prog)
        # the only mark-everything branch: marks whose length is the accessor's full length although fewer bytes may have been written
        full = [o for o in ctx.obligations if o["rule"] == "R5.1.extent" and o["instance"].endswith("|error-edge") and o["config"] == cfg]
        ctx.ob("R16.2.mark_all_tabled", "io::read_volatile_raw_fd", len(full) == 1, "", f"{len(full)} mark-everything branch(es); the documented one is the failed descriptor read")
    ctx.config = "fixture"
    def fx_rules(rep, fxp):
        e = effects.Effects(fxp)
        s, r, h, u = c05.rule_marking(rep, fxp, e, strict=True)
        rule_orphans_and_order(rep, fxp, e, s, u)
        cg = fxp.callgraph()
        for b in fxp.find(adt="volatile_memory::VolatileSlice", name="load_marks"):
            seen, parent = fxp.reach([b.id])
            rep("R16.1.read_route_marks", b.key, not any(has_marker(fxp.by_id[x]) for x in seen), b.where(), "fixture read route")
    fixtures.expect(ctx, "c16", fx_rules, {"R16.1.read_route_marks", "R16.1.orphan_mark", "R5.1.extent"})
    ctx.not_decided = ["that first..=last contains only overlapping pages for every value (same number-theory remainder as C09)"]
    return ctx.finish(
        "other",
        "Effect analysis on the resolved call graph (trait dispatch over-approximated by all local impls): from every non-writing public route "
        "(reads, loads, queries, derivations, stream writes out of memory — enumerated from trait/impl tables) no body containing a marking call is "
        "reachable; every mark_dirty call site is paired with a guest write that dominates it and uses the transferred count (not the requested one), the "
        "only mark-everything branch being the failed descriptor read; the page loop has inclusive-last form. Decides 'marks only where written' "
        "structurally for all routes and lengths; the page arithmetic identity is not decided.",
        TRUSTED, "./check C16")
