"""C17 — pointer guards span their accessor; on-demand mappings cover every access.

R17.1 the length handed to every guard is the accessor's extent in BYTES, the pointer its own address;
      PtrGuard plumbing (read/write/new/as_ptr/len) forwards these unchanged;
R17.2 every raw access to guest memory goes through a pointer obtained from a guard of the accessor it
      belongs to (never the stored address directly); reference-producing casts count as accesses;
R17.3 no use of a guard's pointer after the guard is dead; the pointer is not returned;
R17.4 (XEN) the guard owns the temporary mapping; every derivation forwards the parent's mapping info;
      MmapRegion::get_slice passes Some(&mmap) iff the region is not mapped in advance; the window's
      Drop releases exactly what new_with mapped;
R17.5 (XEN) window arithmetic form: page base below the address, length = in-page offset + requested bytes.
"""
import re

from ..mir import deep_strip, tstr, strip_generics, canon, subterms, is_call
from .. import effects, tracking, fixtures
from . import c05

CONFIGS = ("FULL", "XEN")
TRUSTED = [
    "gntdev maps what the ioctl asked for; munmap/unmap ioctl release it (kernel)",
    "Rust drop semantics: a local guard is dropped at StorageDead / Drop of its local",
    "rustc nightly MIR construction and Instance resolution",
]
ACC = effects.ACCESSORS


def sizeof_t(t):
    """size_of::<T>() of the accessor's own element type parameter T (not of some other type)"""
    t = deep_strip(t)
    return t[0] == 'call' and canon(t[1]).split("::")[-1] == "size_of" and len(t) > 3 and tuple(t[3]) == ("T",)


def self_field(t, name):
    t = effects.base_of(t)
    return t[0] == 'field' and t[2] == name and effects.base_of(t[1])[0] == 'param' and effects.base_of(t[1])[1] == 1


def rule_guard_extent(rep, prog, eff):
    n = 0
    direct_new = {}
    for adt in ACC:
        for nm, ctor in (("ptr_guard", "PtrGuard::read"), ("ptr_guard_mut", "PtrGuardMut::write")):
            for b in prog.find(adt=adt, name=nm):
                n += 1
                cs = [c for c in b.calls() if canon(c.target or "").endswith(ctor) or canon(c.target or "").endswith("PtrGuard::new")]
                if len(cs) != 1:
                    rep("R17.1.guard_ctor", b.key, False, b.where(), f"{len(cs)} guard constructor calls (expected one {ctor})")
                    continue
                c = cs[0]
                a = [eff.inline(x) for x in c.args()]
                mm, addr, ln = a[0], a[1], a[-1]
                if canon(c.target or "").endswith("PtrGuard::new") and len(a) == 4:
                    # the read / write wrappers merged into the accessor: the protection flag is checked here instead
                    want_flag = 1 if nm == "ptr_guard_mut" else 0
                    rep("R17.1.plumbing", b.key, deep_strip(a[2]) == ('const', want_flag), b.where(c.line),
                        f"calls PtrGuard::new(.., write = {tstr(a[2])}, ..) directly; {nm} needs write = {bool(want_flag)}")
                    direct_new[nm] = direct_new.get(nm, 0) + 1
                short = adt.split("::")[-1]
                if short == "VolatileSlice":
                    ok = self_field(ln, "size")
                    want = "self.size"
                elif short == "VolatileRef":
                    ok = sizeof_t(ln)
                    want = "size_of::<T>()"
                else:
                    l = deep_strip(ln)
                    if l[0] == 'field' and l[2] == '0':
                        l = l[1]
                    ok = l[0] == 'bin' and l[1].startswith("Mul") and ((self_field(l[2], "nelem") and sizeof_t(l[3])) or (self_field(l[3], "nelem") and sizeof_t(l[2])))
                    if not ok and self_field(ln, "nelem"):
                        # elements(T) is only a byte count when size_of::<T>() == 1 is known from the instance
                        st = b.self_ty
                        targs = [x.s for x in st.peel().args()] if st else []
                        ok = bool(targs) and targs[0] in ("u8", "i8")
                    want = "self.nelem * size_of::<T>()"
                rep("R17.1.len_unit", b.key, ok, b.where(c.line),
                    f"guard length is `{tstr(ln)}`; the accessor covers `{want}` BYTES" + ("" if ok else " — an element count is not a byte count (unit error): on on-demand mappings the window is too short"))
                rep("R17.1.ptr", b.key, self_field(addr, "addr") and self_field(mm, "mmap"), b.where(c.line),
                    f"guard pointer `{tstr(addr)}`, mapping info `{tstr(mm)}`; must be the accessor's own addr and mmap fields")
    # plumbing
    for nm, flag in (("read", 0), ("write", 1)):
        adt = "volatile_memory::PtrGuard" if nm == "read" else "volatile_memory::PtrGuardMut"
        if not prog.find(adt=adt, name=nm) and direct_new.get("ptr_guard" if nm == "read" else "ptr_guard_mut"):
            n += 1      # the wrapper no longer exists: its one job (the protection flag) is checked at every guard site above
        for b in prog.find(adt=adt, name=nm):
            n += 1
            cs = [c for c in b.calls() if canon(c.target or "").endswith("PtrGuard::new")]
            ok = False
            detail = "no call to PtrGuard::new"
            if len(cs) == 1:
                a = [deep_strip(x) for x in cs[0].args()]
                ok = a[0][:2] == ('param', 1) and a[1][:2] == ('param', 2) and a[2] == ('const', flag) and a[3][:2] == ('param', 3)
                detail = f"calls new({', '.join(tstr(x) for x in a)})"
            rep("R17.1.plumbing", b.key, ok, b.where(), detail + f"; required new(mmap, addr, {bool(flag)}, len)")
    for b in prog.find(adt="volatile_memory::PtrGuard", name="new"):
        n += 1
        ok = False
        detail = "aggregate not found"
        for pos, s in b.stmts():
            if s["k"] == "assign" and s["rv"]["k"] == "agg" and s["rv"].get("adt") == "volatile_memory::PtrGuard":
                f = dict(zip(s["rv"]["fields"], [deep_strip(b.term(o, pos)) for o in s["rv"]["ops"]]))
                len_ok = f.get("len", ('x',))[:2] == ('param', 4)
                if "_slice" in f:
                    sl = f["_slice"]
                    while sl[0] == 'field' and sl[1][0] in ('agg',):
                        break
                    # addr = MmapXenSlice::addr(&slice), slice = MmapXen::mmap(mmap, addr, prot, len)
                    mm = [x for x in subterms(f["addr"]) if is_call(x, "MmapXen::mmap")]
                    sm = [x for x in subterms(sl) if is_call(x, "MmapXen::mmap")]
                    addr_ok = bool(mm) and bool(sm) and mm[0] == sm[0] and any(is_call(x, "MmapXenSlice::addr") for x in subterms(f["addr"]))
                    call_ok = False
                    if mm:
                        a = [deep_strip(x) for x in mm[0][2]]
                        call_ok = a[0][:2] == ('param', 1) and a[1][:2] == ('param', 2) and a[3][:2] == ('param', 4)
                    # prot: PROT_WRITE iff write
                    prot_ok = False
                    for c in b.calls():
                        if canon(c.target or "").endswith("MmapXen::mmap"):
                            pt = deep_strip(c.arg(2))
                            if pt[0] == 'var':
                                defs = {}
                                for dpos, dt in b.var_defs(pt[1]):
                                    facts = b.facts_at(dpos)
                                    w = [r for r in facts if r[0] == 'bool' and r[1][:2] == ('param', 3)]
                                    if w:
                                        defs[w[0][2]] = deep_strip(dt)
                                prot_ok = defs.get(True) == ('const', 2) and defs.get(False) == ('const', 1)
                    ok = len_ok and addr_ok and call_ok and prot_ok
                    detail = f"XEN: len_ok={len_ok} addr/slice from one MmapXen::mmap(mmap, addr, prot, len) call={addr_ok and call_ok} prot(PROT_WRITE iff write)={prot_ok}"
                else:
                    ok = len_ok and f.get("addr", ('x',))[:2] == ('param', 2)
                    detail = f"addr=`{tstr(f.get('addr'))}` len=`{tstr(f.get('len'))}`"
        rep("R17.1.plumbing", b.key, ok, b.where(), detail)
    for adt, path in (("volatile_memory::PtrGuard", ("addr",)), ("volatile_memory::PtrGuardMut", ("0", "addr"))):
        for nm, fld in (("as_ptr", "addr"), ("len", "len")):
            for b in prog.find(adt=adt, name=nm):
                n += 1
                r = b.return_terms()
                t = deep_strip(r[0][1]) if len(r) == 1 else None
                ok = t is not None and t[0] == 'field' and t[2] == fld
                rep("R17.1.plumbing", b.key, ok, b.where(), f"returns `{tstr(t) if t else '?'}`; required the stored `{fld}`")
    return n


def reference_sinks(prog, eff):
    """`&*(p)` / `&mut *(p)` where p is a raw pointer: a reference manufactured from a raw address"""
    for b in prog.bodies:
        if b.j.get("impl_derived"):
            continue
        for pos, s in b.stmts():
            if s["k"] == "assign" and s["rv"]["k"] == "ref":
                pl = s["rv"]["pl"]
                if pl.get("p") and pl["p"][0] == '*' and b.local_ty(pl["l"]).k == 'ptr':
                    t = b.local_term(pl["l"], pos, 0)
                    yield b, pos, s["ln"], t, eff.origin(b, t), s["rv"]["mut"]


def _extent_in_window(prog, eff, b, s, o):
    from ..bounds import Bounds, norm as bnorm
    from ..failsum import subst
    acc = effects.base_of(o[1])
    want = (bnorm(eff.inline(s["count"])), bnorm(('field', acc, 'size')))
    B = Bounds(b.facts_at(s["pos"]))
    if B.le(*want):
        return "count <= length of the guarded accessor at the access (ordering closure over the dominating facts)"
    adt = (eff._type_of_base(b, acc) or "")
    if adt.endswith("VolatileArrayRef") or adt.endswith("VolatileRef"):
        # the window of an element accessor is nelem * size_of::<T>() (resp. size_of::<T>()) bytes long
        nacc = bnorm(acc)

        def is_len(t):
            return (t[0] == 'field' and t[2] == 'nelem' and t[1] == nacc) or (t[0] == 'call' and canon(t[1]).endswith("VolatileArrayRef::len") and t[2] and bnorm(t[2][0]) == nacc)

        def is_esz(t):
            return t[0] == 'call' and (canon(t[1]).split("::")[-1] == "size_of" or canon(t[1]).endswith("::element_size"))
        for m in subterms(want[0]):
            if m[0] == 'bin' and m[1] == 'Mul' and ((is_len(m[2]) and is_esz(m[3])) or (is_len(m[3]) and is_esz(m[2]))) and B.le(want[0], m):
                return "count <= nelem * size_of::<T>() of the guarded element accessor"
            if adt.endswith("VolatileRef") and is_esz(m) and B.le(want[0], m):
                return "count <= size_of::<T>() of the guarded reference"
    root = prog.by_id.get(b.root, b) if b.kind == "Closure" else b
    f = prog.fns.get(root.id)
    if b is not root or f is None or f.get("vis") == "pub":
        return None
    if any(x[0] in ('var', 'unknown') for t in want for x in subterms(t)):
        return None
    sites = [(cb, c) for cb in prog.bodies for c in cb.calls() if c.target == b.id]
    if not sites:
        return None
    for cb, c in sites:
        args = [bnorm(eff.inline(a)) for a in c.args()]
        if not Bounds(cb.facts_at(c.pos)).le(bnorm(eff.inline(subst(want[0], args))), bnorm(eff.inline(subst(want[1], args)))):
            return None
    return f"crate-internal helper: each of its {len(sites)} call site(s) passes a count <= the length of the slice it passes"


def rule_access_in_guard(rep, prog, eff):
    n = 0
    seen = set()
    for role in ("dst", "src"):
        sites, raw, host, problems = tracking.accesses(prog, eff, role)
        for s in sites:
            b = s["body"]
            o = s["origin"]
            _sp, X = tracking.accessor_key(o)
            inst = f"{b.key}|{s['kind']}|{role}|{tstr(X)}"
            if inst in seen:
                continue
            seen.add(inst)
            n += 1
            if o[0] == 'atomic_ref':
                # the access itself goes through a reference produced elsewhere (counted at the reference sink)
                rep("R17.2.in_guard", inst, True, b.where(s["ln"]), "access through an atomic reference: judged at the reference-producing sink")
                continue
            ok = o[0] in ('guard', 'guard_value')
            rep("R17.2.in_guard", inst, ok, b.where(s["ln"]),
                f"{s['kind']} {'to' if role == 'dst' else 'from'} `{tstr(X)}`: pointer provenance {c05.show_origin(o)}" +
                ("" if ok else " — the stored address is used without a pointer guard; on a region mapped on demand it is not backed by any mapping"))
            # R17.7: a counted access starting at a guard's pointer stays inside that guard's window (the accessor's length); the
            # bound holds at the access, or — in a crate-internal helper that takes the count as a parameter — at every call site
            if o[0] == 'guard' and s.get("count") is not None and s.get("via") == "prim":
                why = _extent_in_window(prog, eff, b, s, o)
                rep("R17.7.extent_in_window", inst, why is not None, b.where(s["ln"]),
                    why or f"{s['kind']} of `{tstr(s['count'])[:50]}` bytes through a guard of `{tstr(X)[:50]}`: nothing shows count <= that accessor's length (the temporary "
                           "mapping of an on-demand region covers the accessor, not more)")
        for p in problems:
            b = p["body"]
            inst = f"{b.key}|{p['kind']}|{role}|unclassified"
            if inst in seen:
                continue
            seen.add(inst)
            rep("R17.2.classified", inst, False, b.where(p["ln"]), f"pointer of a memory access could not be classified: {c05.show_origin(p['origin'])}")
    for b, pos, ln, t, o, mut in reference_sinks(prog, eff):
        if o[0] == 'host' or (o[0] == 'param' and False):
            continue
        if o[0] in ('unknown', 'param'):
            # references to host objects (ByteValued::as_slice etc.): only accessor-rooted sinks are in scope
            continue
        n += 1
        _sp, X = tracking.accessor_key(o)
        inst = f"{b.key}|reference"
        ok = o[0] in ('guard', 'guard_value')
        rep("R17.2.in_guard", inst, ok, b.where(ln),
            f"{'&mut' if mut else '&'} reference manufactured from {c05.show_origin(o)}" +
            ("" if ok else " — dereferences the stored address with no guard, and the returned reference cannot keep a temporary mapping alive"))
    return n


def rule_guard_liveness(rep, prog, eff):
    """R17.3: accesses through g.as_ptr() happen while g is live; the pointer is not returned"""
    n = 0
    for b in prog.bodies:
        if b.j.get("impl_derived"):
            continue
        # guard locals: dest of calls to ptr_guard / ptr_guard_mut
        guards = {}
        for c in b.calls():
            if canon(c.target or "").split("::")[-1] in ("ptr_guard", "ptr_guard_mut") and "p" not in c.t["dest"]:
                guards[c.t["dest"]["l"]] = c
        if not guards:
            continue
        for g, gc in guards.items():
            n += 1
            # death points of g
            deaths = []
            for bi, blk in enumerate(b.blocks):
                if blk["cleanup"] or bi not in b.live_blocks():
                    continue
                for si, s in enumerate(blk["stmts"]):
                    if s["k"] == "dead" and s["l"] == g:
                        deaths.append((bi, si))
                t = blk["term"]
                if t["k"] == "drop" and t["pl"]["l"] == g and "p" not in t["pl"]:
                    deaths.append((bi, len(blk["stmts"])))
                # moved into a call (e.g. mem::drop(g)) also ends it
                if t["k"] == "call":
                    for a in t["args"]:
                        if a["k"] == "move" and a["pl"]["l"] == g and "p" not in a["pl"]:
                            deaths.append((bi, len(blk["stmts"])))
            # pointer locals derived from as_ptr(&g)
            uses = []
            for c in b.calls():
                p = effects.prim_of(c)
                for i, a in enumerate(c.t["args"]):
                    t = deep_strip(b.term(a, c.pos))
                    if any(is_call(x, "PtrGuard::as_ptr", "PtrGuardMut::as_ptr") and _mentions_local(b, x, g) for x in subterms(t)):
                        if canon(c.target or "").split("::")[-1] == "as_ptr":
                            continue
                        uses.append((c.pos, c.line, canon(c.target or "")))
            bad = []
            for (ub, ui), ln, what in uses:
                for (db, di) in deaths:
                    after = (db == ub and di < ui) or (db != ub and ub in b.reachable(db) and not b.node_dominates(ub, db))
                    if db != ub and ub in b.reachable(db):
                        # is there a re-definition of g between? (loops) — guard defined once: a use reachable from its death is stale
                        after = True
                    if after:
                        bad.append((ln, what))
            rts = b.return_terms()
            escapes = False
            if b.local_ty(0).k in ("ptr", "ref"):
                for _p, t in rts:
                    o = eff.origin(b, t)
                    if o[0] in ("guard", "guard_value"):
                        escapes = True
            inst = f"{b.key}|guard"
            rep("R17.3.live", inst, not bad and not escapes, b.where(gc.line),
                f"{len(uses)} use(s) of the guard's pointer, all before the guard dies" if not bad and not escapes else
                (f"pointer used after the guard died at lines {sorted(set(l for l, _w in bad))}" if bad else "the guard's pointer escapes through the return value"))
    return n


def _mentions_local(b, call_term, g):
    """does as_ptr(&<guard>) refer to the guard produced by the call assigned to local g?"""
    arg = effects.base_of(call_term[2][0])
    ds = b.defs(g)
    if len(ds) == 1 and ds[0][1] == "call":
        gt = deep_strip(b.call_term(ds[0][2], ds[0][0], 0))
        return arg == gt
    return False


# ----------------------------------------------------------------------------------------- XEN
def rule_xen(rep, prog, eff):
    n = 0
    # R17.4a: PtrGuard owns the window
    a = prog.adts.get("volatile_memory::PtrGuard")
    fields = {f["name"]: prog.types[f["ty"]]["s"] for f in a["variants"][0]["fields"]}
    rep("R17.4.guard_owns_window", "volatile_memory::PtrGuard", fields.get("_slice") == "mmap::xen::MmapXenSlice", f"{a['file']}:{a['line']}",
        f"PtrGuard fields: {fields}; the guard must own the MmapXenSlice so the window lives exactly as long as the guard")
    n += 1
    # R17.4b: every derivation forwards the parent's mmap unchanged
    for b in prog.bodies:
        if b.j.get("impl_derived"):
            continue
        for c in b.calls():
            cn = canon(c.target or "")
            if not (any(cn.startswith(x + "::") for x in ACC) and cn.split("::")[-1] == "with_bitmap"):
                continue
            n += 1
            args = [deep_strip(x) for x in c.args()]
            ptr, mm = args[0], args[-1]
            pb = effects.base_of(c05._peel_ptr(ptr)[0])
            inst = f"{b.key}->{cn.split('::')[-2]}|mmap"
            if pb[0] == 'field' and pb[2] == 'addr':
                parent = effects.base_of(pb[1])
                ok = effects.base_of(mm) == ('field', parent, 'mmap') or (effects.base_of(mm)[0] == 'field' and effects.base_of(mm)[2] == 'mmap' and effects.base_of(effects.base_of(mm)[1]) == parent)
                rep("R17.4.forward_mmap", inst, ok, b.where(c.line), f"pointer from `{tstr(parent)}.addr`, mapping info `{tstr(mm)}`; must be `{tstr(parent)}.mmap`")
            elif b.self_adt and b.self_adt.endswith("xen::MmapRegion"):
                # region level: Some(&self.mmap) iff !mmap_in_advance()
                ok = False
                detail = f"mapping info `{tstr(mm)}`"
                if mm[0] == 'var':
                    defs = {}
                    for dpos, dt in b.var_defs(mm[1]):
                        facts = b.facts_at(dpos)
                        w = [r for r in facts if r[0] == 'bool' and is_call(r[1], "MmapXen::mmap_in_advance")]
                        if w:
                            defs[w[0][2]] = deep_strip(dt)
                    some = defs.get(False)
                    none = defs.get(True)
                    ok = some is not None and none is not None and some[0] == 'agg' and some[2] == 'Some' and self_field(some[3][0], "mmap") and none[0] == 'agg' and none[2] == 'None'
                    detail = f"in_advance => {tstr(none) if none else '?'}; on demand => {tstr(some) if some else '?'}"
                rep("R17.4.region_mmap", inst, ok, b.where(c.line), detail + "; required None when mapped in advance, Some(&self.mmap) otherwise")
            else:
                ok = mm[0] == 'param' or (mm[0] == 'agg' and mm[2] == 'None')
                rep("R17.4.forward_mmap", inst, ok, b.where(c.line), f"constructor pass-through / untracked source: mapping info `{tstr(mm)}`")
    # R17.5 window arithmetic
    b = prog.one(adt="mmap::xen::MmapXenSlice", name="new_with")
    n += 1
    ok = False
    detail = "aggregate not found"
    for pos, s in b.stmts():
        if s["k"] == "assign" and s["rv"]["k"] == "agg" and s["rv"].get("adt") == "mmap::xen::MmapXenSlice":
            f = dict(zip(s["rv"]["fields"], [deep_strip(b.term(o, pos)) for o in s["rv"]["ops"]]))

            def unov(t):
                t = deep_strip(t)
                return t[1] if t[0] == 'field' and t[2] == '0' and t[1][0] == 'bin' else t
            off = ('param', 2, b.local_name(2))
            ln = ('param', 4, b.local_name(4))
            size = unov(f["size"])
            # size = (off - (off/ps)*ps) + len
            def is_ps(t):
                return is_call(deep_strip(t), "xen::page_size")
            def page_base(t):
                t = unov(t)
                if t[0] == 'bin' and t[1].startswith("Mul"):
                    d, p = unov(t[2]), t[3]
                    return d[0] == 'bin' and d[1] == 'Div' and deep_strip(d[2]) == off and is_ps(d[3]) and is_ps(p)
                return False
            def in_page(t):
                t = unov(t)
                return t[0] == 'bin' and t[1].startswith("Sub") and deep_strip(t[2]) == off and page_base(t[3])
            size_ok = size[0] == 'bin' and size[1].startswith("Add") and in_page(size[2]) and deep_strip(size[3]) == ln
            # mmap_range(grant, GuestAddress(guest_base + page_base), size, prot)
            mr = [c for c in b.calls() if canon(c.target or "").endswith("MmapXenGrant::mmap_range")]
            range_ok = False
            if len(mr) == 1:
                a = [deep_strip(x) for x in mr[0].args()]
                ga = a[1]
                if ga[0] == 'agg' and len(ga[3]) == 1:
                    g = unov(ga[3][0])
                    range_ok = g[0] == 'bin' and g[1].startswith("Add") and page_base(g[3]) and any(x[0] == 'field' and x[2] == 'guest_base' for x in subterms(g[2])) \
                        and unov(a[2]) == size and a[3][:2] == ('param', 3)
            # addr = unix_mmap.addr().add(in_page)
            addr = f["addr"]
            addr_ok = addr[0] == 'call' and canon(addr[1]).endswith("mut_ptr::add") and in_page(addr[2][1]) and is_call(deep_strip(addr[2][0]), "MmapUnix::addr")
            own_ok = f["grant"][0] == 'agg' and f["grant"][2] == 'Some' and f["unix_mmap"][0] == 'agg' and f["unix_mmap"][2] == 'Some'
            ok = size_ok and range_ok and addr_ok and own_ok
            detail = f"size=in_page+len:{size_ok} mmap_range(guest_base+page_base, size, prot):{range_ok} addr=mapping+in_page:{addr_ok} owns grant+mapping:{own_ok}"
    rep("R17.5.window_form", b.key, ok, b.where(), detail)
    # the trait entry point hands new_with its own arguments: the window is computed for THIS address and length
    for g in prog.find(adt="mmap::xen::MmapXenGrant", trait="mmap::xen::MmapXenTrait", name="mmap_slice"):
        n += 1
        nw = [c for c in g.calls() if canon(c.target or "").endswith("MmapXenSlice::new_with")]
        okw = False
        if len(nw) == 1:
            from ..pat import unref as _u
            a = [_u(x) for x in nw[0].args()]
            okw = is_call(a[0], "Clone::clone") and _u(a[0][2][0])[:2] == ('param', 1) and a[1][:2] == ('param', 2) and a[2][:2] == ('param', 3) and a[3][:2] == ('param', 4)
        rep("R17.5.window_args", g.key, okw, g.where(), "mmap_slice(addr, prot, len) = MmapXenSlice::new_with(self.clone(), addr as usize, prot, len)")
    # pages() uses ceil
    b = prog.one(name="pages", path_re=r"^mmap::xen::pages$")
    n += 1
    dc = [c for c in b.calls() if canon(c.target or "").endswith("div_ceil")]
    rep("R17.5.pages_ceil", b.key, len(dc) == 1 and deep_strip(dc[0].arg(0))[:2] == ('param', 1), b.where(), "page count must round up (div_ceil) so the window covers its last byte")
    # R17.4c Drop releases exactly what was mapped
    for adt in ("mmap::xen::MmapXenSlice", "mmap::xen::MmapXenGrant"):
        bs = prog.find(adt=adt, trait="std::ops::Drop", name="drop")
        n += 1
        ok = False
        detail = "no Drop impl"
        if len(bs) == 1:
            b = bs[0]
            ur = [c for c in b.calls() if canon(c.target or "").endswith("MmapXenGrant::unmap_range")]
            if len(ur) == 1:
                a = [deep_strip(x) for x in ur[0].args()]
                ok = self_field(a[2], "size") and self_field(a[3], "index") and any(x[0] == 'field' and x[2] == 'unix_mmap' for x in subterms(a[1]))
                detail = f"unmap_range({', '.join(tstr(x) for x in a)})"
            else:
                detail = f"{len(ur)} unmap_range calls"
        rep("R17.4.drop_unmaps", adt, ok, bs[0].where() if bs else "", detail + "; required unmap_range(self.unix_mmap.take(), self.size, self.index)")
    b = prog.one(adt="mmap::xen::MmapXenGrant", name="unmap_range")
    n += 1
    order = [canon(c.target or "").split("::")[-1] for c in b.calls()]
    ok = "drop" in order and "unmap_ioctl" in order and order.index("drop") < order.index("unmap_ioctl")
    rep("R17.4.unmap_order", b.key, ok, b.where(), f"call order {order}: the mapping must be dropped (munmap) before the unmap ioctl")
    ui = [c for c in b.calls() if canon(c.target or "").endswith("MmapXenGrant::unmap_ioctl")]
    okc = False
    detail = f"{len(ui)} unmap_ioctl calls"
    if len(ui) == 1:
        a = [deep_strip(x) for x in ui[0].args()]
        cnt = a[1]
        while cnt[0] in ('cast',):
            cnt = deep_strip(cnt[2])
        from ..pat import unref as _unref
        cnt = _unref(a[1])
        pg = cnt[1] if cnt[0] == 'field' and cnt[2] == '0' else None
        okc = pg is not None and is_call(_unref(pg), "pages") and _unref(_unref(pg)[2][0])[:2] == ('param', 3) and _unref(a[2])[:2] == ('param', 4)
        detail = f"unmap_ioctl({tstr(a[1])}, {tstr(a[2])})"
    n += 1
    rep("R17.4.unmap_count", b.key, okc, b.where(), detail + "; required unmap_ioctl(pages(size).0, index): every grant reference that was mapped for this window is released")
    return n


def run(ctx, progs):
    for cfg, prog in progs.items():
        ctx.config = cfg
        eff = effects.Effects(prog)
        n = rule_guard_extent(ctx.ob, prog, eff)
        ctx.floor("R17.1.guards", n, 13)
        n = rule_access_in_guard(ctx.ob, prog, eff)
        ctx.floor("R17.2.accesses", n, 14)
        n = rule_guard_liveness(ctx.ob, prog, eff)
        ctx.floor("R17.3.guards", n, 8)
        # a guard of an element array starts at the first byte of what it guards and is as long in BYTES: element counts / indices
        # must be scaled before they become pointer offsets or guard lengths (unit rule shared with C01 R1.7)
        from . import c01

        def rep176(rule, instance, ok, where="", detail=""):
            if re.search(r"\|(add|sub|offset|wrapping_add|wrapping_sub|read|write|new)#", instance):
                return ctx.ob("R17.6.guard_units", instance, ok, where, detail)
            return ok
        c01.rule_element_units(rep176, prog, eff)
        if cfg == "XEN":
            n = rule_xen(ctx.ob, prog, eff)
            ctx.floor("R17.4.xen", n, 19)
    ctx.config = "fixture"
    fixtures.expect(ctx, "c17", lambda rep, fx: rule_access_in_guard(rep, fx, effects.Effects(fx)), {"R17.2.in_guard"})
    ctx.not_decided = [
        "that gntdev maps what the ioctl asked; absence of leftover windows after a history follows from per-access RAII (R17.3/R17.4), not from observing a device",
    ]
    return ctx.finish(
        "other",
        "Unit/extent typing of every guard length (bytes, not elements), provenance of every raw guest access (must come from a guard of the accessor it "
        "belongs to), guard liveness in MIR (no use after StorageDead/Drop, no escape), and — in the Xen configuration, which no baseline test compiles — "
        "ownership of the temporary window by the guard, forwarding of mapping info through all derivations, Some(&mmap) iff on-demand, window arithmetic "
        "form and exactly-matching release. Structural necessary conditions for every accessor kind, element type and offset; device behaviour is trusted.",
        TRUSTED, "./check C17")
