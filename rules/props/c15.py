"""C15 — region construction accepts exactly the safe requests and builds what was asked.

Outcome tables: for every return of the construction functions the branch facts that dominate it must be the
documented rejection condition (right strictness) or, for success, all checks passed; every rejection dominates
the first mapping effect; what is checked is what is mapped and what the region later reports (field-to-field
agreement); the Xen flag validity predicate is enumerated over all 16 predicate assignments.
"""
import itertools
import re

from ..mir import deep_strip, tstr, strip_generics, canon, subterms, is_call
from .. import effects, checks
from ..pat import P, K, V, C, F, AGG, OKP, BIN, CLO, TUP, FN, ANY, ALT, match, unref

CONFIGS = ("FULL", "XEN")
TRUSTED = [
    "the kernel maps what mmap was asked for; file coherence of MAP_SHARED mappings (OS behaviour)",
    "libc constant values (MAP_FIXED = 0x10, PROT_*), bitflags!-generated from_bits/contains/bits",
    "rustc nightly MIR construction and const evaluation",
]
MAP_FIXED = 0x10


def facts_str(facts):
    from .c07 import fact_str
    return "; ".join(fact_str(r) for r in facts)


def err_variant(t):
    t = deep_strip(t)
    if t[0] == 'agg' and t[2] == 'Err':
        v = unref(t[3][0])
        if v[0] == 'agg':
            return v[2]
    return None


def only_map_fixed_test(fs):
    """facts at an Err(MapFixed) return: the MAP_FIXED test itself (any spelling) and the Some-ness of an optional flags word;
    returns the list of OTHER conditions on that path (must be empty: MAP_FIXED is refused for every request, not some)"""
    extra = []
    for r in fs:
        if r[0] == 'variant':
            continue        # the name of a variant whose index is a `discr` fact of the same list
        if r[0] == 'cmp' and any(match(BIN("BitAnd", ANY, K(MAP_FIXED)), x, {}) for x in (r[2], r[3])):
            continue
        if r[0] == 'discr' and any(s[0] == 'field' and s[2] == 'flags' for s in subterms(deep_strip(r[1]))):
            continue
        # the raw-pointer path (nothing is mapped there) is split off before the test
        if r[0] in ('discr', 'bool') and any(s[0] == 'field' and s[2] == 'raw_ptr' for s in subterms(deep_strip(r[1]))):
            continue
        if r[0] == 'cmp' and r[1] in ('Eq', 'Ne') and any(x == ('const', 0) for x in (r[2], r[3])) and any(deep_strip(x)[0] == 'const' for x in (r[2], r[3])) and all(deep_strip(x)[0] == 'const' for x in (r[2], r[3])):
            continue
        extra.append(facts_str([r])[:80])
    return extra


def rule_check_file_offset(ctx, prog):
    b = prog.one(name="check_file_offset", path_re=r"^mmap::check_file_offset$")
    seen = set()
    from .. import outcomes as _oc
    _eff = effects.Effects(prog)
    # outcome table: the same for `if let Some(end) = .. else`, `checked_add(..).ok_or(E)?`, match / map_err spellings
    for o in _oc.outcomes(prog, _eff, b):
        pos, t = o[0], o[1]
        facts = _oc.facts_of(b, o, (prog, _eff))
        v = err_variant(t)
        td = deep_strip(t)
        end = OKP(C("num::checked_add", C("FileOffset::start", P(1)), P(2)))
        if v == "MappingPastEof":
            ok = any(r[0] == 'cmp' and r[1] == 'Lt' and match(OKP(C("Seek::seek", ANY, ANY)), r[2], {}) and match(end, r[3], {}) for r in facts) or \
                any(r[0] == 'cmp' and r[1] == 'Gt' and match(end, r[2], {}) and match(OKP(C("Seek::seek", ANY, ANY)), r[3], {}) for r in facts)
            seen.add(v)
            ctx.ob("R15.2.past_eof", b.key, ok, b.where(), "Err(MappingPastEof) iff filesize < start + size (LEN < CUT, strict): " + facts_str(facts)[:200])
        elif v == "InvalidOffsetLength":
            # the None edge of checked_add: no fact `checked_add is Some` holds here
            some = any(r[0] == 'discr' and r[2] == 1 and match(C("num::checked_add", C("FileOffset::start", P(1)), P(2)), r[1], {}) for r in facts)
            seen.add(v)
            ctx.ob("R15.2.offset_overflow", b.key, not some, b.where(), "Err(InvalidOffsetLength) on the None edge of start.checked_add(size)")
        elif td[0] == 'agg' and td[2] == 'Ok':
            ok = any(r[0] == 'discr' and r[2] == 1 and match(C("num::checked_add", C("FileOffset::start", P(1)), P(2)), r[1], {}) for r in facts) and \
                any(r[0] == 'cmp' and r[1] == 'Ge' and match(end, r[3], {}) for r in facts)
            seen.add("Ok")
            ctx.ob("R15.2.file_ok", b.key, ok, b.where(), "Ok only when start+size did not overflow and filesize >= start+size")
    ctx.ob("R15.2.file_outcomes", b.key, {"MappingPastEof", "InvalidOffsetLength", "Ok"} <= seen, b.where(), f"outcomes: {sorted(seen)}")


def rule_unix_build(ctx, prog):
    b = prog.one(adt="mmap::unix::MmapRegionBuilder", name="build")
    mm = [c for c in b.calls() if canon(c.target or "") == "libc::mmap"]
    if len(mm) != 1:
        ctx.ob("R15.1.mmap_site", b.key, False, b.where(), f"{len(mm)} libc::mmap calls in build()")
        return
    c = mm[0]
    facts = b.facts_at(c.pos)
    fixed_ok = any(r[0] == 'cmp' and r[1] == 'Eq' and r[3] == ('const', 0) and match(BIN("BitAnd", F(P(1), "flags"), K(MAP_FIXED)), r[2], {}) for r in facts)
    raw_ok = any(r[0] == 'bool' and r[2] is False and match(C("Option::is_some", F(P(1), "raw_ptr")), r[1], {}) for r in facts) or \
        any(r[0] == 'discr' and r[2] == 0 and match(F(P(1), "raw_ptr"), r[1], {}) for r in facts)
    ctx.ob("R15.1.map_fixed_rejected", b.key, fixed_ok, c.where(), f"mmap is dominated by (self.flags & MAP_FIXED) == 0: {fixed_ok}")
    ctx.ob("R15.1.raw_path_separate", b.key, raw_ok, c.where(), "mmap only on the raw_ptr.is_none() path")
    # MapFixed error outcome
    for pos, t in b.return_terms():
        if err_variant(t) == "MapFixed":
            fs = b.facts_at(pos)
            ok = any(r[0] == 'cmp' and r[1] == 'Ne' and r[3] == ('const', 0) and match(BIN("BitAnd", F(P(1), "flags"), K(MAP_FIXED)), r[2], {}) for r in fs)
            extra = only_map_fixed_test(fs)
            ctx.ob("R15.1.map_fixed_outcome", b.key, ok and not extra, b.where(), f"Err(MapFixed) iff self.flags & MAP_FIXED != 0 (other conditions on this path: {extra})")
    # (fd, offset): file present => check_file_offset(f, self.size) succeeded
    a = [unref(x) for x in c.args()]
    agree = match(F(P(1), "size"), a[1], {}) and match(F(P(1), "prot"), a[2], {}) and match(F(P(1), "flags"), a[3], {})
    ctx.ob("R15.3.mmap_operands", b.key, agree, c.where(), f"mmap(null, {tstr(a[1])}, {tstr(a[2])}, {tstr(a[3])}, fd, offset): size/prot/flags are the builder's same-named fields")
    fdv = a[4]
    ok_fd = False
    detail = f"fd operand `{tstr(fdv)}`"
    # the (fd, offset) pair may be a tuple assigned in two arms, or the Ok payload of an (inlined) helper with two success exits:
    # one alternative per definition, each at the place of its definition
    from .. import outcomes
    alts = outcomes.feasible_alternatives(b, c.pos, ('agg', 'tuple', None, (a[4], a[5])))
    if len(alts) >= 2:
        arms = {"file": False, "anon": False, "other": 0}
        for dpos, d in alts:
            x, y = unref(d[3][0]), unref(d[3][1])
            if x == ('const', -1) and y == ('const', 0):
                fs = b.facts_at(dpos)
                arms["anon"] = any(r[0] == 'discr' and r[2] == 0 and match(F(P(1), "file_offset"), r[1], {}) for r in fs)
            else:
                succ = checks.succeeded(b, dpos)
                chk = [s for s in succ if s[0] == 'call' and canon(s[1]).endswith("check_file_offset")]
                good = False
                for s in chk:
                    e = {}
                    if match(C("check_file_offset", V("f"), F(P(1), "size")), s, e):
                        f = e["f"]
                        good = match(C("AsRawFd::as_raw_fd", C("FileOffset::file", V("f"))), x, {"f": f}) and match(C("FileOffset::start", V("f")), y, {"f": f})
                if good:
                    arms["file"] = True
                else:
                    arms["other"] += 1
        ok_fd = arms["file"] and arms["anon"] and not arms["other"]
        detail = f"file arm: (f.file().as_raw_fd(), f.start()) behind successful check_file_offset(f, self.size) [{arms['file']}]; anonymous arm (-1, 0) [{arms['anon']}]"
    ctx.ob("R15.1.file_checked_before_mmap", b.key, ok_fd, c.where(), detail)
    # aggregates copy same-named fields
    for bb in (b, prog.one(adt="mmap::unix::MmapRegionBuilder", name="build_raw")):
        for pos, s in bb.stmts():
            if s["k"] == "assign" and s["rv"]["k"] == "agg" and s["rv"].get("adt") == "mmap::unix::MmapRegion":
                f = dict(zip(s["rv"]["fields"], [unref(bb.term(o, pos)) for o in s["rv"]["ops"]]))
                bad = [k for k in ("size", "prot", "flags", "file_offset", "hugetlbfs", "bitmap") if not match(F(P(1), k), f.get(k), {})]
                ctx.ob("R15.3.region_fields", bb.key, not bad, bb.where(s["ln"]), f"region fields copied from the builder's same-named fields; mismatches: {bad}")
    # build_raw: alignment
    br = prog.one(adt="mmap::unix::MmapRegionBuilder", name="build_raw")
    for pos, t in br.return_terms():
        fs = br.facts_at(pos)
        # the pointer is self.raw_ptr: read inside build_raw, or handed in by build() (then every call site must pass exactly that)
        ptr_pats = [C("Option::unwrap", F(P(1), "raw_ptr"))]
        for k in range(2, br.arg_count + 1):
            if br.local_ty(k).k == 'ptr':
                sites = [(cb, c2) for cb in prog.bodies for c2 in cb.calls() if (c2.target or "") == br.id]
                if sites and all(unref(c2.arg(0))[:2] == ('param', 1) and
                                 (match(OKP(F(P(1), "raw_ptr")), c2.arg(k - 1), {}) or match(C("Option::unwrap", F(P(1), "raw_ptr")), c2.arg(k - 1), {}))
                                 for cb, c2 in sites):
                    ptr_pats.append(P(k))
        mask = BIN("BitAnd", ALT(*ptr_pats), BIN("Sub", C("libc::sysconf", ANY), K(1)))
        if err_variant(t) == "InvalidPointer":
            ok = any(r[0] == 'cmp' and r[1] == 'Ne' and r[3] == ('const', 0) and match(mask, r[2], {}) for r in fs)
            ctx.ob("R15.2.raw_alignment", br.key, ok, br.where(), "Err(InvalidPointer) iff (addr & (page_size - 1)) != 0")
    # getters
    for nm in ("size", "prot", "flags", "owned"):
        for g in prog.find(adt="mmap::unix::MmapRegion", name=nm):
            rt = g.return_terms()
            ctx.ob("R15.3.getter", g.key, len(rt) == 1 and match(F(P(1), nm), deep_strip(rt[0][1]), {}), g.where(), f"{nm}() returns self.{nm}")
    for g in prog.find(adt="mmap::unix::MmapRegion", name="file_offset"):
        rt = g.return_terms()
        ctx.ob("R15.3.getter", g.key, len(rt) == 1 and match(C("Option::as_ref", F(P(1), "file_offset")), deep_strip(rt[0][1]), {}), g.where(), "file_offset() returns self.file_offset.as_ref()")
    # setters of the builder assign the same-named field from their parameter
    for nm, fld in (("with_mmap_prot", "prot"), ("with_mmap_flags", "flags"), ("with_file_offset", "file_offset"), ("with_hugetlbfs", "hugetlbfs"), ("with_raw_mmap_pointer", "raw_ptr")):
        for g in prog.find(adt="mmap::unix::MmapRegionBuilder", name=nm):
            ws = []
            for pos, s in g.stmts():
                if s["k"] == "assign" and "p" in s["lhs"] and s["lhs"]["l"] == 1:
                    e = s["lhs"]["p"][-1]
                    if isinstance(e, dict) and e.get("name"):
                        ws.append((e["name"], deep_strip(g.rvalue_term(s["rv"], pos, 0))))
            ok = len(ws) == 1 and ws[0][0] == fld and any(unref(x)[:2] == ('param', 2) for x in subterms(ws[0][1]))
            ctx.ob("R15.3.setter", g.key, ok, g.where(), f"{nm} writes {ws and ws[0][0]} from its parameter")
    # public constructors pass parameters to the same-named setters
    for nm, chain in (("new", {"new_with_bitmap": 1}), ("from_file", {"new_with_bitmap": 2, "with_file_offset": 1}),
                      ("build", {"new_with_bitmap": 2, "with_mmap_prot": 3, "with_mmap_flags": 4}), ("build_raw", {"new_with_bitmap": 2, "with_raw_mmap_pointer": 1, "with_mmap_prot": 3, "with_mmap_flags": 4})):
        for g in prog.find(adt="mmap::unix::MmapRegion", name=nm):
            good = True
            d = []
            for callee, pidx in chain.items():
                cs = [c2 for c2 in g.calls() if canon(c2.target or "").endswith("MmapRegionBuilder::" + callee)]
                if len(cs) != 1:
                    good = False
                    d.append(f"{callee}: {len(cs)} calls")
                    continue
                arg = unref(cs[0].args()[0 if callee == "new_with_bitmap" else 1])
                if callee == "new_with_bitmap":
                    arg = unref(cs[0].args()[0])
                okp = arg[:2] == ('param', pidx) or (arg[0] == 'ok' and any(unref(x)[:2] == ('param', pidx) for x in subterms(arg)))
                good = good and okp
                d.append(f"{callee}({tstr(arg)})")
            bl = [c2 for c2 in g.calls() if canon(c2.target or "").endswith("MmapRegionBuilder::build")]
            ctx.ob("R15.3.public_ctor", g.key, good and len(bl) == 1, g.where(), "; ".join(d) + "; then build()")


def eval_bool_body(b, assign):
    """evaluate a loop-free body whose branches test predicate calls on self, for one assignment of truth values to the predicates
    (a finite table, enumerated over the CFG — nothing is executed); returns bool or None. Values live in locals or in the fields of a
    tuple local (`match (self.a(), self.b()) { (true, false) => .. }`)."""
    bb = 0
    steps = 0
    env = {}

    def key(pl):
        p = pl.get("p") or []
        if all(isinstance(e, dict) and set(e) == {"f"} for e in p):
            return (pl["l"],) + tuple(e["f"] for e in p)
        return None

    def val(o):
        if o["k"] == "const" and "val" in o:
            return bool(o["val"])
        if o["k"] in ("copy", "move"):
            k_ = key(o["pl"])
            return env.get(k_) if k_ is not None else None
        return None
    while steps < 200:
        steps += 1
        blk = b.blocks[bb]
        t = blk["term"]
        # statements: simple copies, Not, tuple construction
        for s in blk["stmts"]:
            if s["k"] != "assign":
                continue
            k_ = key(s["lhs"])
            if k_ is None:
                continue
            rv = s["rv"]
            if rv["k"] == "use":
                env[k_] = val(rv["op"])
            elif rv["k"] == "un" and rv["op"] == "Not":
                v = val(rv["a"])
                env[k_] = (not v) if v is not None else None
            elif rv["k"] == "agg" and rv.get("agg") == "tuple":
                for i, o in enumerate(rv["ops"]):
                    env[k_ + (i,)] = val(o)
            elif rv["k"] == "bin" and rv.get("op") in ("BitAnd", "BitOr", "BitXor", "Eq", "Ne"):
                x, y = val(rv["a"]), val(rv["b"])
                if x is not None and y is not None:
                    env[k_] = {"BitAnd": x and y, "BitOr": x or y, "BitXor": x != y, "Eq": x == y, "Ne": x != y}[rv["op"]]
        if t["k"] == "call":
            nm = canon(t.get("resolved") or t.get("callee") or "").split("::")[-1]
            k_ = key(t["dest"])
            if nm in assign and k_ is not None:
                env[k_] = assign[nm]
            elif nm == "not" and k_ is not None:
                v = val(t["args"][0])
                env[k_] = (not v) if v is not None else None
            else:
                return None
            bb = t["t"]
            continue
        if t["k"] == "goto":
            bb = t["t"]
        elif t["k"] == "switch":
            v = val(t["discr"])
            if v is None:
                return None
            nxt = t["otherwise"]
            for v2, tgt in t["targets"]:
                if int(bool(v)) == v2:
                    nxt = tgt
            bb = nxt
        elif t["k"] == "return":
            return env.get((0,))
        else:
            return None
    return None


def rule_xen(ctx, prog):
    FL = "mmap::xen::MmapXenFlags"
    # ---- flag constants
    vals = {}
    for path, c in prog.consts.items():
        m = re.match(r"^mmap::xen::MmapXenFlags::(UNIX|FOREIGN|GRANT|NO_ADVANCE_MAP|ALL)$", path)
        if m and "val" in c:
            vals[m.group(1)] = int(c["val"])
    ok = len(vals) == 5 and vals["UNIX"] == 0 and vals["ALL"] == (vals["FOREIGN"] | vals["GRANT"]) and \
        all(vals[a] & vals[b2] == 0 for a, b2 in itertools.combinations(("FOREIGN", "GRANT", "NO_ADVANCE_MAP"), 2)) and all(vals[k] for k in ("FOREIGN", "GRANT", "NO_ADVANCE_MAP"))
    ctx.ob("R15.4.flag_constants", FL, ok, "", f"flag values {vals}: UNIX = 0, FOREIGN/GRANT/NO_ADVANCE_MAP pairwise disjoint non-zero bits, ALL = FOREIGN | GRANT")
    # ---- predicates name the constants they test
    preds = {"is_unix": ("Eq", "UNIX"), "is_foreign": ("contains", "FOREIGN"), "is_grant": ("contains", "GRANT"), "mmap_in_advance": ("not_contains", "NO_ADVANCE_MAP")}
    for nm, (how, const) in preds.items():
        b = prog.one(adt=FL, name=nm)
        rt = b.return_terms()
        t = effects.Effects(prog).inline(rt[0][1]) if len(rt) == 1 else None
        ok = False
        if t is not None:
            mentions = [s for s in subterms(t) if s[0] == 'sym' and str(s[1]).endswith("MmapXenFlags::" + const)]
            if how == "Eq":
                ok = t[0] == 'bin' and t[1] == 'Eq' and bool(mentions) and any(is_call(x, "bits") for x in subterms(t))
            elif how == "contains":
                ok = is_call(t, "contains") and bool(mentions)
            else:
                ok = (t[0] == 'un' and t[1] == 'Not' and is_call(deep_strip(t[2]), "contains") and bool(mentions)) or (is_call(t, "Not::not") and bool(mentions))
        ctx.ob("R15.4.predicate", b.key, ok, b.where(), f"{nm}() = `{tstr(t) if t is not None else '?'}`; must test {const} by {how}")
    # ---- is_valid truth table
    b = prog.one(adt=FL, name="is_valid")
    rows = 0
    bad = []
    for g, f, u, adv in itertools.product((False, True), repeat=4):
        got = eval_bool_body(b, {"is_grant": g, "is_foreign": f, "is_unix": u, "mmap_in_advance": adv})
        want = (not f) if g else ((f or u) and adv)
        rows += 1
        if got is None or got != want:
            bad.append(f"(grant={g}, foreign={f}, unix={u}, in_advance={adv}) -> {got}, expected {want}")
    ctx.ob("R15.4.is_valid_truth_table", b.key, not bad, b.where(),
           f"{rows} assignments of the four predicates enumerated through the CFG; required grant ? !foreign : ((foreign || unix) && in_advance); mismatches: {bad[:4]}")
    ctx.extra["is_valid_rows"] = rows
    # ---- MmapXen::new outcome table
    b = prog.one(adt="mmap::xen::MmapXen", name="new")
    n_err = 0
    from .. import outcomes as _oc
    for o in _oc.outcomes(prog, effects.Effects(prog), b):
        if err_variant(o[1]) == "MmapFlags":
            n_err += 1
    ctx.ob("R15.1.xen_flag_rejections", b.key, n_err == 2, b.where(), f"{n_err} Err(MmapFlags) returns (unknown bits; !is_valid)")
    for nm in ("MmapXenForeign::new", "MmapXenGrant::new", "MmapXenUnix::new"):
        for c in b.calls():
            if canon(c.target or "").endswith(nm):
                fs = b.facts_at(c.pos)
                valid = any(r[0] == 'bool' and r[2] is True and is_call(unref(r[1]), "MmapXenFlags::is_valid") for r in fs)
                frombits = any(r[0] == 'discr' and r[2] == 1 and is_call(unref(r[1]), "from_bits") for r in fs)
                sel = {"MmapXenForeign::new": ("is_foreign", True), "MmapXenGrant::new": ("is_grant", True), "MmapXenUnix::new": ("is_grant", False)}[nm]
                selected = any(r[0] == 'bool' and r[2] is sel[1] and is_call(unref(r[1]), "MmapXenFlags::" + sel[0]) for r in fs)
                ctx.ob("R15.1.xen_backend_selection", f"{b.key}->{nm}", valid and frombits and selected, c.where(),
                       f"{nm} only after from_bits is Some [{frombits}], is_valid() [{valid}] and {sel[0]}() == {sel[1]} [{selected}]")
    # ---- from_range: MAP_FIXED test dominates MmapXen::new
    b = prog.one(adt="mmap::xen::MmapRegion", name="from_range")
    for c in b.calls():
        if canon(c.target or "").endswith("MmapXen::new"):
            has_fixed_err = any(err_variant(t) == "MapFixed" for _p, t in b.return_terms())
            ctx.ob("R15.1.xen_map_fixed", b.key, has_fixed_err and all(b.pos_dominates((0, 0), c.pos) for _ in [0]), c.where(), "Err(MapFixed) outcome exists and precedes MmapXen::new")
    for pos, t in b.return_terms():
        if err_variant(t) == "MapFixed":
            fs = b.facts_at(pos)
            ok = any(r[0] == 'cmp' and r[1] == 'Ne' and r[3] == ('const', 0) and match(BIN("BitAnd", ANY, K(MAP_FIXED)), r[2], {}) for r in fs)
            extra = only_map_fixed_test(fs)
            ctx.ob("R15.1.xen_map_fixed_outcome", b.key, ok and not extra, b.where(), f"Err(MapFixed) iff flags & MAP_FIXED != 0 (other conditions on this path: {extra})")
    # ---- validate_file
    b = prog.one(name="validate_file", path_re=r"^mmap::xen::validate_file$")
    seen = set()
    for pos, t in b.return_terms():
        v = err_variant(t)
        fs = b.facts_at(pos)
        if v == "InvalidFileOffset":
            seen.add(v)
            ctx.ob("R15.2.xen_file_missing", b.key, any(r[0] == 'discr' and r[2] == 0 for r in fs), b.where(), "Err(InvalidFileOffset) on the None edge")
        elif v == "InvalidOffsetLength":
            seen.add(v)
            ctx.ob("R15.2.xen_offset_nonzero", b.key, any(r[0] == 'cmp' and r[1] == 'Ne' and r[3] == ('const', 0) and is_call(unref(r[2]), "FileOffset::start") for r in fs), b.where(), "Err(InvalidOffsetLength) iff file offset != 0")
    ctx.ob("R15.2.xen_file_outcomes", b.key, seen == {"InvalidFileOffset", "InvalidOffsetLength"}, b.where(), f"outcomes {sorted(seen)}")
    for nm in ("MmapXenForeign", "MmapXenGrant"):
        g = prog.one(adt="mmap::xen::" + nm, name="new")
        vf = [c for c in g.calls() if canon(c.target or "").endswith("validate_file")]
        mm = [c for c in g.calls() if canon(c.target or "").endswith("MmapUnix::new") or canon(c.target or "").endswith("mmap_range")]
        ok = len(vf) == 1 and all(g.pos_dominates(vf[0].pos, m.pos) for m in mm) and bool(mm)
        ctx.ob("R15.1.xen_validate_first", g.key, ok, g.where(), "validate_file(&range.file_offset)? precedes every mapping effect")
    # MmapXenUnix::new checks the file range like the unix backend
    g = prog.one(adt="mmap::xen::MmapXenUnix", name="new")
    mm = [c for c in g.calls() if canon(c.target or "").endswith("MmapUnix::new")]
    ok = False
    if len(mm) == 1:
        a = [unref(x) for x in mm[0].args()]
        ok = match(F(P(1), "size"), a[0], {})
        if not ok and a[0][0] == 'param':
            # the size arrives as a parameter of its own: then every caller must hand in its range's `size`
            k = a[0][1]
            sites = [c2 for cb in prog.bodies for c2 in cb.calls() if (c2.target or "") == g.id]
            ok = bool(sites) and all(match(F(ANY, "size"), c2.arg(k - 1), {}) for c2 in sites)
    ctx.ob("R15.3.xen_unix_size", g.key, ok, g.where(), "MmapUnix::new(range.size, ..): the requested size is what is mapped")
    # xen region aggregate copies the range's fields
    b = prog.one(adt="mmap::xen::MmapRegion", name="from_range")
    for pos, s in b.stmts():
        if s["k"] == "assign" and s["rv"]["k"] == "agg" and s["rv"].get("adt") == "mmap::xen::MmapRegion":
            f = dict(zip(s["rv"]["fields"], [unref(b.term(o, pos)) for o in s["rv"]["ops"]]))
            okf = match(F(P(1), "size"), f.get("size"), {}) and any(s2[0] == 'field' and s2[2] == 'prot' for s2 in subterms(f.get("prot"))) and \
                any(s2[0] == 'field' and s2[2] == 'flags' for s2 in subterms(f.get("flags"))) and match(F(P(1), "file_offset"), f.get("file_offset"), {})
            ctx.ob("R15.3.xen_region_fields", b.key, okf, b.where(s["ln"]), "region { size, prot, flags, file_offset } copied from the same-named fields of the range")
    # a default fills only what the caller left open: every write to a field of the request happens where that field is known to be
    # None (found by negating `if range.prot.is_none()`: the requested protection was then replaced by the default, reported by nothing)
    n_w = 0
    for pos, s in b.stmts():
        if s["k"] == "assign" and s["lhs"].get("l") == 1 and s["lhs"].get("p"):
            pr = s["lhs"]["p"]
            fld = pr[0].get("name") if isinstance(pr[0], dict) else None
            if fld is None:
                continue
            n_w += 1
            facts = b.facts_at(pos)
            none_here = any((r[0] == 'discr' and r[2] == 0 and match(F(P(1), fld), r[1], {})) or
                            (r[0] == 'bool' and r[2] is True and match(C("Option::is_none", F(P(1), fld)), r[1], {})) for r in facts)
            ctx.ob("R15.3.xen_default_only_when_none", f"{b.key}|{fld}", none_here, b.where(s["ln"]),
                   f"`range.{fld}` is overwritten only where the caller left it None: {none_here} — otherwise the region reports a protection / flag word other than the requested one")
    for c in b.calls():
        cn = canon(c.target or "")
        if any(isinstance(a_, dict) and a_.get("k") in ("move", "copy") for a_ in c.t["args"]):
            for a_ in c.t["args"]:
                if a_.get("k") in ("move", "copy") and "p" not in a_["pl"]:
                    ds = b.defs(a_["pl"]["l"])
                    if len(ds) == 1 and ds[0][1] == "rv" and ds[0][2]["k"] == "ref" and ds[0][2].get("mut") and ds[0][2]["pl"].get("l") == 1 and ds[0][2]["pl"].get("p"):
                        n_w += 1
                        okc = cn.split("::")[-1] in ("get_or_insert", "get_or_insert_with")
                        ctx.ob("R15.3.xen_default_only_when_none", f"{b.key}|&mut via {cn.split('::')[-1]}", okc, c.where(),
                               "a field of the request is handed out mutably only to Option::get_or_insert(_with), which writes only a None")


def run(ctx, progs):
    for cfg, prog in progs.items():
        ctx.config = cfg
        rule_check_file_offset(ctx, prog)
        if cfg == "XEN":
            rule_xen(ctx, prog)
        else:
            rule_unix_build(ctx, prog)
        ctx.floor("R15.obligations", sum(1 for o in ctx.obligations if o["config"] == cfg), 20)
    ctx.not_decided = ["that the kernel maps what was asked; file coherence of a shared mapping in both directions (OS behaviour)",
                       "'nothing mapped behind on failure' beyond C12 R12.1 (no return edge between a successful mmap and its owner)"]
    return ctx.finish(
        "other",
        "Outcome tables from dominating branch facts: each rejection (MAP_FIXED, file range overflow / past EOF with the right strictness, misaligned raw pointer, "
        "missing file / non-zero offset and invalid flag sets for Xen) is raised exactly under its documented condition and precedes the first mapping effect; the operands "
        "of mmap and the fields of the resulting region are the request's same-named values (setter/getter/constructor agreement); the Xen validity predicate is executed "
        "symbolically over all 16 assignments of its four sub-predicates, which are tied to the bit values of the flag constants. Kernel behaviour is trusted.",
        TRUSTED, "./check C15")
