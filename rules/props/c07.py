"""C07 — guest-controlled addresses and lengths can never crash the monitor.

Panic-edge census over ALL non-derived bodies of every analysed configuration:
 (i)   every MIR Assert terminator (overflow, division by zero, bounds, ...),
 (ii)  every diverging call (panic!/assert!/unreachable! expansions) and every call to a callee on the
       may-panic list (unwrap/expect, indexing, split_at, offset_from, div_ceil, Vec::reserve/remove ...),
 (iii) every silent-wrap site (wrapping_*/saturating_* calls, narrowing integer casts).
Each edge is auto-discharged by a local lemma over dominating branch facts, or must match one line of
the reviewed-edge table (tables/c07_edges.py). Anything else is a violation. Every natural loop must be
of a recognised terminating shape (tables/c07_edges.py LOOPS).
"""
import re

from ..mir import deep_strip, tstr, strip_generics, canon, subterms, is_call, implies_ge, implies_lt
from ..tables import c07_edges as T
from .. import effects
from ..bounds import Bounds

CONFIGS = ("FULL", "XEN")
THOROUGH_CONFIGS = ("MIN",)
TRUSTED = [
    "std/libc callees not on the may-panic list are total for the arguments they receive (listed in evidence as assumed-total)",
    "allocation failure, stack overflow and foreign GuestMemory/ReadVolatile implementations are out of scope",
    "reviewed-edge table tables/c07_edges.py (each line carries its reason)",
    "rustc nightly MIR construction (overflow-checks=on, debug-assertions=on)",
    "arithmetic axioms of rules/bounds.py: unsigned interval arithmetic, monotonicity of min/max/&/>>/%//, range items, "
    "binary_search / partition_point results <= len, slices of non-zero-sized elements span <= isize::MAX bytes, page size >= 1; "
    "widening casts looked through, narrowing casts opaque",
]

MAY_PANIC = [
    (r"(Option|Result)::(unwrap|expect|unwrap_err|expect_err)$", "unwrap"),
    (r"Index::index$|IndexMut::index_mut$|slice::index::index(_mut)?$|SliceIndex::index(_mut)?$", "index"),
    (r"slice::split_at(_mut)?$|split_at(_mut)?_unchecked$|slice::copy_from_slice$|slice::clone_from_slice$|slice::swap$", "slice_op"),
    (r"(const_ptr|mut_ptr)::offset_from(_unsigned)?$|::sub_ptr$", "offset_from"),
    (r"num::div_ceil$|num::next_multiple_of$|ops::Div::div$|ops::Rem::rem$|num::(div|rem)_euclid$|num::ilog\w*$|num::pow$|num::abs$", "arith_call"),
    (r"Vec::(reserve|reserve_exact|remove|insert|swap_remove|split_off|drain)$", "vec_op"),
    # `a + b` on a GENERIC numeric type is a call in MIR (no Assert terminator): for the integer instantiations it is the same
    # overflow-checked operation
    (r"ops::(arith::|bit::)?(Add|Sub|Mul|Shl|Shr)::(add|sub|mul|shl|shr)$", "arith_generic"),
    (r"Address::unchecked_(add|sub|offset_from|align_up)$", "unchecked_addr"),
    (r"slice::(windows|chunks|chunks_exact|chunks_mut|rchunks)$|iter::Iterator::step_by$", "iter_ctor"),
    (r"Layout::(from_size_align_unchecked|array)$|alloc::alloc(_zeroed)?$", "alloc"),
    (r"RefCell::borrow(_mut)?$|Duration::\w+$|time::Instant::\w+$", "other_panic"),
]
MAY_PANIC = [(re.compile(p), k) for p, k in MAY_PANIC]
SILENT = re.compile(r"(num|ptr::mut_ptr|ptr::const_ptr)::(wrapping_\w+|saturating_\w+)$|num::unchecked_\w+$|ptr::(mut_ptr|const_ptr)::wrapping_\w+$")
INT_BITS = {"u8": 8, "u16": 16, "u32": 32, "u64": 64, "u128": 128, "usize": 64, "i8": 8, "i16": 16, "i32": 32, "i64": 64, "i128": 128, "isize": 64}


COMMUTATIVE = ("Add", "Mul", "BitAnd", "BitOr", "BitXor", "Eq", "Ne")
COMMUTATIVE_FNS = ("min", "max", "wrapping_add", "saturating_add", "checked_add", "wrapping_mul", "checked_mul", "saturating_mul")


def sig(t):
    """line-free, rename-tolerant signature of a term (params by position, locals anonymous)"""
    t = deep_strip(t)
    k = t[0]
    if k == 'param':
        return f"${t[1]}"
    if k == 'var':
        return "var"
    if k == 'const':
        return str(t[1])
    if k == 'sym':
        return f"<{strip_generics(str(t[1]))}>"
    if k == 'fn':
        return "fn"
    if k == 'field':
        return f"{sig(t[1])}.{t[2]}"
    if k == 'vfield':
        return f"{sig(t[1])}@{t[2]}"
    if k in ('deref', 'ref'):
        return sig(t[1])
    if k == 'index':
        return f"{sig(t[1])}[{sig(t[2])}]"
    if k == 'bin':
        op = t[1].replace('WithOverflow', '')
        a, b = sig(t[2]), sig(t[3])
        if op in COMMUTATIVE and b < a:
            a, b = b, a
        return f"({a} {op} {b})"
    if k == 'un':
        return f"{t[1]}({sig(t[2])})"
    if k == 'discr':
        return f"discr({sig(t[1])})"
    if k == 'agg':
        return f"{strip_generics(str(t[1])).split('::')[-1]}{{{','.join(sig(x) for x in t[3])}}}"
    if k == 'call':
        c = canon(t[1]).split('::')
        targs = ""
        if c[-1] in ("size_of", "align_of") and len(t) > 3 and t[3]:
            targs = "<" + ",".join(t[3]) + ">"
        args = [sig(x) for x in t[2]]
        if c[-1] in COMMUTATIVE_FNS and len(args) == 2 and "Address" not in c[-2:-1]:
            args = sorted(args)
        return f"{'::'.join(c[-2:])}{targs}({','.join(args)})"
    if k == 'ok':
        return f"ok({sig(t[1])})"
    return k


def edges_of(prog, b, eff=None):
    """yield dict(kind, sig, pos, ln, terms, exp). For a closure the operand terms are rewritten into the term space of the
    function that defines it (captures -> captured values, the closure's argument -> what map/and_then/map_err feeds it), so
    that `x.map(|v| f(v))` and `match x { Some(v) => f(v), .. }` give the same signature."""
    for e in _edges_of(prog, b):
        if b.kind == "Closure" and eff is not None and e.get("ops") and "resig" in e:
            lifted = [eff.in_parent(b, o, tag_own=True) for o in e["ops"]]
            ops = [x[1] for x in lifted]
            e = dict(e, ops=ops, ops_local=e["ops"], sig=e["resig"](ops), lifted=True, lift_body=lifted[0][0])
        yield e


def _foreign_block(b, bb):
    """a block spliced in from a KNOWN function along a new call edge (inline.py): its panic edges are that function's own, censused
    (and reviewed) in its stand-alone body under its own name — not new edges of the caller"""
    own = b.blocks[bb].get("owner")
    if not own:
        return False
    mine = b.root if (b.kind == "Closure" and b.root) else b.id
    return strip_generics(own) != strip_generics(mine)


def _edges_of(prog, b):
    for e in _edges_of_all(prog, b):
        if _foreign_block(b, e["pos"][0]):
            # an edge of an inlined KNOWN function: skipped unless that function discharges this kind of edge by a precondition on
            # its caller (table category P: documented unchecked / contract API) — then every new call site owes the review
            own = strip_generics(b.blocks[e["pos"][0]]["owner"])
            if e["kind"] not in getattr(prog, "_c07_contract_kinds", {}).get(own, ()):
                continue
            e["foreign_owner"] = own
        yield e


def _returns_param(prog, path):
    """k if the local function `path` returns its k-th parameter unchanged on every path (e.g. the raw copy helpers return `total`)"""
    memo = prog.__dict__.setdefault("_c07_retparam", {})
    if path in memo:
        return memo[path]
    memo[path] = None
    b = prog.by_id.get(path)
    if b is None or b.kind not in ("Fn", "AssocFn"):
        return None
    from ..pat import unref
    ks = set()
    for _p, t in b.return_terms():
        t = unref(t)
        for _ in range(4):
            # returned through another local function that itself returns one of its arguments
            if t[0] == 'call' and t[1] in prog.by_id and t[1] != path:
                k2 = _returns_param(prog, t[1])
                if k2 and k2 <= len(t[2]):
                    t = unref(t[2][k2 - 1])
                    continue
            break
        if t[0] != 'param':
            return None
        ks.add(t[1])
    memo[path] = ks.pop() if len(ks) == 1 else None
    return memo[path]


def contract_kinds(prog):
    """{function key: kinds of its own panic edges that are tabled as a caller precondition (category P)}"""
    out = {}
    prog._c07_contract_kinds = {}
    for b in prog.bodies:
        if b.j.get("impl_derived") or re.search(T.SKIP_BODIES, b.key):
            continue
        fnkey = strip_generics(b.root) if (b.kind == "Closure" and b.root) else b.key
        for e in _edges_of_all(prog, b):
            if _foreign_block(b, e["pos"][0]):
                continue
            if e["kind"] in ("DivisionByZero", "RemainderByZero"):
                continue
            row = table_lookup(b, fnkey, e)
            if row and row[3] == "P":
                out.setdefault(strip_generics(b.id if b.kind != "Closure" else b.root), set()).add(e["kind"])
    prog._c07_contract_kinds = out
    return out


def _edges_of_all(prog, b):
    for pos, t in b.terms():
        ln = t.get("ln")
        mac = t.get("mac", "") if t.get("exp") else ""
        if t["k"] == "assert":
            ops = [b.term(o, pos) for o in t["ops"]]
            sigs = [sig(o) for o in ops]
            if t["msg"] in ("Overflow:Add", "Overflow:Mul"):
                sigs = sorted(sigs)
            srt = t["msg"] in ("Overflow:Add", "Overflow:Mul")
            yield {"kind": t["msg"], "sig": ",".join(sigs), "pos": pos, "ln": ln, "ops": ops, "mac": mac,
                   "cond": b.term(t["cond"], pos), "expected": t["expected"],
                   "resig": (lambda o, srt=srt: ",".join(sorted(sig(x) for x in o) if srt else [sig(x) for x in o]))}
        elif t["k"] == "call":
            callee = t.get("resolved") or t.get("callee") or ""
            cn = canon(callee)
            args = None
            if t.get("t") is None:
                # diverging call
                yield {"kind": "diverge", "sig": f"{cn.split('::')[-1]}!{mac}", "pos": pos, "ln": ln, "ops": [], "mac": mac}
                continue
            for rx, kind in MAY_PANIC:
                if rx.search(cn):
                    if kind == "arith_generic" and t.get("resolved"):
                        break       # an operator impl of a concrete type: a local function with its own body, or std's
                    args = [b.term(a, pos) for a in t["args"]]
                    yield {"kind": kind, "sig": f"{'::'.join(cn.split('::')[-2:])}({','.join(sig(a) for a in args)})", "pos": pos, "ln": ln, "ops": args, "mac": mac, "callee": cn,
                           "resig": (lambda o, cn=cn: f"{'::'.join(cn.split('::')[-2:])}({','.join(sig(a) for a in o)})")}
                    break
            else:
                if SILENT.search(cn):
                    args = [b.term(a, pos) for a in t["args"]]
                    sa = [sig(a) for a in args]
                    if cn.split("::")[-1] in COMMUTATIVE_FNS:
                        sa = sorted(sa)
                    yield {"kind": "silent_wrap", "sig": f"{'::'.join(cn.split('::')[-2:])}({','.join(sa)})", "pos": pos, "ln": ln, "ops": args, "mac": mac, "callee": cn,
                           "resig": (lambda o, cn=cn: f"{'::'.join(cn.split('::')[-2:])}({','.join(sorted(sig(a) for a in o) if cn.split('::')[-1] in COMMUTATIVE_FNS else [sig(a) for a in o])})")}
    # narrowing casts
    for pos, s in b.stmts():
        if s["k"] == "assign" and s["rv"]["k"] == "cast" and s["rv"]["cast"] == "IntToInt":
            src = s["rv"]["op"]
            to = prog.types[s["rv"]["ty"]]["s"]
            if src["k"] == "const":
                continue
            frm = None
            if "pl" in src and "p" not in src["pl"]:
                frm = b.local_ty(src["pl"]["l"]).s
            elif "pl" in src:
                frm = None
            if frm in INT_BITS and to in INT_BITS and INT_BITS[to] < INT_BITS[frm]:
                tm = b.term(src, pos)
                yield {"kind": "narrowing_cast", "sig": f"{sig(tm)} as {frm}->{to}", "pos": pos, "ln": s["ln"], "ops": [tm], "mac": ""}


def const_of(t):
    t = deep_strip(t)
    return t[1] if t[0] == 'const' and isinstance(t[1], int) else None


def _mutable_self(b, param):
    ty = b.local_ty(param)
    return ty.k == 'ref' and bool(ty.j.get("mut"))


def auto_discharge(b, e):
    """local lemmas; returns reason string or None"""
    if "ops_local" in e:
        # the dominating facts of a closure body are in its own term space; failing that, decide the edge where the closure is
        # defined: operands rewritten into the parent's terms, facts = the parent's at the point of use + the chain's own
        why = _auto(b, dict(e, ops=e["ops_local"]))
        if why:
            return why
        return _auto(b, dict(e, _facts=edge_facts(b, e)))
    return _auto(b, e)


_SWAP = {"Gt": "Lt", "Lt": "Gt", "Ge": "Le", "Le": "Ge", "Eq": "Eq", "Ne": "Ne"}


def _canon_rel(op, x, y):
    from ..bounds import norm as bnorm
    x, y = bnorm(x), bnorm(y)
    return (op, x, y) if repr(x) <= repr(y) else (_SWAP[op], y, x)


def _assert_unreachable(b, e):
    """the failing branch of an assert!/debug_assert! is unreachable: (1) one of the comparisons that lead to it contradicts the
    other facts there (ordering closure; a local helper that returns its k-th argument is that argument); or (2) the function is
    not callable from outside the crate, the failing comparison mentions only its parameters, and every call site refutes it with
    its own arguments (a precondition that all callers establish, e.g. `total <= slice.len()` of the raw copy helpers)."""
    from ..failsum import subst
    from ..bounds import norm as bnorm
    facts = [r for r in b.facts_at(e["pos"]) if r[0] == 'cmp']
    rels = []
    for r in facts:
        cr = _canon_rel(r[1], r[2], r[3])
        if cr not in rels:
            rels.append(cr)
    for cr in rels:
        others = [r for r in facts if _canon_rel(r[1], r[2], r[3]) != cr] + [r for r in b.facts_at(e["pos"]) if r[0] != 'cmp']
        if Bounds(others).refutes(*cr):
            return f"assertion cannot fail: `{tstr(cr[1])[:50]} {cr[0]} {tstr(cr[2])[:50]}` contradicts the other facts on the way to the panic"
    root = b.prog.by_id.get(b.root, b) if b.kind == "Closure" else b
    f = b.prog.fns.get(root.id)
    if b is not root and b.kind == "Closure":
        # the default arm of a `match` on the closure's own scalar argument (`_ => unreachable!()`): unreachable when every call of the
        # closure in its defining function passes one of the constants the listed arms cover
        excluded = {}
        for r in b.facts_at(e["pos"]):
            if r[0] == 'cmp' and r[1] == 'Ne':
                x, y = deep_strip(r[2]), deep_strip(r[3])
                if x[0] == 'param' and y[0] == 'const':
                    excluded.setdefault(x[1], set()).add(y[1])
        for prm, consts in excluded.items():
            if prm < 2 or len(consts) < 2:
                continue
            passed = []
            okc = True
            for pb in b.prog.bodies:
                for c in pb.calls():
                    if c.t.get("resolved") == b.id or (c.target == b.id):
                        args = c.args()
                        # direct closure call: (closure, (a1, a2, ..)) — the argument tuple is the second operand
                        tup = deep_strip(args[1]) if len(args) >= 2 else None
                        v = None
                        if tup is not None and tup[0] == 'agg' and len(tup[3]) >= prm - 1:
                            v = deep_strip(tup[3][prm - 2])
                        if v is None or v[0] != 'const':
                            okc = False
                        else:
                            passed.append(v[1])
            if okc and passed and set(passed) <= consts:
                return f"unreachable: every call of this closure passes one of the constants {sorted(set(passed))}, all covered by the listed arms"
    if b is not root or f is None or f.get("vis") == "pub":
        return None

    def only_params(t):
        return not any(x[0] in ('var', 'unknown') for x in subterms(t))
    cands = [cr for cr in rels if only_params(cr[1]) and only_params(cr[2]) and any(x[0] == 'param' for x in list(subterms(cr[1])) + list(subterms(cr[2])))]
    if not cands:
        return None
    sites = [(cb, c) for cb in b.prog.bodies for c in cb.calls() if c.target == b.id or (c.target and strip_generics(c.target) == strip_generics(b.id))]
    if not sites:
        return None
    eff = effects.Effects(b.prog)
    for cb, c in sites:
        args = [bnorm(eff.inline(a)) for a in c.args()]
        B = Bounds(cb.facts_at(c.pos))
        if not any(B.refutes(op, bnorm(eff.inline(subst(x, args))), bnorm(eff.inline(subst(y, args)))) for op, x, y in cands):
            return None
    return (f"assertion cannot fail: the function is crate-internal and each of its {len(sites)} call site(s) establishes "
            f"`not ({tstr(cands[0][1])[:40]} {cands[0][0]} {tstr(cands[0][2])[:40]})` with its own arguments")


def _F(b, e):
    return e["_facts"] if "_facts" in e else b.facts_at(e["pos"])


def _auto(b, e):
    k = e["kind"]
    if k == "silent_wrap" and e.get("callee", "").split("::")[-1].startswith(("wrapping_", "saturating_")):
        # explicitly non-panicking arithmetic cannot crash in any build; whether the wrapped / saturated VALUE is right is the
        # business of the property that consumes it (C01 containment, C09 range form, ..), not of "no guest-triggered crash"
        return "explicitly wrapping / saturating arithmetic: never panics, in checked or unchecked builds"
    if k == "unchecked_addr" and e.get("callee", "").split("::")[-1] == "unchecked_align_up" and len(e.get("ops") or ()) == 2:
        # a.unchecked_align_up(p) computes (a + (p - 1)) & !(p - 1): the sum fits exactly when raw(a) <= MAX - (p - 1) = !(p - 1)
        a_, p_ = deep_strip(e["ops"][0]), deep_strip(e["ops"][1])
        while a_[0] in ('ref', 'deref'):
            a_ = deep_strip(a_[1])
        for r in _F(b, e):
            if r[0] == 'cmp' and r[1] == 'Le':
                lhs, rhs = deep_strip(r[2]), deep_strip(r[3])
                if is_call(lhs, "raw_value") and lhs[2]:
                    x = deep_strip(lhs[2][0])
                    while x[0] in ('ref', 'deref'):
                        x = deep_strip(x[1])
                    if x == a_ and is_call(rhs, "not") and rhs[2]:
                        m_ = deep_strip(rhs[2][0])
                        if is_call(m_, "sub") and len(m_[2]) == 2 and deep_strip(m_[2][0]) == p_ and is_call(deep_strip(m_[2][1]), "one"):
                            return "dominated by raw_value(a) <= !(p - 1): a + (p - 1) cannot overflow"
        return None
    if k.startswith("Overflow:Sh"):
        # cond: rhs < BITS
        rhs = deep_strip(e["ops"][1])
        c = const_of(rhs)
        if c is not None and 0 <= c < 64:
            return f"constant shift amount {c} < 64"
        if rhs[0] == 'bin' and rhs[1] == 'BitAnd' and const_of(rhs[3]) is not None and const_of(rhs[3]) < 64:
            return f"shift amount masked with {const_of(rhs[3])} < 64"
        # interval of the shift amount against the operand width (the width is the constant of the assert's own condition)
        bits = None
        cond = deep_strip(e.get("cond") or ('x',))
        if cond[0] == 'bin' and cond[1] == 'Lt' and const_of(cond[3]) is not None:
            bits = const_of(cond[3])
        B = Bounds(_F(b, e))
        u = B.ub(rhs)
        if bits and u is not None and u < bits:
            return f"shift amount at most {u} < {bits} (interval of `{tstr(rhs)[:60]}`)"
        return None
    if k == "Overflow:Sub":
        a, c = e["ops"]
        if is_call(deep_strip(a), "align_of") and const_of(c) == 1:
            return "align_of::<T>() >= 1 for every type"
        facts = _F(b, e)
        if implies_ge(facts, a, c):
            return f"dominated by a branch fact implying {tstr(deep_strip(a))} >= {tstr(deep_strip(c))}"
        if Bounds(facts).le(c, a):
            return f"`{tstr(deep_strip(c))[:60]}` <= `{tstr(deep_strip(a))[:60]}` by interval / ordering closure over the dominating facts"
        return None
    if k == "diverge" and re.search(r"assert|panic_2021|unreachable_2021", e.get("sig", "") + e.get("mac", "")) and "_facts" not in e:
        return _assert_unreachable(b, e)
    if k == "unwrap" and len(e["ops"]) >= 1:
        # unwrap()/expect() of one of the crate's own checked helpers whose every failing return is excluded at this point
        fs = getattr(b.prog, "_c07_failsum", None) if "_facts" not in e else None
        if fs is not None:
            why = fs.cannot_fail(e["ops"][0], _F(b, e))
            if why:
                return "unwrap of a call that cannot fail here: " + why
        # slice.get(i).unwrap() with i < slice.len() (e.g. i the Ok index of a binary search over the same, immutably borrowed, vector)
        g = deep_strip(e["ops"][0])
        while g[0] in ('ref', 'deref'):
            g = deep_strip(g[1])
        if g[0] == 'call' and len(g[2]) == 2 and re.search(r"(slice|Vec|VecDeque)::get(_mut)?$", canon(g[1])):
            from ..bounds import container
            if Bounds(_F(b, e)).lt(g[2][1], ('len', container(g[2][0]))):
                return f"get(i).unwrap() with i `{tstr(deep_strip(g[2][1]))[:50]}` < len by interval / ordering closure (binary-search Ok index, range item, dominating test)"
        return None
    if k == "arith_generic" and len(e["ops"]) == 2:
        op = e.get("callee", "").split("::")[-1]
        a, c = e["ops"]
        B = Bounds(_F(b, e))
        if op == "sub" and B.le(c, a):
            return "generic `-`: subtrahend <= minuend by interval / ordering closure"
        if op == "add":
            return B.add_fits(a, c)
        if op == "mul":
            return B.mul_fits(a, c)
        if op in ("shl", "shr"):
            u = B.ub(c)
            return f"generic shift by at most {u} < 8" if u is not None and u < 8 else None
        return None
    if k == "Overflow:Add":
        a, c = e["ops"]
        why = Bounds(_F(b, e)).add_fits(a, c)
        return why
    if k == "Overflow:Mul":
        a, c = e["ops"]
        why = Bounds(_F(b, e)).mul_fits(a, c)
        if why:
            return why
        # size_of::<T>() * len(s) for a Rust slice / Vec `s` of T: the language guarantees that an allocated object, hence any
        # slice, spans at most isize::MAX bytes
        from ..bounds import norm as bnorm
        for x, y in ((bnorm(a), bnorm(c)), (bnorm(c), bnorm(a))):
            if x[0] == 'call' and canon(x[1]).split("::")[-1] == "size_of" and len(x) > 3 and len(x[3]) == 1 and y[0] == 'len':
                base = y[1]
                ty = None
                if base[0] == 'param' and "_facts" not in e:
                    ty = b.local_ty(base[1]).peel().s
                if ty is not None and (ty == f"[{x[3][0]}]" or re.fullmatch(r"(std::vec::)?Vec<%s(, .*)?>" % re.escape(x[3][0]), ty)):
                    return f"size_of::<{x[3][0]}>() * len of a `{ty}`: a Rust slice never spans more than isize::MAX bytes"
        return None
    if k in ("DivisionByZero", "RemainderByZero"):
        d = deep_strip(e["ops"][0])
        # ops[0] is the dividend in rustc's message; find the divisor from the statement that follows
        return None
    if k == "arith_call" and e.get("callee", "").endswith("div_ceil"):
        d = deep_strip(e["ops"][1])
        if (const_of(d) or 0) > 0:
            return f"div_ceil by the non-zero constant {const_of(d)}"
        if is_call(d, "NonZero::get"):
            return "div_ceil by NonZero::get(): divisor type excludes zero"
        if Bounds(_F(b, e)).nonzero(d):
            return "div_ceil by a divisor shown non-zero by the dominating facts"
        return None
    if k == "index" and len(e["ops"]) == 2:
        from ..bounds import container
        B = Bounds(_F(b, e))
        ix = deep_strip(e["ops"][1])
        if ix[0] == 'agg' and re.search(r"ops::(range::)?Range(To|From|Inclusive|ToInclusive)?$|^Range(To|From)?$", strip_generics(str(ix[1]))):
            # slicing: `c[a..b]` needs a <= b <= len, `c[..b]` b <= len, `c[a..]` a <= len
            L = ('len', container(e["ops"][0]))
            kind_ = strip_generics(str(ix[1])).split("::")[-1]
            parts = list(ix[3])
            okr = None
            if kind_ == "RangeTo" and len(parts) == 1:
                okr = B.le(parts[0], L)
            elif kind_ == "RangeFrom" and len(parts) == 1:
                okr = B.le(parts[0], L)
            elif kind_ == "Range" and len(parts) == 2:
                okr = B.le(parts[0], parts[1]) and B.le(parts[1], L)
            if okr:
                return f"slice range `{tstr(ix)[:60]}` within the length of the sliced collection (interval / ordering closure)"
        if deep_strip(e["ops"][1])[0] != 'agg' and B.lt(e["ops"][1], ('len', container(e["ops"][0]))):
            return f"index `{tstr(deep_strip(e['ops'][1]))[:60]}` < len of the indexed collection by interval / ordering closure (search results, range items, dominating facts)"
        from ..pat import unref
        cont, idx = unref(e["ops"][0]), unref(e["ops"][1])
        if idx[0] == 'ok' and is_call(unref(idx[1]), "binary_search_by_key", "binary_search_by", "binary_search"):
            hay = unref(unref(idx[1])[2][0])
            if is_call(hay, "Deref::deref"):
                hay = unref(hay[2][0])
            if hay == cont and hay[0] == 'field' and unref(hay[1])[0] == 'param' and not _mutable_self(b, unref(hay[1])[1]):
                return "index is the Ok(i) of a binary search over the same (immutably borrowed) vector: i < len"
        return None
    if k == "vec_op" and e.get("callee", "").split("::")[-1] in ("insert", "remove", "swap_remove") and len(e["ops"]) >= 2:
        from ..bounds import container
        B = Bounds(_F(b, e))
        ln_ = ('len', container(e["ops"][0]))
        nm = e["callee"].split("::")[-1]
        if (B.le(e["ops"][1], ln_) if nm == "insert" else B.lt(e["ops"][1], ln_)):
            return f"Vec::{nm} at an index {'<=' if nm == 'insert' else '<'} len of that vector by interval / ordering closure"
        return None
    if k == "BoundsCheck":
        ln_, idx = e["ops"]
        facts = _F(b, e)
        if implies_lt(facts, idx, ln_):
            return "dominated by index < len"
        if Bounds(facts).lt(idx, ln_):
            return f"index `{tstr(deep_strip(idx))[:60]}` < len by interval / ordering closure over the dominating facts"
        return None
    return None


def phi_alternatives(b, e):
    if "resig" not in e or "var" not in e["sig"] or not e["ops"]:
        return None
    from ..outcomes import feasible_alternatives
    if e.get("lift_body") is not None and e["lift_body"] is not b:
        # operands of a closure edge, written in the defining function's terms: the phi lives there
        pb = e["lift_body"]
        env = effects.Effects(pb.prog).closure_env(b)
        if env is None:
            return None
        alts = feasible_alternatives(pb, env[2], ('agg', 'ops', None, tuple(e["ops"])))
        if len(alts) < 1 or (len(alts) == 1 and e["resig"](list(alts[0][1][3])) == e["sig"]):
            return None
        out = []
        for p2, t2 in alts:
            ops = list(t2[3])
            e2 = {k: v for k, v in e.items() if k not in ("ops_local", "lift_body")}
            out.append(dict(e2, ops=ops, pos=p2, sig=e["resig"](ops), body=pb))
        return out
    alts = feasible_alternatives(b, e["pos"], ('agg', 'ops', None, tuple(e["ops"])))
    if len(alts) < 1 or (len(alts) == 1 and e["resig"](list(alts[0][1][3])) == e["sig"]):
        return None
    out = []
    for p2, t2 in alts:
        ops = list(t2[3])
        out.append(dict(e, ops=ops, pos=p2, sig=e["resig"](ops)))
    return out


def divisor_of(b, e):
    """for Division/RemainderByZero asserts: the divisor operand (from the assert condition `Eq(divisor, 0)`)"""
    c = deep_strip(e["cond"])
    if c[0] == 'bin' and c[1] == 'Eq':
        return deep_strip(c[2])
    return None


def fact_str(r):
    if r[0] == 'cmp':
        return f"{r[1]}({sig(r[2])},{sig(r[3])})"
    if r[0] == 'bool':
        return f"{'' if r[2] else '!'}{sig(r[1])}"
    if r[0] == 'discr':
        return f"discr({sig(r[1])})=={r[2]}"
    return str(r)


def edge_facts(b, e):
    """the relations known at an edge, in the term space its signature is written in; plus what an item of an integer range
    satisfies by construction (lo <= item < hi) for every such item among the operands"""
    if e.get("lifted") and b.kind == "Closure":
        facts = list(effects.facts_in_parent(effects.Effects(b.prog), b, e["pos"]))
    else:
        facts = list(b.facts_at(e["pos"]))
    from ..bounds import _range_of_item, norm
    try:
        if b.kind != "Closure":
            facts += effects.item_facts(effects.Effects(b.prog) if not hasattr(b.prog, "_c07_eff") else b.prog._c07_eff, b, e.get("ops") or ())
    except Exception:
        pass
    seen = set()
    for o in e.get("ops") or ():
        for x in subterms(deep_strip(o)):
            if x[0] == 'ok' and x not in seen:
                seen.add(x)
                rg = _range_of_item(norm(x))
                if rg:
                    lo, hi, inc = rg
                    facts.append(('cmp', 'Le' if inc else 'Lt', x, hi))
                    facts.append(('cmp', 'Ge', x, lo))
    return facts


def _plain_getter(eff, path):
    """field name when the local function `path` is `fn f(&self) -> T { self.<field> }` (nothing else)"""
    try:
        g = eff.getter_summary(path)
    except Exception:
        return None
    if g is None:
        return None
    from ..pat import unref
    g = deep_strip(g)
    if g[0] == 'field' and isinstance(g[2], str) and unref(g[1])[:2] == ('param', 1):
        return g[2]
    return None


def _semantic_need(b, e, row, m):
    """the needed fact of a table row, when it has the form `Lt({n}, X)` / `Le({n}, X)`, may also follow from the ordering closure
    (e.g. n is the item of `lo..min(X, ..)`) instead of being a literal dominating comparison"""
    need = row[5]
    mm = re.fullmatch(r"(Lt|Le)\\\(\{(\w+)\},(.+)\\\)", need)
    if not mm or not e.get("ops"):
        return False
    rel, grp, other_rx = mm.group(1), mm.group(2), mm.group(3)
    want = (m.groupdict() or {}).get(grp)
    if want is None:
        return False
    facts = edge_facts(b, e)
    B = Bounds(facts)
    pool = []
    for o in e["ops"]:
        pool.extend(subterms(deep_strip(o)))
    for r in facts:
        if r[0] == 'cmp':
            pool.extend(subterms(deep_strip(r[2])))
            pool.extend(subterms(deep_strip(r[3])))
    ns = [x for x in pool if sig(x) == want]
    others = [x for x in pool if re.fullmatch(other_rx, sig(x))]
    lit = re.fullmatch(r"\\\$(\d+)\\\.(\w+)", other_rx)
    if lit:
        # the bound is a field of a parameter: it need not occur in the operands as such (it may be reached through its getter)
        others.append(('field', ('param', int(lit.group(1)), b.local_name(int(lit.group(1)))), lit.group(2)))
    for n_ in ns[:4]:
        for o_ in others[:8]:
            if (B.lt(n_, o_) if rel == "Lt" else B.le(n_, o_)):
                return True
    return False


def table_lookup(b, fnkey, e):
    for row in T.EDGES:
        frx, krx, srx, cat, reason = row[:5]
        m = re.search(srx, e["sig"])
        if re.search(frx, fnkey) and re.fullmatch(krx, e["kind"]) and m:
            if len(row) > 5:
                fs = "; ".join(fact_str(r) for r in edge_facts(b, e))
                need = row[5]
                # `{n}` in the needed fact stands for the named group (?P<n>..) of the signature: the SAME term must be guarded
                for g, v in (m.groupdict() or {}).items():
                    need = need.replace("{" + g + "}", re.escape(v or ""))
                if not re.search(need, fs) and not _semantic_need(b, e, row, m):
                    continue
            return row
    return None


def loops_of(prog, b):
    """classify each natural loop of b; returns list of (header, shape or None, detail)"""
    out = []
    hdrs = {}
    for (u, v) in b.loops():
        hdrs.setdefault(v, []).append(u)
    for h, latches in sorted(hdrs.items()):
        if _foreign_block(b, h):
            continue        # the loop of an inlined KNOWN function: classified in that function's own body
        # blocks of the loop: those that can reach a latch without leaving through h ... approximate: dominated by h and can reach h
        # natural loop: h plus every block that reaches a latch without passing through h
        blocks = [h] + [x for x in b.live_blocks() if x != h and any(u in b.reachable(x, removed_nodes=(h,)) for u in latches)]
        calls = [c for c in b.calls() if c.bb in blocks]
        names = [canon(c.target) for c in calls]
        shape = None
        detail = ""
        nxt = [c for c in calls if canon(c.target).endswith("::next")]
        if nxt:
            # iterator loop: the loop exits on the None edge of next()
            c = nxt[0]
            it = deep_strip(c.arg(0))
            src = _iter_source(it)
            shape = "iterator"
            detail = f"for-loop over {src}"
            if not src:
                shape = None
                detail = f"iterator of unknown finiteness: {tstr(it)}"
            elif "of integers" in src:
                # an integer range is finite, but if its bounds come from a caller-supplied scalar the number of iterations is
                # that scalar (up to 2^64): the loop must leave early on a comparison of the loop variable with a size that is
                # NOT caller-supplied (a field / a container length), or the bound must be clamped to such a size
                bounds = _range_bounds(it)
                # only the END of the range decides how long it runs (a caller-supplied START can only shorten it); an end with a small
                # constant upper bound (e.g. a bit count) is harmless too
                ends = bounds[-1:]
                from_param = any(s2[0] == 'param' and b.local_ty(s2[1]).k == 'prim' for x in ends for s2 in subterms(deep_strip(x)))
                if from_param and ends:
                    u = Bounds(b.facts_at(c.pos)).ub(ends[0])
                    if u is not None and u <= 4096:
                        from_param = False
                if from_param:
                    var = ('ok', deep_strip(b.call_term(c.t, c.pos, 0)))
                    exits = []
                    exit_rels = []
                    for u in blocks:
                        for v in b.succ(u):
                            if v not in blocks:
                                # everything known on arrival outside the loop (incl. facts carried by the value that decided the exit,
                                # e.g. the None of an inlined bounds-checking helper)
                                exit_rels.extend(r for r in b.facts_at((v, 0)) if r[0] == 'cmp')
                    for r in exit_rels:
                        if True:
                            sides = [deep_strip(r[2]), deep_strip(r[3])]
                            if any(s == deep_strip(var) or (s[0] == 'ok' and s == deep_strip(var)) for s in sides):
                                other = [s for s in sides if s != deep_strip(var)]
                                if other and not any(s2[0] == 'param' and b.local_ty(s2[1]).k == 'prim' for s2 in subterms(other[0])):
                                    exits.append(tstr(other[0]))
                    clamped = any(is_call(deep_strip(x), "cmp::min") for x in bounds)
                    # `for n in (a..=b).take_while(|&n| n < self.size)`: the stage ends the walk when the item reaches a bound that is
                    # not the caller's: the same early exit, stated by the chain instead of a `break`
                    try:
                        for r in effects.item_facts(getattr(prog, "_c07_eff", None) or effects.Effects(prog), b, [var]):
                            if r[0] == 'cmp' and r[1] in ('Lt', 'Le') and deep_strip(r[2]) == deep_strip(var):
                                other = deep_strip(r[3])
                                if not any(s2[0] == 'param' and b.local_ty(s2[1]).k == 'prim' for s2 in subterms(other)):
                                    exits.append(tstr(other))
                    except Exception:
                        pass
                    if exits or clamped:
                        detail += f"; bounds are caller-supplied but the loop leaves when the variable reaches `{exits[0] if exits else 'the clamped end'}`"
                    else:
                        shape = "param_bounded_range"
                        detail = ("integer range whose bounds derive from a caller-supplied scalar and no early exit against a container size: the iteration "
                                  "count is the caller's value (up to 2^64 no-op iterations = effectively no termination)")
        if not nxt and shape is None:
            cp = _counter_progress(b, h, latches, blocks)
            if cp:
                shape, detail = "counter_progress", cp
        out.append((h, blocks, shape, detail, calls))
    return out


def _range_checked_param(b, pos, prm):
    """a caller-supplied scalar that a successful range check of one of the crate's accessors (offset + count <= len) has already
    bounded by the length of real memory"""
    from .. import checks
    fs = getattr(b.prog, "_c07_failsum", None)
    if fs is None:
        return False
    for s_ in checks.succeeded(b, pos):
        if s_[0] == 'call':
            body = fs._body(s_[1])
            rc = fs.S.range_check(body.id) if body is not None else None
            if rc and any(deep_strip(s_[2][rc[k_] - 1])[:2] == prm[:2] for k_ in ("a", "b")):
                return True
            # the same from the complete failure summary: the callee fails whenever p_i + p_j > self.size, so on success both
            # summands are at most the length
            for alt in (fs.alternatives(body.id) if body is not None else None) or ():
                if alt[0] != "facts":
                    continue
                for op, x, y in alt[1]:
                    x2, y2 = fs._sums(x), fs._sums(y)
                    if op == 'Gt' and x2[0] == 'bin' and x2[1] == 'Add' and y2[0] == 'field' and y2[2] == 'size' and y2[1][:2] == ('param', 1):
                        for q in (x2[2], x2[3]):
                            if q[0] == 'param' and 0 < q[1] <= len(s_[2]) and deep_strip(s_[2][q[1] - 1])[:2] == prm[:2]:
                                return True
    return False


def _counter_progress(b, h, latches, blocks):
    """`while v < bound { ..; v += n }` with n != 0 at every update and a bound the loop does not change: v grows strictly, so the
    loop ends after at most `bound` rounds; each round does at least one unit of the work the bound measures. The bound must not be
    a bare caller-supplied scalar (that would be the caller's number of rounds): a field, a length, or a value derived from them."""
    from ..bounds import norm as bnorm
    cands = set()
    for bb in blocks:
        for s_ in b.blocks[bb]["stmts"]:
            if s_["k"] == "assign" and not s_["lhs"].get("p"):
                cands.add(s_["lhs"]["l"])
    for L in sorted(cands):
        try:
            defs = b.var_defs(L)
        except Exception:
            continue
        inside = [(p_, bnorm(t)) for p_, t in defs if p_[0] in blocks]
        if not inside or len(inside) == len(defs):
            continue
        steps = []
        for p_, t in inside:
            step = None
            if t[0] == 'bin' and t[1] == 'Add':
                step = t[3] if (t[2][0] == 'var' and t[2][1] == L) else (t[2] if (t[3][0] == 'var' and t[3][1] == L) else None)
            steps.append((p_, step))
        if any(st is None for _p, st in steps):
            continue
        # every way round the loop performs an update: each back edge is dominated by one of them
        if not all(any(b.pos_dominates(p_, (u, len(b.blocks[u]["stmts"]))) for p_, _st in steps) for u in latches):
            continue
        # at every update: v < bound still holds for the value being updated (the loop guard), bound loop-invariant, step != 0
        bounds_seen = None
        ok = True
        for p_, st in steps:
            fs = b.facts_at(p_)
            if not Bounds(fs).nonzero(st):
                ok = False
                break
            bs = set()
            for r in fs:
                if r[0] == 'cmp' and r[1] in ('Lt', 'Gt'):
                    v, bound = (r[2], r[3]) if r[1] == 'Lt' else (r[3], r[2])
                    v, bound = bnorm(v), bnorm(bound)
                    if v[0] == 'var' and v[1] == L:
                        inv = not (bound[0] == 'param' and b.local_ty(bound[1]).k == 'prim') or _range_checked_param(b, p_, bound)
                        for x in subterms(bound):
                            if x[0] == 'var' and any(q[0] in blocks for q, _t in b.var_defs(x[1])):
                                inv = False
                        if inv:
                            bs.add(bound)
            bounds_seen = bs if bounds_seen is None else (bounds_seen & bs)
            if not bounds_seen:
                ok = False
                break
        # the guard must be what keeps the loop going: leaving the header region without the update must be an exit of the loop
        if ok and bounds_seen:
            bound = sorted(bounds_seen, key=repr)[0]
            return (f"counter loop: every round that continues adds a value shown non-zero to `{b.local_name(L) or L}` while `{b.local_name(L) or L}` < "
                    f"`{tstr(bound)[:60]}` (checked at the update); the bound is not changed by the loop and is not a bare caller-supplied scalar")
    return None


FINITE_ITER = re.compile(r"(slice::iter(_mut)?|slice::windows|Iterator::take|Iterator::enumerate|Iterator::map|Iterator::zip|RangeInclusive::new|IntoIterator::into_iter|Vec::iter|Vec::drain|Iterator::rev)$")


def _range_bounds(t):
    """the bound terms of the integer range an iterator is built from"""
    t = deep_strip(t)
    while t[0] in ('ref', 'deref'):
        t = t[1]
    if t[0] == 'call':
        c = canon(t[1])
        if c.endswith("RangeInclusive::new"):
            return [t[2][0], t[2][1]]
        if t[2]:
            return _range_bounds(t[2][0])
        return []
    if t[0] == 'agg' and str(t[1]).endswith("ops::Range"):
        return list(t[3])
    return []


def _iter_source(t):
    """peel into_iter/take/enumerate/... down to a finite source; returns description or None"""
    t = deep_strip(t)
    while t[0] in ('ref', 'deref'):
        t = t[1]
    if t[0] == 'call':
        c = canon(t[1])
        if c.endswith("into_iter") and re.search(r"IntoIterator for &('\w+ )?(mut )?(\[|(std::vec::|alloc::vec::)?Vec<)|^<&('\w+ )?(mut )?\[|^<&('\w+ )?(mut )?(std::vec::|alloc::vec::)?Vec<|^<\[", str(t[1])):
            return "into_iter over a slice / Vec / array reference"       # `for x in &buf[..n]`: as many rounds as the slice has elements
        if c.endswith("Iterator::take_while") or c.endswith("Iterator::filter") or c.endswith("Iterator::skip") or c.endswith("Iterator::skip_while"):
            return _iter_source(t[2][0])        # stages that only drop items: as finite as their source
        if c.endswith("IntoIterator::into_iter") or c.endswith("Iterator::take") or c.endswith("Iterator::enumerate") or c.endswith("Iterator::rev") or c.endswith("Iterator::map"):
            inner = _iter_source(t[2][0])
            if c.endswith("Iterator::take"):
                return f"take({inner or 'any'})"  # take(n) is finite whatever the source
            return inner
        if c.endswith("slice::iter") or c.endswith("slice::iter_mut") or c.endswith("slice::windows") or c.endswith("Vec::iter") or c.endswith("Vec::drain"):
            return c.split("::")[-1] + " over a slice"
        if c.endswith("RangeInclusive::new"):
            return "RangeInclusive of integers"
        if c.endswith("GuestMemory::iter"):
            # the region iterator of a guest memory: finite by the trait's contract; the provided methods (last_addr's fold,
            # num_regions) already consume it to the end
            return "the regions of a GuestMemory (GuestMemory::iter)"
        return None
    if t[0] == 'agg' and str(t[1]).endswith("ops::Range"):
        return "Range of integers"
    if t[0] == 'param' or t[0] == 'var':
        return None
    return None


def run(ctx, progs):
    assumed_total = set()
    table_hits = {}
    for cfg, prog in progs.items():
        ctx.config = cfg
        eff = effects.Effects(prog)
        prog._c07_eff = eff
        contract_kinds(prog)
        from ..failsum import FailSummaries
        prog._c07_failsum = FailSummaries(prog, eff)
        from .. import bounds as _bounds
        _fs = prog._c07_failsum
        _bounds.set_sum_hook(lambda path, _fs=_fs: (_fs.S.checked_sum(_fs._body(path).id) if _fs._body(path) is not None else None))
        _bounds.set_ret_hook(lambda path, prog=prog: _returns_param(prog, path))
        _bounds.set_getter_hook(lambda path, eff=eff: _plain_getter(eff, path))
        n_bodies = n_edges = n_auto = n_tab = 0
        n_loops = 0
        for b in prog.bodies:
            if b.j.get("impl_derived"):
                continue
            if re.search(T.SKIP_BODIES, b.key):
                continue
            n_bodies += 1
            # a closure's edges are reviewed as edges of the function that defines it
            fnkey = strip_generics(b.root) if (b.kind == "Closure" and b.root) else b.key
            for e in edges_of(prog, b, eff):
                n_edges += 1
                inst = f"{fnkey}|{e['kind']}|{e['sig']}"
                where = b.where(e["ln"])
                # division: fetch divisor
                if e["kind"] in ("DivisionByZero", "RemainderByZero"):
                    d = divisor_of(b, e)
                    e["sig"] = f"{e['sig']} / {sig(d) if d else '?'}"
                    inst = f"{fnkey}|{e['kind']}|{e['sig']}"
                    facts = b.facts_at(e["pos"])
                    if d is not None and any(r[0] == 'cmp' and r[1] == 'Ne' and r[2] == d and r[3] == ('const', 0) for r in facts):
                        n_auto += 1
                        ctx.ob("A4.auto", inst, True, where, "divisor dominated by a `!= 0` branch fact")
                        continue
                    if d is not None and Bounds(facts).nonzero(d):
                        n_auto += 1
                        ctx.ob("A4.auto", inst, True, where, "divisor is non-zero (constant / interval / dominating fact)")
                        continue
                why = auto_discharge(b, e)
                if why:
                    n_auto += 1
                    ctx.ob("A4.auto", inst, True, where, why)
                    continue
                row = table_lookup(b, fnkey, e)
                if row:
                    n_tab += 1
                    table_hits[row] = table_hits.get(row, 0) + 1
                    ctx.ob("A4.tabled", inst, True, where, f"[{row[3]}] {row[4]}")
                    continue
                # an operand that is assigned on several paths (match arms, result of an inlined helper): decide each definition
                # separately, at the place of the definition (its facts are a subset of those on the way to this edge)
                alts = phi_alternatives(b, e)
                if alts:
                    res = []
                    for e2 in alts:
                        b2 = e2.get("body", b)
                        w2 = auto_discharge(b2, e2)
                        if w2:
                            res.append(("auto", w2, e2))
                            continue
                        r2 = table_lookup(b2, fnkey, e2)
                        if r2:
                            table_hits[r2] = table_hits.get(r2, 0) + 1
                            res.append(("tabled", f"[{r2[3]}] {r2[4]}", e2))
                            continue
                        res.append((None, e2["sig"], e2))
                    if all(r[0] for r in res):
                        n_auto += 1
                        ctx.ob("A4.auto", inst, True, where, "operand assigned on several paths; each definition decided on its own: " + "; ".join(f"{r[2]['sig']}: {r[1]}" for r in res))
                        continue
                ctx.ob("A4.unreviewed", inst, False, where,
                       f"panic / silent-wrap edge `{e['kind']}` on {e['sig']} is neither discharged by a dominating fact nor in the reviewed-edge table: "
                       "a guest-chosen value reaching it can crash (or silently wrap in release builds)")
            # loops
            for h, blocks, shape, detail, calls in loops_of(prog, b):
                n_loops += 1
                inst = f"{fnkey}|loop"
                if shape and shape != "param_bounded_range" and not (shape == "counter_progress" and any(re.search(r[0], fnkey) for r in T.LOOPS)):
                    ctx.ob("A4.loop", inst + f"|{shape}", True, b.where(), detail)
                    continue
                if shape == "counter_progress":
                    shape = None        # a function with a tabled loop shape is checked against that shape below
                if shape == "param_bounded_range":
                    trow = None
                    for r in T.LOOPS:
                        if re.search(r[0], fnkey) and r[1] == "param_bounded_range":
                            trow = r
                    ctx.ob("A4.loop", inst + "|param_bounded_range", trow is not None, b.where(), (f"[tabled] {trow[2]}" if trow else detail))
                    continue
                row = None
                for r in T.LOOPS:
                    if re.search(r[0], fnkey):
                        row = r
                        break
                if row:
                    ok, d2 = T.check_loop(row[1], prog, b, h, blocks, calls)
                    ctx.ob("A4.loop", inst + f"|{row[1]}", ok, b.where(), f"{row[2]} — {d2}")
                else:
                    ctx.ob("A4.loop", inst + "|unrecognised", False, b.where(), f"loop with header bb{h} has no recognised terminating shape ({detail})")
            # assumed-total callees
            for c in b.calls():
                if not c.t.get("callee_local") and c.callee:
                    assumed_total.add(canon(c.target))
        ctx.floor("A4.bodies", n_bodies, 300, MIN=200)
        ctx.floor("A4.edges", n_edges, 90, MIN=40)
        ctx.floor("A4.loops", n_loops, 11, MIN=9)
        ctx.extra.setdefault("panic_edges", {})[cfg] = {"bodies": n_bodies, "edges": n_edges, "auto": n_auto, "tabled": n_tab}
    ctx.extra["assumed_total_callees"] = len(assumed_total)
    ctx.extra["assumed_total_sample"] = sorted(assumed_total)[:40]
    stale = [r for r in T.EDGES if r not in table_hits]
    ctx.extra["stale_table_rows"] = [f"{r[0]}|{r[1]}|{r[2]}" for r in stale]
    ctx.not_decided = [
        "panics inside std/libc callees that are not on the may-panic list (reported as assumed-total)",
        "allocation failure, stack overflow, behaviour of foreign trait implementations",
        "whether a gntdev/privcmd ioctl can be made to fail by a guest-chosen scalar (Xen ABI)",
    ]
    return ctx.finish(
        "other",
        "Exhaustive census of panic edges and silent-wrap sites in every non-derived body of FULL and XEN (not only those reachable from some "
        "entry point): MIR Assert terminators, diverging calls, calls on a may-panic list, wrapping/saturating calls, narrowing casts. Each is "
        "discharged by a dominating branch fact (with a check that the compared values are not redefined in between) or matches one reviewed, "
        "reasoned table line; each loop has a recognised terminating shape. A new or newly unguarded edge is a violation. This decides 'no panic edge "
        "depends on a guest scalar' up to the reviewed table and the assumed-total std callees; it does not execute anything.",
        TRUSTED, "./check C07")
