"""C13 — volatile stream adapters behave like their std::io counterparts.

Decides only the bookkeeping clauses equivalence needs: per adapter, bytes copied == value returned == amount
the stream advances; the copy is capped by both sides; positions are clamped before slicing; the exact variants
fail with the right ErrorKind under the right (strictness-checked) condition; descriptor adapters issue one
syscall with the buffer's own guarded pointer and length. Equality with std for all (stream, position, length)
— including stream state after a failed exact read — is NOT decided (needs running both).
"""
import re

from ..mir import deep_strip, tstr, strip_generics, canon, subterms, is_call
from .. import effects
from ..checks import producer
from ..pat import P, K, V, C, F, AGG, OKP, BIN, CLO, TUP, FN, ANY, ALT, match, closure_ret, unref

CONFIGS = ("FULL", "XEN")
TRUSTED = [
    "copy_{to,from}_volatile_slice copy exactly `total` bytes and return it (C04 R4.2)",
    "std: slice::split_at(_mut), Vec::reserve/set_len, Cursor::position/set_position; libc::read/write",
    "rustc nightly MIR construction and Instance resolution",
]
RV, WV = "io::ReadVolatile", "io::WriteVolatile"


def find_impl(prog, trait, self_s, name):
    out = [b for b in prog.bodies if b.impl_trait == trait and b.name == name and b.kind not in ("Closure", "Promoted") and b.self_ty is not None and re.fullmatch(self_s, b.self_ty.s)]
    return out[0] if len(out) == 1 else None


def single_ok_payload(b):
    oks = []
    for pos, t in b.return_terms():
        t = deep_strip(t)
        if t[0] == 'agg' and t[2] == 'Ok':
            oks.append((pos, unref(t[3][0])))
    return oks


def kind_of_err(b, t):
    """Err(IOError(io::Error::new(ErrorKind::X, ..))) -> X"""
    t = deep_strip(t)
    if t[0] == 'agg' and t[2] == 'Err':
        for s in subterms(t):
            if s[0] == 'agg' and str(s[1]).endswith("io::ErrorKind"):
                return s[2]
    return None


def self_write(b):
    """assignments `*self = <term>`; returns list of terms"""
    out = []
    for pos, s in b.stmts():
        if s["k"] == "assign" and s["lhs"]["l"] == 1 and s["lhs"].get("p") == ['*']:
            out.append(deep_strip(b.rvalue_term(s["rv"], pos, 0)))
    return out


def run(ctx, progs):
    for cfg, prog in progs.items():
        ctx.config = cfg
        eff = effects.Effects(prog)
        n = 0
        # ------------------------------------------------------------------ &[u8] : ReadVolatile
        b = find_impl(prog, RV, r"&\[u8\]", "read_volatile")
        if not b:
            ctx.ob("C13.anchor", "find_impl(prog, RV, r'&\[u8\]', 'read_volatile')", False, "", "anchor body not found (renamed or removed): the rule cannot be evaluated — fail closed")
        if b:
            n += 1
            total = C("cmp::min", C("VolatileSlice::len", P(2)), C("slice::len", P(1)))
            copy = C("copy_to_volatile_slice", P(2), C("slice::as_ptr", P(1)), total)
            oks = single_ok_payload(b)
            # the helper returns its `total` argument (C04 R4.2), so either denotes the transferred count
            moved = ALT(copy, total)
            ok_ret = len(oks) == 1 and match(moved, oks[0][1], {}) and any(canon(c.target or "").endswith("copy_to_volatile_slice") and match(copy, deep_strip(b.call_term(c.t, c.pos, 0)), {}) for c in b.calls())
            adv = self_write(b)
            ok_adv = len(adv) == 1 and match(F(C("slice::split_at", P(1), moved), "1"), adv[0], {})
            ctx.ob("R13.1.slice_read", b.key, ok_ret and ok_adv, b.where(),
                   f"copies min(buf.len(), self.len()) bytes, returns the count the copy returned [{ok_ret}], and advances *self by that same count via split_at(..).1 [{ok_adv}]")
        b = find_impl(prog, RV, r"&\[u8\]", "read_exact_volatile")
        if not b:
            ctx.ob("C13.anchor", "find_impl(prog, RV, r'&\[u8\]', 'read_exact_volatile')", False, "", "anchor body not found (renamed or removed): the rule cannot be evaluated — fail closed")
        if b:
            n += 1
            eof_ok = deleg_ok = False
            for pos, t in b.return_terms():
                if kind_of_err(b, t) == "UnexpectedEof":
                    eof_ok = any(r[0] == 'cmp' and r[1] == 'Gt' and match(C("VolatileSlice::len", P(2)), r[2], {}) and match(C("slice::len", P(1)), r[3], {}) for r in b.facts_at(pos)) or \
                        any(r[0] == 'cmp' and r[1] == 'Lt' and match(C("slice::len", P(1)), r[2], {}) and match(C("VolatileSlice::len", P(2)), r[3], {}) for r in b.facts_at(pos))
                elif match(C("Result::map", C("ReadVolatile::read_volatile", P(1), P(2)), ANY), deep_strip(t), {}):
                    deleg_ok = True
                elif kind_of_err(b, t):
                    eof_ok = False
            # the same delegation written as `self.read_volatile(buf)?; Ok(())` / a match
            from .. import outcomes
            from ..checks import succeeded
            oks = [(pos, t) for pos, t in b.return_terms() if deep_strip(t)[0] == 'agg' and deep_strip(t)[2] == 'Ok']
            if not deleg_ok and len(oks) == 1:
                deleg_ok = any(match(C("ReadVolatile::read_volatile", P(1), P(2)), s, {}) for s in succeeded(b, oks[0][0])) and \
                    sum(1 for c in b.calls() if canon(c.target or "").endswith("ReadVolatile::read_volatile")) == 1
            ctx.ob("R13.1.slice_read_exact", b.key, eof_ok and deleg_ok, b.where(),
                   f"Err(UnexpectedEof) exactly when buf.len() > self.len() (strict) [{eof_ok}]; otherwise read_volatile(buf).map(|_| ()) [{deleg_ok}]")
        # ------------------------------------------------------------------ &mut [u8] : WriteVolatile
        b = find_impl(prog, WV, r"&mut \[u8\]", "write_volatile")
        if not b:
            ctx.ob("C13.anchor", "find_impl(prog, WV, r'&mut \[u8\]', 'write_volatile')", False, "", "anchor body not found (renamed or removed): the rule cannot be evaluated — fail closed")
        if b:
            n += 1
            total = C("cmp::min", C("VolatileSlice::len", P(2)), C("slice::len", P(1)))
            copy = C("copy_from_volatile_slice", C("slice::as_mut_ptr", P(1)), P(2), total)
            oks = single_ok_payload(b)
            moved = ALT(copy, total)
            ok_ret = len(oks) == 1 and match(moved, oks[0][1], {}) and any(canon(c.target or "").endswith("copy_from_volatile_slice") and match(copy, deep_strip(b.call_term(c.t, c.pos, 0)), {}) for c in b.calls())
            adv = self_write(b)
            ok_adv = len(adv) == 1 and match(F(C("slice::split_at_mut", C("mem::take", P(1)), moved), "1"), adv[0], {})
            ctx.ob("R13.1.slice_write", b.key, ok_ret and ok_adv, b.where(),
                   f"copies min(buf.len(), self.len()) bytes, returns that count [{ok_ret}], advances *self by it via take/split_at_mut(..).1 [{ok_adv}]")
        b = find_impl(prog, WV, r"&mut \[u8\]", "write_all_volatile")
        if not b:
            ctx.ob("C13.anchor", "find_impl(prog, WV, r'&mut \[u8\]', 'write_all_volatile')", False, "", "anchor body not found (renamed or removed): the rule cannot be evaluated — fail closed")
        if b:
            n += 1
            w = C("WriteVolatile::write_volatile", P(1), P(2))
            zero_ok = okk = False
            for pos, t in b.return_terms():
                facts = b.facts_at(pos)
                td = deep_strip(t)
                cmpf = [r for r in facts if r[0] == 'cmp' and match(OKP(w), r[2], {}) and match(C("VolatileSlice::len", P(2)), r[3], {})]
                if kind_of_err(b, t) == "WriteZero":
                    zero_ok = any(r[1] == 'Ne' for r in cmpf)
                elif kind_of_err(b, t):
                    zero_ok = False
                elif td[0] == 'agg' and td[2] == 'Ok':
                    okk = any(r[1] == 'Eq' for r in cmpf)
            ctx.ob("R13.1.slice_write_all", b.key, zero_ok and okk, b.where(), f"Ok iff write_volatile(buf)? == buf.len() [{okk}], Err(WriteZero) otherwise [{zero_ok}]")
        # ------------------------------------------------------------------ Vec<u8>
        b = find_impl(prog, WV, r"std::vec::Vec<u8>", "write_volatile")
        if not b:
            ctx.ob("C13.anchor", "find_impl(prog, WV, r'std::vec::Vec<u8>', 'write_volatile')", False, "", "anchor body not found (renamed or removed): the rule cannot be evaluated — fail closed")
        if b:
            n += 1
            cnt = C("VolatileSlice::len", P(2))
            calls = {canon(c.target or "").split("::")[-1]: c for c in b.calls()}
            res = calls.get("reserve")
            cp = calls.get("copy_from_volatile_slice")
            sl = calls.get("set_len")
            ok = bool(res and cp and sl)
            d = "reserve/copy/set_len calls missing"
            if ok:
                r_ok = match(C("Vec::reserve", P(1), cnt), deep_strip(b.call_term(res.t, res.pos, 0)), {}) and b.pos_dominates(res.pos, cp.pos)
                c_ok = match(C("copy_from_volatile_slice", C("mut_ptr::add", C("Vec::as_mut_ptr", P(1)), C("Vec::len", P(1))), P(2), cnt), deep_strip(b.call_term(cp.t, cp.pos, 0)), {})
                cpt = C("copy_from_volatile_slice", ANY, P(2), cnt)
                s_ok = match(C("Vec::set_len", P(1), BIN("Add", C("Vec::len", P(1)), ALT(cnt, cpt))), deep_strip(b.call_term(sl.t, sl.pos, 0)), {}) and b.pos_dominates(cp.pos, sl.pos)
                # Vec::len is read before the copy (old length): the len() call precedes copy
                lens = [c for c in b.calls() if canon(c.target or "").endswith("Vec::len")]
                old_ok = len(lens) == 1 and b.pos_dominates(lens[0].pos, cp.pos) and b.pos_dominates(res.pos, lens[0].pos)
                oks = single_ok_payload(b)
                ret_ok = len(oks) == 1 and match(ALT(cnt, cpt), oks[0][1], {})
                ok = r_ok and c_ok and s_ok and old_ok and ret_ok
                d = f"reserve(count) dominates the copy [{r_ok}]; destination as_mut_ptr().add(old_len) [{c_ok}]; set_len(old_len + count) after the copy [{s_ok}]; old_len read once after reserve [{old_ok}]; returns count [{ret_ok}]"
            ctx.ob("R13.2.vec_write", b.key, ok, b.where(), d)
        # ------------------------------------------------------------------ Cursor
        for trait, selfs, nm, inner_call, getter in ((RV, r"std::io::Cursor<T>", "read_volatile", "ReadVolatile::read_volatile", "index"),
                                                     (WV, r"std::io::Cursor<&mut \[u8\]>", "write_volatile", "WriteVolatile::write_volatile", "index_mut"),
                                                     (RV, r"std::io::Cursor<T>", "read_exact_volatile", "ReadVolatile::read_exact_volatile", "index")):
            b = find_impl(prog, trait, selfs, nm)
            if not b:
                continue
            n += 1
            dc = [c for c in b.calls() if canon(c.target or "").endswith(inner_call)]
            sp = [c for c in b.calls() if canon(c.target or "").endswith("Cursor::set_position")]
            ok = len(dc) == 1 and len(sp) == 1
            d = f"{len(dc)} delegate calls, {len(sp)} set_position calls"
            if ok:
                dt = deep_strip(b.call_term(dc[0].t, dc[0].pos, 0))
                e = {}
                clamp = C("cmp::min", C("Cursor::position", P(1)), C("slice::len", ANY))
                inner_ok = match(C(inner_call, C(getter, ANY, AGG("RangeFrom", None, clamp)), P(2)), dt, e)
                spt = deep_strip(b.call_term(sp[0].t, sp[0].pos, 0))
                e2 = {}
                adv_ok = match(C("Cursor::set_position", P(1), BIN("Add", C("Cursor::position", P(1)), V("n"))), spt, e2)
                nterm = e2.get("n")
                if nm == "read_exact_volatile":
                    n_ok = nterm is not None and match(C("VolatileSlice::len", P(2)), nterm, {})
                else:
                    n_ok = nterm is not None and nterm[0] == 'ok' and producer(nterm) == dt
                succ = any(r[0] == 'discr' and r[2] == 0 and producer(r[1]) == dt for r in b.facts_at(sp[0].pos))
                oks = single_ok_payload(b)
                ret_ok = len(oks) == 1 and (nm == "read_exact_volatile" or (oks[0][1][0] == 'ok' and producer(oks[0][1]) == dt))
                ok = inner_ok and adv_ok and n_ok and succ and ret_ok
                d = f"delegates on inner[min(position, len)..] [{inner_ok}]; set_position(position + n) [{adv_ok}] with n = {'buf.len()' if nm == 'read_exact_volatile' else 'the delegate result'} [{n_ok}], only on the success edge [{succ}]; returns it [{ret_ok}]"
            ctx.ob("R13.3.cursor", b.key, ok, b.where(), d)
        # ------------------------------------------------------------------ raw fd
        for nm, sysc in (("read_volatile_raw_fd", "libc::read"), ("write_volatile_raw_fd", "libc::write")):
            b = prog.one(name=nm, path_re=r"^io::" + nm + "$")
            n += 1
            sc = [c for c in b.calls() if canon(c.target or "") == sysc]
            allsys = [c for c in b.calls() if canon(c.target or "").startswith("libc::")]
            ok = len(sc) == 1 and len(allsys) == 1
            d = f"{len(allsys)} libc calls"
            if ok:
                t = deep_strip(b.call_term(sc[0].t, sc[0].pos, 0))
                g = "ptr_guard_mut" if "read" in nm else "ptr_guard"
                # the descriptor is `fd.as_raw_fd()` of the first parameter — taken here, or already taken by every caller when the
                # helper receives a RawFd (then the forwarder rule below checks that each caller passes self.as_raw_fd())
                fd_pat = C("AsRawFd::as_raw_fd", P(1))
                if b.local_ty(1).s in ("i32", "std::os::fd::RawFd"):
                    fd_pat = P(1)
                arg_ok = match(C(sysc, fd_pat, ANY, C("VolatileSlice::len", P(2))), t, {}) and \
                    any(is_call(x, g) and unref(x[2][0])[:2] == ('param', 2) for x in subterms(unref(t[2][1])))
                neg_ok = False
                ok_ok = False
                from .. import outcomes as _oc
                for o_ in _oc.outcomes(prog, eff, b):
                    facts = _oc.facts_of(b, o_, (prog, eff))
                    rd = deep_strip(o_[1])
                    if rd[0] == 'agg' and rd[2] == 'Err':
                        neg_ok = any(r[0] == 'cmp' and r[1] == 'Lt' and unref(r[2]) == t and r[3] == ('const', 0) for r in facts) and any(is_call(x, "last_os_error") for x in subterms(rd))
                    elif rd[0] == 'agg' and rd[2] == 'Ok':
                        ok_ok = any(x == t for x in subterms(rd))
                ok = arg_ok and neg_ok and ok_ok
                d = f"exactly one {sysc}(fd, guard.as_ptr(), buf.len()) of the same buf [{arg_ok}]; negative => Err(last_os_error) [{neg_ok}]; otherwise Ok(result) [{ok_ok}]"
            ctx.ob("R13.5.raw_fd", b.key, ok, b.where(), d)
        # ------------------------------------------------------------------ R13.4 default exact loops (shared with C14 R14.2)
        from . import c14
        c14.rule_exact_loops(ctx, prog, eff, rule="R13.4.default_exact_loop")
        fwd = 0
        for b in prog.bodies:
            if b.impl_trait in (RV, WV) and b.kind not in ("Closure", "Promoted") and b.name in ("read_volatile", "write_volatile"):
                rt = b.return_terms()
                t = deep_strip(rt[0][1]) if len(rt) == 1 else None
                if t is not None and t[0] == 'call' and canon(t[1]).startswith("io::") and canon(t[1]).endswith("_volatile_raw_fd"):
                    fwd += 1
                    hb = prog.by_id.get(t[1])
                    takes_raw = hb is not None and hb.local_ty(1).s in ("i32", "std::os::fd::RawFd")
                    first = C("as_raw_fd", P(1)) if takes_raw else P(1)
                    ok = match(C(canon(t[1]).split("::")[-1], first, P(2)), t, {}) and ("read" in b.name) == ("read" in t[1])
                    ctx.ob("R13.5.fd_forwarder", b.key, ok, b.where(), f"forwards (self, buf) to {canon(t[1])}")
        ctx.floor("R13.adapters", n, 10)
        ctx.floor("R13.5.fd_forwarders", fwd, 10 if cfg != "MIN" else 0)
    ctx.not_decided = [
        "equality with std::io for every (stream, position, length)",
        "what std does to the stream ON FAILURE of read_exact (current std advances a slice/cursor to its end; these adapters leave it untouched): observable only by running both",
    ]
    return ctx.finish(
        "other",
        "Bookkeeping agreement per adapter on resolved MIR terms: the count returned is the count the copy helper returned, which is the split point / position increment / set_len "
        "increment; copies are capped with min over both sides; cursor positions are clamped before slicing; exact variants raise UnexpectedEof / WriteZero under the strictness-checked "
        "condition read from the dominating branch facts; descriptor adapters issue exactly one syscall on the guarded pointer with buf.len(). These are necessary conditions of "
        "std-equivalence; equivalence itself is not decided by static analysis.",
        TRUSTED, "./check C13")
