"""C20 — endian-tagged integers keep their declared byte order.

Encoding typestate over MIR terms: tags native / le / be; to_le|from_le toggle native<->le,
to_be|from_be toggle native<->be. Each wrapper's field carries the tag its name declares.
"""
import re

from ..mir import deep_strip, tstr, strip_generics, is_call, canon, subterms
from .. import witness, derives

CONFIGS = ("FULL", "XEN")
THOROUGH_CONFIGS = ("MIN",)
WRAP = re.compile(r"^endian::(Le|Be)(16|32|64|Size)$")
NATIVE = {"16": "u16", "32": "u32", "64": "u64", "Size": "usize"}

TRUSTED = [
    "core: to_le/from_le are the same involution (identity exactly on little-endian hosts); to_be/from_be likewise for big-endian",
    "rustc layout computation (layout_of) and repr(transparent)",
    "rustc nightly MIR construction and Instance resolution",
]

CONV = re.compile(r"^core::num::<impl (u16|u32|u64|usize)>::(to_le|from_le|to_be|from_be)$")


def tag_of(t, wrappers, to_native_ok):
    """abstract byte-order tag of an integer term; returns (tag, roots) where roots = set of params it depends on"""
    t = deep_strip(t)
    k = t[0]
    if k == 'param':
        return 'native', {t[1]}
    if k == 'deref':
        return tag_of(t[1], wrappers, to_native_ok)
    if k == 'field' and t[2] == '0':
        b = t[1]
        while b[0] in ('deref', 'ref'):
            b = b[1]
        if b[0] == 'param':
            return 'FIELD', {b[1]}
        return 'unknown', set()
    if k == 'call':
        m = CONV.match(t[1])
        if m:
            inner, roots = tag_of(t[2][0], wrappers, to_native_ok)
            which = 'le' if m.group(2).endswith('le') else 'be'
            return ('toggle', which, inner), roots
        c = canon(t[1])
        if c.endswith('::to_native') and to_native_ok:
            inner, roots = tag_of(t[2][0], wrappers, to_native_ok)
            return 'native', roots
    return 'unknown', set()


def resolve_tag(tag, declared):
    """replace FIELD by the declared tag and fold toggles"""
    if tag == 'FIELD':
        return declared
    if isinstance(tag, tuple) and tag[0] == 'toggle':
        inner = resolve_tag(tag[2], declared)
        w = tag[1]
        if inner == 'native':
            return w
        if inner == w:
            return 'native'
        return 'mixed'
    return tag


def run(ctx, progs):
    for cfg, prog in progs.items():
        ctx.config = cfg
        wrappers = {}
        for path, a in prog.adts.items():
            m = WRAP.match(path)
            if m:
                wrappers[path] = ('le' if m.group(1) == 'Le' else 'be', NATIVE[m.group(2)], a)
        ctx.floor("R20.wrappers", len(wrappers), 8)
        prim = {p["ty"]: p for p in prog.j["prim_layouts"]}
        allowed_field_readers = set()
        for path, (decl, native, a) in sorted(wrappers.items()):
            where = f"{a['file']}:{a['line']}"
            # ---- R20.2 layout
            f = a["variants"][0]["fields"]
            ctx.ob("R20.2.repr", path, a["repr"]["transparent"] and len(f) == 1 and prog.types[f[0]["ty"]]["s"] == native, where,
                   f"repr(transparent)={a['repr']['transparent']}, fields={[prog.types[x['ty']]['s'] for x in f]}, expected single field of {native}")
            ctx.ob("R20.2.layout", path, a.get("size") == prim[native]["size"] and a.get("align") == prim[native]["align"], where,
                   f"layout_of({path}) = size {a.get('size')} align {a.get('align')}; {native} = size {prim[native]['size']} align {prim[native]['align']}")
            ctx.ob("R20.2.private_field", path, f[0]["vis"] != "pub", where, f"field visibility {f[0]['vis']}: a public field would let clients store a value with the wrong byte order")
            # ---- R20.3 ByteValued + derives
            bv = prog.adt_impls(path, "bytes::ByteValued")
            ctx.ob("R20.3.bytevalued", path, len(bv) == 1 and bv[0]["unsafe"], where, f"{len(bv)} ByteValued impl(s)")
            for tr in ("std::marker::Copy", "std::clone::Clone", "std::cmp::Eq", "std::cmp::PartialEq", "std::fmt::Debug", "std::default::Default"):
                ok, why = derives.like_derive(prog, path, tr, same_self_args=True)
                ctx.ob("R20.3.derive", f"{path}:{tr}", ok, where, f"derived, or hand-written with the derive's meaning: {why}")
            # ---- R20.1 bodies
            # to_native
            bs = prog.find(adt=path, name="to_native")
            tn_ok = False
            if len(bs) == 1:
                b = bs[0]
                r = b.return_terms()
                tn_ok = bool(r)
                ds = []
                for _pp, rt in r:
                    tg, roots = tag_of(rt, wrappers, False)
                    one = resolve_tag(tg, decl) == 'native' and roots == {1}
                    tn_ok = tn_ok and one
                    ds.append(f"{tstr(deep_strip(rt))}: tag {resolve_tag(tg, decl)}")
                ctx.ob("R20.1.to_native", path, tn_ok, b.where(), f"every return path must yield a native-tagged value derived from self (field declared {decl}): {ds}")
                allowed_field_readers.add(b.id)
            else:
                ctx.ob("R20.1.to_native", path, False, where, f"{len(bs)} bodies named to_native")
            # From<native> for W
            bs = [b for b in prog.find(adt=path, trait="std::convert::From", name="from")]
            ok = False
            for b in bs:
                r = b.return_terms()
                ok = bool(r)
                ds = []
                for _pp, rt0 in r:
                    rt = deep_strip(rt0)
                    one = False
                    if rt[0] == 'agg' and rt[1] == path and len(rt[3]) == 1:
                        tg, roots = tag_of(rt[3][0], wrappers, tn_ok)
                        one = resolve_tag(tg, decl) == decl and roots == {1}
                        ds.append(f"{tstr(rt)}: stored tag {resolve_tag(tg, decl)}")
                    else:
                        ds.append(f"{tstr(rt)}: unrecognised")
                    ok = ok and one
                ctx.ob("R20.1.from_native", path, ok, b.where(), f"every return path must store a value tagged {decl}: {ds}")
                allowed_field_readers.add(b.id)
            if not bs:
                ctx.ob("R20.1.from_native", path, False, where, "no From<native> impl body")
            # From<W> for native  (self type is the native prim; find by path pattern)
            bs = [b for b in prog.bodies if b.name == "from" and b.impl_trait == "std::convert::From" and f"From<{path}> for {native}" in b.id]
            for b in bs:
                r = b.return_terms()
                ok = bool(r)
                for _pp, rt0 in r:
                    tg, roots = tag_of(rt0, wrappers, tn_ok)
                    ok = ok and resolve_tag(tg, decl) == 'native' and roots == {1}
                ctx.ob("R20.1.into_native", path, ok, b.where(), f"every return path yields native: {[tstr(deep_strip(x)) for _p, x in r]}")
                allowed_field_readers.add(b.id)
            if not bs:
                ctx.ob("R20.1.into_native", path, False, where, "no From<wrapper> for native impl body")
            # PartialEq both ways: the two compared values carry equal tags, one rooted in each parameter
            eqs = [b for b in prog.bodies if b.name == "eq" and b.impl_trait == "std::cmp::PartialEq" and not b.j.get("impl_derived")
                   and (f"<{path} as std::cmp::PartialEq<{native}>>" in b.id or f"PartialEq<{path}> for {native}" in b.id)]
            ctx.ob("R20.1.eq.present", path, len(eqs) == 2, where, f"{len(eqs)} mixed PartialEq bodies, expected 2")
            for b in eqs:
                r = b.return_terms()
                ok = bool(r)
                detail = ""
                for _pp, rt0 in r:
                    from ..mir import ordering_pred_as_cmp
                    rt = deep_strip(ordering_pred_as_cmp(rt0))      # a.cmp(&b).is_eq() is a == b
                    one = False
                    if rt[0] == 'bin' and rt[1] == 'Eq':
                        (ta, ra), (tb, rb) = tag_of(rt[2], wrappers, tn_ok), tag_of(rt[3], wrappers, tn_ok)
                        ta, tb = resolve_tag(ta, decl), resolve_tag(tb, decl)
                        one = ta == tb and ta in ('native', 'le', 'be') and ra | rb == {1, 2} and ra != rb
                        detail += f"compares {tstr(rt[2])} [{ta}] with {tstr(rt[3])} [{tb}]; "
                    else:
                        detail += f"returns {tstr(rt)[:80]} (not a whole-value comparison); "
                    ok = ok and one
                ctx.ob("R20.1.eq", strip_generics(b.id), ok, b.where(), detail + "; both sides must carry the same byte-order tag")
                allowed_field_readers.add(b.id)
        # ---- any other hand-written body that reads a wrapper's field: the RAW (declared-order) value may only flow into the
        # matching conversion (-> native), a byte view of itself (to_ne_bytes: the wire bytes), an ==/!= with another raw value of
        # the same declared order, or a wrapper of the same declared order. Anything else (returned or compared as if it were
        # native, arithmetic, unknown callee) mixes byte orders.
        n_scanned = n_readers = 0
        decl_of = {pth: w[0] for pth, w in wrappers.items()}
        for b in prog.bodies:
            if b.id in allowed_field_readers or b.j.get("impl_derived"):
                continue
            n_scanned += 1
            bad = raw_flow(b, decl_of)
            if bad is None:
                continue
            n_readers += 1
            for ln, why in bad:
                ctx.ob("R20.1.field_access", f"{strip_generics(b.id)}", False, b.where(ln),
                       f"raw field of an endian wrapper used outside the conversion functions: {why}")
            if not bad:
                ctx.ob("R20.1.field_access", f"{strip_generics(b.id)}", True, b.where(),
                       "raw field flows only into the matching conversion, a to_ne_bytes view, a same-order ==/!=, or a same-order wrapper")
        ctx.ob("R20.1.field_access.scan", "all other bodies", True, "", f"{n_scanned} bodies scanned, {n_readers} read a wrapper field")
    ctx.config = "witness"
    witness.run(ctx, "c20")
    ctx.not_decided = ["numerical behaviour of to_le/to_be/from_le/from_be (trusted core intrinsics)"]
    return ctx.finish(
        "proof",
        "Byte-order typestate over resolved MIR terms for all eight wrappers: every constructor stores a value tagged as the type name "
        "declares, every extractor returns a native-tagged value derived from the field, both mixed PartialEq impls compare equal tags, "
        "no other body touches the field; repr(transparent) + compiler layout facts give size/alignment; ByteValued + derive set present. "
        "Modulo the trusted intrinsics this is the property for every value.",
        TRUSTED, "./check C20")


def raw_flow(b, decl_of):
    """None if the body never reads a wrapper field; else the list of (line, reason) for every use of the raw value that is not
    one of the order-preserving ones. Flow-insensitive taint over MIR locals: taint = declared order of the wrapper read."""
    taint = {}

    def field_tag(pl):
        for e in pl.get("p", []):
            if isinstance(e, dict) and e.get("adt") in decl_of:
                return decl_of[e["adt"]]
        return None

    def op_tag(o):
        if not isinstance(o, dict) or "pl" not in o:
            return None
        pl = o["pl"]
        t = field_tag(pl)
        if t:
            return t
        if pl["l"] in taint and all(e == "*" for e in pl.get("p", [])):
            return taint[pl["l"]]
        return None

    reads = False
    for _pos, s in b.stmts():
        if s["k"] == "assign" and any(field_tag(pl) for pl in _places(s)):
            reads = True
    for _pos, t in b.terms():
        if t["k"] == "call" and any(field_tag(a["pl"]) for a in t.get("args", []) if "pl" in a):
            reads = True
    if not reads:
        return None
    bad = []
    changed = True
    rounds = 0
    while changed and rounds < 8:
        changed = False
        rounds += 1
        bad = []
        for _pos, s in b.stmts():
            if s["k"] != "assign":
                continue
            rv, lhs = s["rv"], s["lhs"]
            k = rv.get("k")
            ops = [rv.get(x) for x in ("op", "a", "b")] + list(rv.get("ops", []))
            if "pl" in rv:
                ops.append({"pl": rv["pl"]})
            tags = [op_tag(o) for o in ops if o is not None]
            tags = [t for t in tags if t]
            if not tags:
                continue
            plain_lhs = not lhs.get("p")
            if k in ("use", "ref") and plain_lhs and lhs["l"] != 0:
                if taint.get(lhs["l"]) != tags[0]:
                    taint[lhs["l"]] = tags[0]
                    changed = True
            elif k == "bin" and rv.get("op") in ("Eq", "Ne") and len(tags) == 2 and tags[0] == tags[1]:
                pass
            elif k == "agg" and rv.get("adt") in decl_of and decl_of[rv["adt"]] == tags[0]:
                pass
            elif k in ("use", "ref") and plain_lhs and lhs["l"] == 0:
                bad.append((s.get("ln"), "the stored (declared-order) integer is returned as if it were a native value"))
            else:
                bad.append((s.get("ln"), f"`{k}` on the stored integer (byte orders mixed)"))
        for _pos, t in b.terms():
            if t["k"] != "call":
                continue
            tags = [op_tag(a) for a in t.get("args", [])]
            if not any(tags):
                continue
            callee = t.get("callee") or ""
            m = CONV.match(callee)
            if m and tags[0]:
                which = 'le' if m.group(2).endswith('le') else 'be'
                if resolve_tag(('toggle', which, tags[0]), None) != 'native':
                    bad.append((t.get("ln"), f"{callee.split('::')[-1]} applied to a {tags[0]}-ordered field"))
            elif re.search(r"::to_ne_bytes$", callee):
                pass
            else:
                bad.append((t.get("ln"), f"stored integer passed to {callee or 'an unresolved callee'}"))
    return bad


def _places(s):
    out = [s["lhs"]]
    rv = s["rv"]
    for k in ("pl",):
        if k in rv:
            out.append(rv[k])
    for k in ("op", "a", "b"):
        o = rv.get(k)
        if isinstance(o, dict) and "pl" in o:
            out.append(o["pl"])
    for o in rv.get("ops", []):
        if "pl" in o:
            out.append(o["pl"])
    return out
