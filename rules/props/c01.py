"""C01 — every accessor handed out stays inside its parent memory and is aligned.

Decides the inductive step of containment: every place where the crate manufactures an accessor
(VolatileSlice / VolatileRef / VolatileArrayRef, &T / &mut T / &Atomic from a raw address, &[u8] / &Self in
ByteValued) from a parent is dominated by a successful range check OF THE VERY offset and extent it then uses,
with the right strictness and no unchecked arithmetic; references additionally by an alignment check for the
same T; no safe client code can manufacture an accessor any other way (witnesses).
"""
import re

from ..mir import deep_strip, tstr, strip_generics, canon, subterms, is_call
from ..pat import unref
from .. import effects, checks, witness, fixtures
from . import c05, c17

CONFIGS = ("FULL", "XEN")
THOROUGH_CONFIGS = ("MIN",)
TRUSTED = [
    "the unsafe constructors' contracts (new / with_bitmap): the caller vouches for the extent it passes",
    "pointer provenance and what the bytes are (not decided)",
    "rustc nightly MIR construction and Instance resolution; borrow checker verdicts for the witnesses",
]
ACC = effects.ACCESSORS
SLICE, REF, ARR = ACC


def self_field(t, name, idx=1):
    t = effects.base_of(t)
    return t[0] == 'field' and t[2] == name and effects.base_of(t[1])[:2] == ('param', idx)


def is_sizeof(t):
    t = deep_strip(t)
    return t[0] == 'call' and canon(t[1]).split("::")[-1] == "size_of"


def unov(t):
    t = deep_strip(t)
    return deep_strip(t[1]) if t[0] == 'field' and t[2] == '0' and deep_strip(t[1])[0] == 'bin' else t


def parent_extent_ok(eff, parent, parent_adt, n):
    """n is (provably) the extent of `parent` itself: size / size_of T / nelem*size_of T"""
    n = unov(eff.inline(n))
    short = (parent_adt or "").split("::")[-1]
    if short == "VolatileSlice":
        return n == ('field', parent, 'size') or (n[0] == 'field' and n[2] == 'size' and effects.base_of(n[1]) == parent)
    if short == "VolatileRef":
        return is_sizeof(n)
    if short == "VolatileArrayRef":
        if n[0] == 'bin' and n[1].startswith("Mul"):
            x, y = deep_strip(n[2]), deep_strip(n[3])
            return (x[0] == 'field' and x[2] == 'nelem' and is_sizeof(y)) or (y[0] == 'field' and y[2] == 'nelem' and is_sizeof(x))
    return False


def rule_sinks(rep, prog, eff):
    S = checks.Summaries(prog, eff)
    n = 0
    for b in prog.bodies:
        if b.j.get("impl_derived") or b.kind == "Promoted":
            continue
        for c in b.calls():
            cn = canon(c.target or "")
            if not (any(cn.startswith(a + "::") for a in ACC) and cn.split("::")[-1] in ("with_bitmap", "new")):
                continue
            n += 1
            adt = "::".join(cn.split("::")[:-1])
            short = adt.split("::")[-1]
            raw = [deep_strip(a) for a in c.args()]
            ptr = raw[0]
            size = raw[1] if short in ("VolatileSlice", "VolatileArrayRef") else None
            inst = f"{b.key}->{short}"
            where = b.where(c.line)
            base, off = c05._peel_ptr(ptr)
            pb = effects.base_of(base)
            facts_ok = checks.succeeded(b, c.pos)
            root = prog.by_id.get(b.root, b)
            is_unsafe_fn = bool(root.j.get("unsafe"))
            # ---- C: constructor pass-through in an unsafe fn
            if pb[0] == 'param' and off is None and (size is None or size[0] == 'param'):
                rep("R1.2.ctor_contract", inst, is_unsafe_fn, where,
                    f"pointer and extent are this function's own parameters: only sound in an `unsafe fn` (is unsafe: {is_unsafe_fn})")
                continue
            # ---- D: base case from a Rust slice
            if pb[0] == 'call' and canon(pb[1]).endswith("slice::as_mut_ptr"):
                v = effects.base_of(pb[2][0])
                ok = size is not None and is_call(size, "slice::len") and effects.base_of(size[2][0]) == v and off is None
                rep("R1.2.base_case", inst, ok, where, f"built from `{tstr(ptr)}` / `{tstr(size)}`: pointer and length of the same Rust slice")
                continue
            # ---- region level: ptr = self.addr / self.as_ptr() (+ offset)
            parent = None
            parent_adt = None
            via_slice = None
            if pb[0] == 'field' and pb[2] == 'addr':
                parent = effects.base_of(pb[1])
                parent_adt = eff._type_of_base(b, parent)
                if parent[0] == 'ok':
                    via_slice = checks.producer(parent)
            elif pb[0] == 'call' and canon(pb[1]).split("::")[-1] == "as_ptr":
                parent = effects.base_of(pb[2][0])
                parent_adt = eff._type_of_base(b, parent)
            if parent is None:
                rep("R1.1.classified", inst, False, where, f"cannot tell which parent the pointer `{tstr(ptr)}` derives from (fail closed)")
                continue
            ext = size if size is not None else None
            # ---- E: via a slice obtained from get_slice(self, o, n): trait method, must not be trusted
            if via_slice is not None and via_slice[0] == 'call' and canon(via_slice[1]).endswith("get_slice"):
                want = deep_strip(via_slice[2][2])  # the count that was requested
                fs = b.facts_at(c.pos)
                have = False
                for r in fs:
                    if r[0] == 'cmp' and r[1] == 'Eq':
                        sides = [eff.inline(r[2]), eff.inline(r[3])]
                        lens = [s for s in sides if (is_call(s, "VolatileSlice::len") or (s[0] == 'field' and s[2] == 'size')) and any(x == deep_strip(parent) or checks.producer(x) == via_slice for x in subterms(s))]
                        others = [s for s in sides if s not in lens]
                        if lens and others and (unov(others[0]) == unov(eff.inline(want)) or (is_sizeof(others[0]) and is_sizeof(want))):
                            have = True
                got = via_slice in facts_ok
                rep("R1.2.via_get_slice", inst, have and got, where,
                    f"accessor over `get_slice(.., {tstr(want)})`: success edge dominates: {got}; `slice.len() == requested count` assert dominates: {have} "
                    "(get_slice is a safe trait method and must not be trusted)")
                # extent of the new accessor must be the requested count
                if short == "VolatileRef":
                    rep("R1.2.extent", inst, is_sizeof(want), where, f"VolatileRef<T> covers size_of::<T>() bytes; requested `{tstr(want)}`")
                elif short == "VolatileArrayRef":
                    # nbytes = try_from(n).and_then(|n| n.checked_mul(size_of T)) — R1.4
                    nelem = raw[1]
                    okm, d = array_bytes_checked(prog, b, eff, want, nelem)
                    rep("R1.4.array_bytes", inst, okm, where, d)
                continue
            # ---- F: ref_at
            if off is not None and short == "VolatileRef" and (parent_adt or "").endswith("VolatileArrayRef"):
                o = unov(eff.inline(off))
                idx = None
                if o[0] == 'bin' and o[1].startswith("Mul"):
                    x, y = deep_strip(o[2]), deep_strip(o[3])
                    idx = y if is_sizeof(x) else (x if is_sizeof(y) else None)
                fs = b.facts_at(c.pos)
                ok = idx is not None and any(r[0] == 'cmp' and r[1] == 'Lt' and r[2] == idx and r[3][0] == 'field' and r[3][2] == 'nelem' for r in fs)
                rep("R1.2.ref_at", inst, ok, where, f"element pointer = addr + `{tstr(o)}`; requires byte offset = size_of::<T>() * index with `index < nelem` dominating")
                continue
            # ---- G: a sub-range of an element array, checked in ELEMENTS: pointer moved by index * size_of::<T>(), `count` elements,
            # behind a successful index + count (no wrap) that is <= the parent's nelem. Scaling all three by the same element size
            # keeps the inclusion: (index + count) * s <= nelem * s.
            if off is not None and short == "VolatileArrayRef" and (parent_adt or "").endswith("VolatileArrayRef"):
                idx = _scaled_index(eff.inline(off))
                fs = b.facts_at(c.pos)
                ok = False
                if idx is not None and ext is not None:
                    for s in facts_ok:
                        if s[0] == 'call' and canon(s[1]).split("::")[-1] in ("compute_offset", "checked_add") and len(s[2]) == 2 and \
                                sorted(map(repr, (deep_strip(s[2][0]), deep_strip(s[2][1])))) == sorted(map(repr, (idx, deep_strip(ext)))):
                            for r in fs:
                                if r[0] == 'cmp' and r[1] == 'Le' and checks.producer(deep_strip(r[2])) == s and deep_strip(r[2])[0] == 'ok':
                                    y = unref(r[3])
                                    if y[0] == 'field' and y[2] == 'nelem' and effects.base_of(y[1]) == parent:
                                        ok = True
                rep("R1.2.elem_range", inst, ok, where,
                    f"sub-array at addr + `{tstr(eff.inline(off))}` with `{tstr(ext)}` elements: requires byte offset = index * size_of::<T>() and a successful "
                    "index + count (checked) <= nelem of the parent dominating (non-strict)")
                continue
            # ---- A: moved pointer inside a parent with a length
            if off is not None:
                ok = False
                detail = ""
                for s in facts_ok:
                    if s[0] != 'call':
                        continue
                    rc = S.range_check(s[1]) or _trait_range_check(prog, S, s)
                    if rc and effects.base_of(s[2][0]) == parent and deep_strip(s[2][rc["a"] - 1]) == off and (ext is None or deep_strip(s[2][rc["b"] - 1]) == ext):
                        ok = rc["rel"] == "Le"
                        detail = f"dominated by successful `{canon(s[1]).split('::')[-1]}({tstr(parent)}, {tstr(off)}, {tstr(ext)})` which guarantees offset+count {rc['rel']} len"
                if not ok and ext is not None:
                    # offset(): size = ok(len(parent) checked_sub off)
                    p = checks.producer(ext)
                    if p[0] == 'call' and canon(p[1]).endswith("num::checked_sub"):
                        x, y = deep_strip(p[2][0]), deep_strip(p[2][1])
                        if parent_extent_ok(eff, parent, parent_adt, x) and y == off and p in facts_ok:
                            ok = True
                            detail = f"new extent is the Some payload of `{tstr(x)}.checked_sub({tstr(y)})`: offset <= len and extent = len - offset"
                rep("R1.2.range_checked", inst, ok, where,
                    (detail if ok else f"pointer moved by `{tstr(off)}` with extent `{tstr(ext)}` inside `{tstr(parent)}` but no successful range check of these same values dominates") )
                continue
            # ---- B: pointer not moved: extent must be <= parent's
            ok = False
            detail = ""
            ref_ok = True
            if ext is None and short == "VolatileRef":
                # a VolatileRef<T> covers size_of::<T>() bytes: the parent at whose address it is placed must be known to hold them
                fs = b.facts_at(c.pos)
                ref_ok = False
                for r in fs:
                    if r[0] == 'cmp' and r[1] == 'Eq':
                        sides = [eff.inline(r[2]), eff.inline(r[3])]
                        if any(is_sizeof(s) for s in sides) and any((is_call(s, "VolatileSlice::len") or (s[0] == 'field' and s[2] == 'size')) and
                                                                     any(x == deep_strip(parent) for x in subterms(s)) for s in sides):
                            ref_ok = True
            if not ref_ok:
                ok = False
                detail = ""
            elif short == "VolatileArrayRef" and ext is not None and _array_over_exact_slice(prog, eff, parent, ext, facts_ok):
                ok = True
                detail = (f"array of `{tstr(ext)}` elements at the address of a sub-slice that was requested with exactly "
                          f"`{tstr(ext)}`.checked_mul(size_of::<T>()) bytes (successful): same extent in bytes")
            elif ext is None or parent_extent_ok(eff, parent, parent_adt, ext):
                ok = True
                detail = f"same address, extent `{tstr(eff.inline(ext)) if ext is not None else 'size_of::<T>()'}` is the parent's own extent"
                if short == "VolatileArrayRef" and (parent_adt or "").endswith("VolatileSlice"):
                    # From<VolatileSlice> for VolatileArrayRef<u8>: nelem = size only valid for 1-byte elements
                    st = root.self_ty
                    targs = [x.s for x in st.peel().args()] if st else []
                    ok = bool(targs) and targs[0] in ("u8", "i8")
                    detail += f"; element type {targs[:1]} must be 1 byte wide for nelem = size"
            else:
                for s in facts_ok:
                    if s[0] != 'call':
                        continue
                    le = S.le_check(s[1])
                    if le and effects.base_of(s[2][0]) == parent and deep_strip(s[2][le - 1]) == ext:
                        ok = True
                        detail = f"dominated by successful `{canon(s[1]).split('::')[-1]}({tstr(parent)}, {tstr(ext)})` which guarantees extent <= len"
            rep("R1.2.same_addr", inst, ok, where, detail if ok else
                (f"VolatileRef<T> placed at the address of `{tstr(parent)[:80]}` but nothing shows that parent holds size_of::<T>() bytes (a start-only check such as offset() accepts start == len)" if not ref_ok else
                 f"accessor at the parent's address with extent `{tstr(ext)}` but nothing shows extent <= len(`{tstr(parent)}`)"))
    return n


def _scaled_index(o):
    """o == index * size_of::<T>() (checked or plain, either order) -> index"""
    o = unov(o)
    if o[0] == 'ok':
        o = checks.producer(o)
    args = None
    if o[0] == 'bin' and o[1].startswith("Mul"):
        args = (deep_strip(o[2]), deep_strip(o[3]))
    elif o[0] == 'call' and canon(o[1]).endswith("num::checked_mul") and len(o[2]) == 2:
        args = (deep_strip(o[2][0]), deep_strip(o[2][1]))
    if args is None:
        return None
    x, y = args
    if is_sizeof(x) and tuple(x[3] if len(x) > 3 else ()) == ("T",):
        return y
    if is_sizeof(y) and tuple(y[3] if len(y) > 3 else ()) == ("T",):
        return x
    return None


def _array_over_exact_slice(prog, eff, parent, nelem, facts_ok):
    """parent == ok(subslice(X, o, n)) of the crate's own VolatileSlice::subslice (whose result has exactly the requested length:
    checked on its body), with n == nelem * size_of::<T>() (checked multiplication that succeeded)"""
    parent = deep_strip(parent)
    if parent[0] != 'ok':
        return False
    p = checks.producer(parent)
    if not (p[0] == 'call' and strip_generics(p[1]).endswith("volatile_memory::VolatileSlice::subslice") and p in facts_ok and len(p[2]) == 3):
        return False
    sub = prog.by_id.get(p[1]) or next((x for x in prog.bodies if strip_generics(x.id) == strip_generics(p[1])), None)
    if sub is None:
        return False
    exact = False
    for _pos, rt in sub.return_terms():
        for x in subterms(deep_strip(rt)):
            if x[0] == 'call' and canon(x[1]).endswith("VolatileSlice::with_bitmap"):
                exact = deep_strip(x[2][1])[:2] == ('param', 3)
    n = _scaled_index(eff.inline(p[2][2]))
    return exact and n is not None and n == deep_strip(nelem)


def _trait_range_check(prog, S, s):
    """calls through the trait (VolatileMemory::compute_end_offset) resolve to the provided method"""
    c = canon(s[1])
    for b in prog.bodies:
        if b.in_trait and strip_generics(b.id) == c:
            return S.range_check(b.id)
    return None


def array_bytes_checked(prog, b, eff, nbytes, nelem):
    """nbytes derives from isize::try_from(n) and checked_mul(size_of T) with n == nelem"""
    p = checks.producer(nbytes)
    # ok_or(and_then(ok(try_from(n)), closure))
    has_try = [x for x in subterms(deep_strip(nbytes)) if is_call(x, "try_from")]
    n_ok = bool(has_try) and deep_strip(has_try[0][2][0]) == deep_strip(nelem)
    mul_ok = False
    # combinator form: the multiplication sits in the closure of `.and_then(|n| n.checked_mul(size_of::<T>() as isize))`;
    # match / `?` form: it is a subterm of the byte count itself, applied to the Ok payload of the same try_from
    for cb in prog.family(b)[1:]:
        for c in cb.calls():
            if canon(c.target or "").endswith("num::checked_mul"):
                a = [deep_strip(x) for x in c.args()]
                mul_ok = mul_ok or (any(is_sizeof(x) for x in a) and any(x[0] == 'param' for x in a))
    for x in subterms(deep_strip(nbytes)):
        if is_call(x, "checked_mul") and len(x[2]) == 2:
            a = [deep_strip(y) for y in x[2]]
            from_try = any(y[0] == 'ok' and has_try and checks.producer(y) == has_try[0] for y in a)
            mul_ok = mul_ok or (any(is_sizeof(y) for y in a) and from_try)
    isz = bool(has_try) and any("isize" in str(x) for x in (has_try[0][3] if len(has_try[0]) > 3 else ())) or bool(has_try) and "isize" in has_try[0][1]
    return (n_ok and mul_ok and isz), f"byte count = isize::try_from(n) [{n_ok and isz}] .checked_mul(size_of::<T>()) [{mul_ok}] of the same n that becomes nelem"


def rule_references(rep, prog, eff):
    """R1.5: reference-producing sinks need range + length assert + alignment check for the same T"""
    n = 0
    for b, pos, ln, t, o, mut in c17.reference_sinks(prog, eff):
        if o[0] in ('host', 'unknown', 'param'):
            continue
        n += 1
        inst = f"{b.key}|reference"
        where = b.where(ln)
        facts_ok = checks.succeeded(b, pos)
        # target type of the reference
        ref_ty = None
        for p2, s in b.stmts():
            if p2 == pos:
                ref_ty = b.local_ty(s["lhs"]["l"]).inner() if "p" not in s["lhs"] else None
        tname = ref_ty.s if ref_ty is not None else "?"
        # alignment: succeeded check_alignment(slice, align_of::<T>())
        al = [s for s in facts_ok if s[0] == 'call' and canon(s[1]).endswith("check_alignment")]
        al_ok = False
        for s in al:
            a = deep_strip(s[2][1])
            if a[0] == 'call' and canon(a[1]).split("::")[-1] == "align_of" and len(a) > 3 and a[3] and a[3][0] == tname:
                al_ok = True
        inline_mask = False
        if not al_ok:
            # the same test written out (the private helper was inlined, or never existed): (slice.addr & (align_of::<T>() - 1)) == 0
            for r in b.facts_at(pos):
                if r[0] == 'cmp' and r[1] == 'Eq' and r[3] == ('const', 0):
                    m = deep_strip(r[2])
                    if m[0] == 'bin' and m[1] == 'BitAnd':
                        sides = [unov(deep_strip(m[2])), unov(deep_strip(m[3]))]
                        masks = [s for s in sides if s[0] == 'bin' and s[1].startswith("Sub") and deep_strip(s[3]) == ('const', 1) and
                                 is_call(deep_strip(s[2]), "align_of") and len(deep_strip(s[2])) > 3 and deep_strip(s[2])[3] and deep_strip(s[2])[3][0] == tname]
                        addrs = [s for s in sides if any(x[0] == 'field' and x[2] == 'addr' for x in subterms(s))]
                        if masks and addrs:
                            al_ok = inline_mask = True
        rep("R1.5.aligned", inst, al_ok, where, f"reference to `{tname}`: a successful check_alignment(.., align_of::<{tname}>()) must dominate (found: {[tstr(x) for x in al]}{'; written out as (addr & (align_of - 1)) == 0' if inline_mask else ''})")
        if inline_mask:
            rep("R1.5.alignment_mask", inst, True, where, "alignment test written out at the sink: (slice.addr & (align_of::<T>() - 1)) == 0")
        # range: succeeded get_slice(self, off, size_of T) and the len assert
        gs = [s for s in facts_ok if s[0] == 'call' and canon(s[1]).endswith("get_slice")]
        rng_ok = any(is_sizeof(s[2][2]) and (len(deep_strip(s[2][2])) > 3 and deep_strip(s[2][2])[3][0] == tname) for s in gs)
        fs = b.facts_at(pos)
        len_ok = False
        for r in fs:
            if r[0] == 'cmp' and r[1] == 'Eq':
                sides = [eff.inline(r[2]), eff.inline(r[3])]
                if any(is_call(s, "VolatileSlice::len") or (s[0] == 'field' and s[2] == 'size') for s in sides) and any(is_sizeof(s) for s in sides):
                    len_ok = True
        rep("R1.5.range", inst, rng_ok and len_ok, where, f"get_slice(offset, size_of::<{tname}>()) succeeded: {rng_ok}; `slice.len() == size_of` assert dominates: {len_ok}")
    # check_alignment itself: Ok only when (addr & (alignment - 1)) == 0
    for b in prog.find(adt=SLICE, name="check_alignment"):
        n += 1
        ok = False
        for pos, t in b.return_terms():
            t = deep_strip(t)
            if t[0] == 'agg' and t[2] == 'Ok':
                for r in b.facts_at(pos):
                    if r[0] == 'cmp' and r[1] == 'Eq' and r[3] == ('const', 0):
                        m = deep_strip(r[2])
                        if m[0] == 'bin' and m[1] == 'BitAnd':
                            mask = unov(m[3])
                            ok = (mask[0] == 'bin' and mask[1].startswith("Sub") and deep_strip(mask[2])[:2] == ('param', 2) and deep_strip(mask[3]) == ('const', 1)
                                  and any(x[0] == 'field' and x[2] == 'addr' for x in subterms(m[2])))
        rep("R1.5.alignment_mask", b.key, ok, b.where(), "check_alignment returns Ok only when (self.addr & (alignment - 1)) == 0")
    return n


ARRAY = "volatile_memory::VolatileArrayRef"
BYTE_SINKS = (
    (re.compile(r"ptr::(mut_ptr|const_ptr)::(add|sub|wrapping_add|wrapping_sub|offset)$"), 1, "pointer offset"),
    (re.compile(r"(Bitmap|BitmapSlice|WithBitmapSlice)::slice_at$|::slice_at$"), 1, "bitmap offset"),
    (re.compile(r"Bitmap::mark_dirty$|::mark_dirty$"), 1, "dirty-mark offset"),
    (re.compile(r"Bitmap::mark_dirty$|::mark_dirty$"), 2, "dirty-mark length"),
    (re.compile(r"PtrGuard(Mut)?::(read|write|new)$"), -1, "guard length"),
    (re.compile(r"VolatileSlice::(subslice|offset)$|VolatileMemory::get_slice$"), 1, "byte offset"),
    (re.compile(r"VolatileSlice::subslice$|VolatileMemory::get_slice$"), 2, "byte count"),
)


def rule_element_units(rep, prog, eff):
    """R1.7 — in the methods of the element array VolatileArrayRef<T> a quantity measured in ELEMENTS (it is compared with, or range-
    checked against, `self.nelem`) must be scaled by size_of::<T>() before it is used as a BYTE quantity: an offset of the u8 base
    pointer, an offset into the dirty bitmap, a guard / mark length, a byte offset or count of the underlying slice. (For T = u8 the
    two units coincide; impls for VolatileArrayRef<u8> are exempt.)"""
    from ..bounds import norm as bnorm
    S = checks.Summaries(prog, eff)
    n = 0
    for b in prog.bodies:
        root = prog.by_id.get(b.root, b) if b.kind == "Closure" else b
        if root.self_adt != ARRAY or b.j.get("impl_derived") or b.kind == "Promoted":
            continue
        st = root.self_ty
        targs = [x.s for x in st.peel().args()] if st else []
        if targs and targs[0] in ("u8", "i8"):
            continue
        # ELEMENT-unit terms: operands of comparisons with self.nelem / len(self), and summands of checked sums compared with it
        elem = set()

        def is_nelem(t):
            return (t[0] == 'field' and t[2] == 'nelem') or (t[0] == 'call' and canon(t[1]).endswith("VolatileArrayRef::len"))

        def add_elem(t):
            t = bnorm(t)
            if t[0] in ('param', 'var') or (t[0] == 'field' and not is_nelem(t)):
                elem.add(t)
            if t[0] == 'bin' and t[1] in ('Add', 'Sub'):
                add_elem(t[2]); add_elem(t[3])
            if t[0] == 'call' and canon(t[1]).split("::")[-1] in ("min", "max", "saturating_sub", "saturating_add") and len(t[2]) == 2:
                add_elem(t[2][0]); add_elem(t[2][1])
            if t[0] == 'ok':
                # the payload of a successful checked sum (core's checked_add or a local helper discovered as one): both summands
                pr = checks.producer(t)
                if pr[0] == 'call' and len(pr[2]) >= 2:
                    ij = (1, 2) if canon(pr[1]).endswith("num::checked_add") else (S.checked_sum(pr[1]) if pr[1] in prog.by_id else None)
                    if ij:
                        add_elem(pr[2][ij[0] - 1]); add_elem(pr[2][ij[1] - 1])
        for pos, t in b.terms():
            if t["k"] != "switch":
                continue
            c = bnorm(b.term(t["discr"], pos)) if "discr" in t else None
            if c is not None and c[0] == 'bin' and c[1] in ('Lt', 'Le', 'Gt', 'Ge', 'Eq', 'Ne'):
                x, y = bnorm(c[2]), bnorm(c[3])
                if is_nelem(x):
                    add_elem(y)
                if is_nelem(y):
                    add_elem(x)
        if not elem:
            continue
        for c in b.calls():
            cn = canon(c.target or c.callee or "")
            for rx, idx, what in BYTE_SINKS:
                if not rx.search(cn):
                    continue
                args = c.args()
                if idx == -1:
                    idx = len(args) - 1
                if idx >= len(args):
                    continue
                if "ptr::" in cn:
                    # only offsets of a byte pointer are byte quantities
                    tys = c.t.get("arg_tys") or []
                    if not tys or not re.fullmatch(r"\*(mut|const) (u8|i8)", prog.types[tys[0]]["s"]):
                        continue
                a = bnorm(args[idx])
                n += 1
                bad = a in elem or (a[0] == 'bin' and a[1] in ('Add', 'Sub') and (bnorm(a[2]) in elem or bnorm(a[3]) in elem))
                rep("R1.7.element_units", f"{b.key}|{cn.split('::')[-1]}#{idx}", not bad, c.where(),
                    f"{what} `{tstr(deep_strip(args[idx]))[:60]}` of an element array: " + ("a byte quantity (not an element count / index used unscaled)" if not bad else
                     "this value is compared with `nelem` elsewhere in the function, i.e. it counts ELEMENTS, but is used here as a number of BYTES without size_of::<T>()"))
    return n


def rule_bytevalued(rep, prog, eff):
    n = 0
    for nm, fn in (("from_slice", "align_to"), ("from_mut_slice", "align_to_mut")):
        for b in prog.find(in_trait="bytes::ByteValued", name=nm):
            n += 1
            cs = [c for c in b.calls() if canon(c.target or "").endswith("slice::" + fn)]
            ok = False
            detail = f"no call to {fn}"
            if len(cs) == 1:
                fs = b.facts_at(cs[0].pos)
                len_ok = any(r[0] == 'cmp' and r[1] == 'Eq' and any(is_call(eff.inline(x), "slice::len") for x in (r[2], r[3])) and any(is_sizeof(x) for x in (r[2], r[3])) for r in fs)
                # result used only through the ([], [mid], []) shape: three length tests 0,1,0
                lens = []
                for bb, ct, edges in b.branch_facts():
                    c = deep_strip(ct)
                    if c[0] == 'un' and c[1] == 'PtrMetadata' or (c[0] == 'call' and canon(c[1]).endswith("slice::len")):
                        lens.append([v for _t, v in edges])
                ok = len_ok
                detail = f"align_to dominated by `data.len() == size_of::<Self>()`: {len_ok}"
            rep("R1.5.bytevalued_ref", b.key, ok, b.where(), detail)
    for nm in ("as_slice", "as_mut_slice"):
        for b in prog.find(in_trait="bytes::ByteValued", name=nm):
            n += 1
            cs = [c for c in b.calls() if re.search(r"slice::from_raw_parts(_mut)?$", canon(c.target or ""))]
            ok = False
            if len(cs) == 1:
                a = [deep_strip(x) for x in cs[0].args()]
                ok = effects.base_of(a[0])[:2] == ('param', 1) and is_sizeof(a[1]) and a[1][3] == ("Self",)
            rep("R1.5.bytevalued_bytes", b.key, ok, b.where(), "from_raw_parts(self as *const u8, size_of::<Self>())")
    return n


def rule_privacy(rep, prog):
    n = 0
    for adt in ACC + ("volatile_memory::PtrGuard",):
        a = prog.adts.get(adt)
        n += 1
        pub = [f["name"] for f in a["variants"][0]["fields"] if f["vis"] == "pub"]
        rep("R1.6.private_fields", adt, not pub, f"{a['file']}:{a['line']}", f"public fields: {pub} (address/size fields must be private so safe code cannot forge an accessor)")
    for adt in ACC:
        for nm in ("new", "with_bitmap"):
            for b in prog.find(adt=adt, name=nm):
                n += 1
                rep("R1.6.unsafe_ctor", b.key, bool(b.j.get("unsafe")), b.where(), "raw constructors must be `unsafe fn`")
    return n


def rule_get_slice_forwarders(rep, prog, eff):
    """R1.2.get_slice_forward: an implementation of VolatileMemory::get_slice that hands the request on to another accessor-producing
    method of the crate (VolatileSlice: `self.subslice(offset, count)`) passes its own (offset, count), in this order — every
    `via_get_slice` sink relies on get_slice(o, n) being the range [o, o + n) (found by a sweep that swapped the two arguments)"""
    n = 0
    for b in prog.bodies:
        if b.impl_trait != "volatile_memory::VolatileMemory" or b.name != "get_slice" or b.kind == "Closure":
            continue
        rts = [deep_strip(t) for _p, t in b.return_terms()]
        for t in rts:
            if t[0] == 'call' and t[1] in prog.by_id and len(t[2]) == 3 and canon(t[1]).split("::")[-1] in ("subslice", "get_slice"):
                n += 1
                a = [unref(x) for x in t[2]]
                ok = a[0][:2] == ('param', 1) and a[1][:2] == ('param', 2) and a[2][:2] == ('param', 3)
                rep("R1.2.get_slice_forward", b.key, ok, b.where(), f"forwards ({', '.join(tstr(x) for x in a)}); required (self, offset, count)")
    return n


def run(ctx, progs):
    for cfg, prog in progs.items():
        ctx.config = cfg
        eff = effects.Effects(prog)
        rule_get_slice_forwarders(ctx.ob, prog, eff)
        n = rule_sinks(ctx.ob, prog, eff)
        ctx.floor("R1.1.sinks", n, 14, MIN=13)
        n = rule_references(ctx.ob, prog, eff)
        ctx.floor("R1.5.references", n, 3)   # the three reference-producing sinks (check_alignment itself is counted when it exists as a function)
        n = rule_bytevalued(ctx.ob, prog, eff)
        ctx.floor("R1.5.bytevalued", n, 4)
        n = rule_element_units(ctx.ob, prog, eff)
        ctx.floor("R1.7.unit_sinks", n, 1)
        n = rule_privacy(ctx.ob, prog)
        ctx.floor("R1.6.types", n, 10)
        # the discovered checks themselves (strictness R1.3)
        S = checks.Summaries(prog, eff)
        found = {"sum": [], "range": [], "le": []}
        for b in prog.bodies:
            if b.kind in ("Closure", "Promoted"):
                continue
            if S.checked_sum(b.id):
                found["sum"].append(b.key)
            rc = S.range_check(b.id)
            if rc:
                found["range"].append(b.key)
                ctx.ob("R1.3.strictness", b.key, rc["rel"] == "Le", b.where(), f"success edge guarantees offset + count {rc['rel']} len (must be `Le`: end may equal len, not exceed it)")
            if S.le_check(b.id):
                found["le"].append(b.key)
        ctx.floor("R1.3.discovered_checks", len(found["sum"]) + len(found["range"]) + len(found["le"]), 3)
        ctx.extra.setdefault("discovered_checks", {})[cfg] = found
    ctx.config = "witness"
    witness.run(ctx, "c01", min_pairs=3)
    ctx.not_decided = [
        "that the parent's extent is real memory (contract of the unsafe constructors and of mmap)",
        "what the bytes are; pointer provenance",
        "a wrong-but-in-range offset (lands inside the parent at the wrong place): C04/C05",
    ]
    return ctx.finish(
        "other",
        "Sink enumeration by effect (every call of the accessor constructors, every reference manufactured from a raw address, ByteValued views) and, per "
        "sink, check-then-use by dominance on the resolved MIR: a successful range check of the very offset/extent used (checks discovered by summary: a "
        "function is a range check iff its Ok return implies a non-overflowing a+b <= len(self)), the length assert against untrusted get_slice, the "
        "index assert of ref_at, isize/checked_mul for element counts, and alignment for the same T. Containment for derivation chains of any depth follows "
        "by induction; rustc decides that safe clients cannot forge accessors (witnesses).",
        TRUSTED, "./check C01")
