"""C12 — a mapping lives exactly as long as something can still reach it.

R12.1 every libc::mmap result flows only into an owner aggregate whose Drop munmaps those same two fields,
      with no return edge between a successful mmap and the owner (nothing leaks on an error path);
R12.2 `owned` typestate: true only where the library mapped, false only for raw pointers; Drop unmaps iff owned;
R12.3 owner types are not Clone/Copy (single owner => dropped once); no forget/ManuallyDrop/into_raw/leak;
R12.4 (XEN) window / grant Drop release what was mapped; the derived Clone on mapping owners is only ever
      reached through the tabled on-demand chain (where no advance mapping exists);
R12.5 rustc decides for ALL client programs that no accessor outlives its region or map: compile-fail corpus
      with compiling twins, backed by a signature rule (output lifetimes are bounded by the inputs).
"""
import re

from ..mir import deep_strip, tstr, strip_generics, canon, subterms, is_call
from .. import effects, witness, fixtures
from ..pat import P, K, V, C, F, AGG, OKP, BIN, CLO, TUP, FN, ANY, ALT, match, unref

CONFIGS = ("FULL", "XEN")
TRUSTED = [
    "the kernel unmaps what munmap is given; Arc drops its payload exactly once, when the last owner goes away",
    "Rust move semantics: a value that is not Clone/Copy has a single owner and is dropped once",
    "rustc borrow checker verdicts on the witness corpus",
]
LEAKS = re.compile(r"mem::forget$|ManuallyDrop::new$|Arc::into_raw$|Rc::into_raw$|Box::leak$|Box::into_raw$|Vec::leak$|mem::transmute$")
OWNERS_FULL = ("mmap::unix::MmapRegion",)
OWNERS_XEN = ("mmap::xen::MmapUnix", "mmap::xen::MmapXenGrant", "mmap::xen::MmapXenSlice")


def drop_body(prog, adt):
    bs = prog.find(adt=adt, trait="std::ops::Drop", name="drop")
    return bs[0] if len(bs) == 1 else None


def rule_mmap_owner(ctx, prog, eff):
    n = 0
    for b in prog.bodies:
        for c in b.calls():
            if canon(c.target or "") != "libc::mmap":
                continue
            n += 1
            call_t = deep_strip(b.call_term(c.t, c.pos, 0))
            size_arg = unref(c.arg(1))
            inst = f"{b.key}|mmap"
            ok_all = True
            details = []
            owner = None
            for pos, t in b.return_terms():
                if not (b.pos_dominates(c.pos, pos)):
                    continue  # returns before the mmap call
                t = deep_strip(t)
                facts = b.facts_at(pos)
                failed = any(r[0] == 'cmp' and r[1] == 'Eq' and unref(r[2]) == call_t and unref(r[3])[0] == 'sym' and "MAP_FAILED" in str(unref(r[3])[1]) for r in facts)
                succeeded = any(r[0] == 'cmp' and r[1] == 'Ne' and unref(r[2]) == call_t and "MAP_FAILED" in str(unref(r[3])) for r in facts)
                if t[0] == 'agg' and t[2] == 'Err':
                    if not failed:
                        ok_all = False
                        details.append(f"error return at bb{pos[0]} after a possibly successful mmap: the mapping would leak")
                    continue
                if t[0] == 'agg' and t[2] == 'Ok':
                    v = unref(t[3][0])
                    if v[0] == 'agg' and v[1] in prog.adts:
                        a = prog.adts[v[1]]
                        names = [f["name"] for f in a["variants"][0]["fields"]]
                        f = dict(zip(names, [unref(x) for x in v[3]]))
                        addr_ok = f.get("addr") == call_t
                        size_ok = f.get("size") == size_arg
                        owner = v[1]
                        if not (addr_ok and size_ok and succeeded):
                            ok_all = False
                        details.append(f"Ok({v[1].split('::')[-1]} {{ addr: mmap result [{addr_ok}], size: the size passed to mmap [{size_ok}] }}) behind `!= MAP_FAILED` [{succeeded}]")
                        continue
                ok_all = False
                details.append(f"unrecognised return after mmap: {tstr(t)[:80]}")
            ctx.ob("R12.1.mmap_into_owner", inst, ok_all and owner is not None, c.where(), "; ".join(details))
            if owner:
                d = drop_body(prog, owner)
                okd = False
                dd = "owner has no Drop impl"
                if d:
                    um = [x for x in d.calls() if canon(x.target or "") == "libc::munmap"]
                    if len(um) == 1:
                        a = [unref(x) for x in um[0].args()]
                        okd = match(F(P(1), "addr"), a[0], {}) and match(F(P(1), "size"), a[1], {})
                        dd = f"Drop calls munmap({tstr(a[0])}, {tstr(a[1])})"
                    else:
                        dd = f"Drop has {len(um)} munmap calls"
                ctx.ob("R12.1.owner_drop_unmaps", owner, okd, d.where() if d else "", dd + "; required munmap(self.addr, self.size)")
    return n


def rule_owned_typestate(ctx, prog, eff):
    ADT = "mmap::unix::MmapRegion"
    if ADT not in prog.adts:
        return
    sites = []
    for b in prog.bodies:
        for pos, s in b.stmts():
            if s["k"] == "assign" and s["rv"]["k"] == "agg" and s["rv"].get("adt") == ADT:
                f = dict(zip(s["rv"]["fields"], [unref(b.term(o, pos)) for o in s["rv"]["ops"]]))
                sites.append((b, pos, s, f))
    ctx.floor("R12.2.aggregates", len(sites), 2)
    for b, pos, s, f in sites:
        owned = f.get("owned")
        addr = f.get("addr")
        from_mmap = addr is not None and addr[0] == 'call' and canon(addr[1]) == "libc::mmap"
        if owned == ('const', 1):
            ok = from_mmap
            d = "owned: true requires addr to be the result of this function's own libc::mmap"
        elif owned == ('const', 0):
            ok = not from_mmap
            d = "owned: false is for externally provided pointers only"
        else:
            ok = False
            d = f"owned is not a constant: `{tstr(owned)}`"
        ctx.ob("R12.2.owned_flag", b.key, ok, b.where(s["ln"]), d + f" (addr = `{tstr(addr)[:60]}`)")
    # Drop unmaps iff owned
    d = drop_body(prog, ADT)
    ok = False
    detail = "no Drop impl"
    if d:
        um = [x for x in d.calls() if canon(x.target or "") == "libc::munmap"]
        if len(um) == 1:
            facts = d.facts_at(um[0].pos)
            on_owned = [r for r in facts if r[0] == 'bool' and match(F(P(1), "owned"), r[1], {})]
            other = [r for r in facts if r not in on_owned]
            ok = len(on_owned) == 1 and on_owned[0][2] is True and not other
            detail = f"munmap guarded by {[('owned' if r in on_owned else tstr(r[1])) + '=' + str(r[2]) for r in facts]}"
            # and on the !owned edge there is a return without munmap — follows from a single munmap site dominated by owned == true
    ctx.ob("R12.2.drop_iff_owned", ADT, ok, d.where() if d else "", detail + "; required: exactly `if self.owned { munmap }`")
    # no other write to `owned`
    for b in prog.bodies:
        for pos, s in b.stmts():
            if s["k"] == "assign" and "p" in s["lhs"]:
                for e in s["lhs"]["p"]:
                    if isinstance(e, dict) and e.get("adt") == ADT and e.get("name") in ("owned", "addr", "size"):
                        ctx.ob("R12.2.no_field_write", b.key, False, b.where(s["ln"]), f"assignment to MmapRegion.{e['name']} outside construction")
    ctx.ob("R12.2.no_field_write.scan", ADT, True, "", "no assignment to addr/size/owned outside the two aggregates")


def rule_single_owner(ctx, prog, cfg):
    owners = OWNERS_FULL if cfg != "XEN" else ()
    for adt in owners + ("mmap::GuestRegionMmap",) + (("mmap::xen::MmapRegion", "mmap::xen::MmapXen", "mmap::xen::MmapXenSlice") if cfg == "XEN" else ()):
        if adt not in prog.adts:
            continue
        cl = prog.adt_impls(adt, "std::clone::Clone") + prog.adt_impls(adt, "std::marker::Copy")
        ctx.ob("R12.3.not_clone", adt, not cl, f"{prog.adts[adt]['file']}:{prog.adts[adt]['line']}",
               f"{len(cl)} Clone/Copy impl(s): a cloned owner would unmap the same memory twice")
    hits = []
    for b in prog.bodies:
        if re.search(r"^(<)?mmap::xen::_::|FamStruct", b.key):
            continue
        for c in b.calls():
            if LEAKS.search(canon(c.target or "")):
                hits.append((b, c))
    for b, c in hits:
        ctx.ob("R12.3.no_leak_primitives", f"{b.key}|{canon(c.target).split('::')[-1]}", False, c.where(), "forget/ManuallyDrop/into_raw/leak/transmute can detach a mapping from its owner")
    ctx.ob("R12.3.no_leak_primitives.scan", "all bodies", not hits, "", f"{len(prog.bodies)} bodies scanned")


def rule_xen(ctx, prog, eff):
    # MmapUnix aggregate only in MmapUnix::new
    for b in prog.bodies:
        for pos, s in b.stmts():
            if s["k"] == "assign" and s["rv"]["k"] == "agg" and s["rv"].get("adt") == "mmap::xen::MmapUnix":
                root = prog.by_id.get(b.root, b)
                ok = (root.self_adt == "mmap::xen::MmapUnix" and root.name == "new") or bool(root.j.get("impl_derived"))
                ctx.ob("R12.4.mmapunix_ctor", b.key, ok, b.where(s["ln"]), "MmapUnix values are only built by MmapUnix::new (or its derived Clone, see R12.4.clone_chain)")
    # derived Clone on mapping owners: who calls it? (exact call sites: resolved target, or Clone::clone on a value of that type)
    OWN = ("mmap::xen::MmapUnix", "mmap::xen::MmapXenUnix", "mmap::xen::MmapXenForeign", "mmap::xen::MmapXenGrant")
    clones = {b.self_adt: b for b in prog.bodies if b.name == "clone" and b.impl_trait == "std::clone::Clone" and b.self_adt in OWN}
    callers = {a: [] for a in clones}
    for b in prog.bodies:
        for c in b.calls():
            cn = canon(c.target or "")
            if not cn.endswith("Clone::clone"):
                continue
            tgt = c.t.get("resolved")
            hit = None
            for a, cb in clones.items():
                if tgt == cb.id:
                    hit = a
            if hit is None and c.t.get("arg_tys"):
                at = prog.ty(c.t["arg_tys"][0])
                # direct adt or Option<adt>/Box<adt>
                names = {at.adt} | {x.adt for x in at.peel().args()}
                for a in clones:
                    if a in names:
                        hit = a
            if hit:
                callers[hit].append(b)
    for a, cb in clones.items():
        srcs = callers[a]
        bad = []
        for sb in srcs:
            root = prog.by_id.get(sb.root, sb)
            if root.j.get("impl_derived") and root.self_adt in OWN:
                continue  # derived clone of a container that is itself subject to this rule
            if root.self_adt == "mmap::xen::MmapXenGrant" and root.name == "mmap_slice":
                continue
            bad.append(sb.key)
        ctx.ob("R12.4.clone_chain", cb.key, not bad, cb.where(),
               f"call sites cloning a {a.split('::')[-1]}: {sorted(set(s.key for s in srcs))}" + (f" — unexpected: {bad}: cloning a live mapping owner unmaps twice" if bad else
               "; only derived clones of containers and the on-demand grant path (MmapXenGrant::mmap_slice), where unix_mmap is None"))
    # MmapXenGrant::new: unix_mmap = Some only on the mmap_in_advance edge
    b = prog.one(adt="mmap::xen::MmapXenGrant", name="new")
    ok = False
    for pos, s in b.stmts():
        if s["k"] == "assign" and "p" in s["lhs"] and any(isinstance(e, dict) and e.get("name") == "unix_mmap" for e in s["lhs"]["p"]):
            facts = b.facts_at(pos)
            ok = any(r[0] == 'bool' and r[2] is True and is_call(unref(r[1]), "MmapXenFlags::mmap_in_advance") for r in facts)
    ctx.ob("R12.4.advance_correlation", b.key, ok, b.where(), "grant.unix_mmap = Some(..) only on the mmap_in_advance() edge (so on-demand grants, the only ones cloned, own no mapping)")
    # ... and what Drop later releases (self.size, self.index) is what was mapped here: size = range.size, index = the ioctl's index
    rec = {}
    for pos, s in b.stmts():
        if s["k"] == "assign" and "p" in s["lhs"]:
            for e in s["lhs"]["p"]:
                if isinstance(e, dict) and e.get("name") in ("size", "index") and e.get("adt", "").endswith("MmapXenGrant"):
                    rec.setdefault(e["name"], []).append(deep_strip(b.rvalue_term(s["rv"], pos, 0)))
    mr = [c for c in b.calls() if canon(c.target or "").endswith("MmapXenGrant::mmap_range")]
    size_ok = index_ok = False
    if len(mr) == 1:
        want_size = unref(mr[0].arg(2))
        size_ok = len(rec.get("size", [])) == 1 and unref(rec["size"][0]) == want_size and match(F(P(1), "size"), want_size, {})
        res = deep_strip(b.call_term(mr[0].t, mr[0].pos, 0))
        index_ok = len(rec.get("index", [])) == 1 and any(x == res for x in subterms(rec["index"][0])) and unref(rec["index"][0])[0] == 'field' and unref(rec["index"][0])[2] == '1'
    ctx.ob("R12.4.records_mapping", b.key, size_ok and index_ok, b.where(),
           f"after mapping in advance the grant records size = range.size (the size handed to mmap_range) [{size_ok}] and index = the index mmap_range returned [{index_ok}]: Drop releases exactly these")


def lifetimes(s):
    return set(re.findall(r"'(\w+)", s))


ACCESSOR_ADT = re.compile(r"volatile_memory::(VolatileSlice|VolatileRef|VolatileArrayRef|PtrGuard|PtrGuardMut)$")


def _uses_unsafe(prog, body):
    """does the source-level function (body + closures + inlined helpers) contain anything that needs an `unsafe` block or that
    builds an accessor from its parts: a call to an unsafe fn, a raw-pointer dereference, an accessor aggregate, a union/static access"""
    for fb in prog.family(body):
        for _pos, t in fb.terms():
            if t["k"] == "call" and (t.get("callee_unsafe") or "callee" not in t):
                return True
        for _pos, s in fb.stmts():
            if s["k"] != "assign":
                continue
            rv = s["rv"]
            if rv["k"] == "agg" and ACCESSOR_ADT.search(str(rv.get("adt", ""))):
                return True
            if rv["k"] == "cast" and rv.get("cast") == "Transmute":
                return True
            for pl in [s["lhs"]] + [o["pl"] for o in ([rv.get("op"), rv.get("a"), rv.get("b")] + list(rv.get("ops", []))) if isinstance(o, dict) and "pl" in o] + ([rv["pl"]] if "pl" in rv else []):
                if "*" in pl.get("p", []) and fb.local_ty(pl["l"]).k == "ptr":
                    return True
    return False


def rule_signatures(ctx, prog):
    n = 0
    acc = re.compile(r"Volatile(Slice|Ref|ArrayRef)<|&'")
    for path, f in prog.fns.items():
        if not f["reachable"] or f["unsafe"]:
            continue
        out = prog.ty(f["output"]).s
        if not acc.search(out):
            continue
        key = strip_generics(path)
        if re.search(r"fmt::|^endian|^address::|^<.* as std::(fmt|cmp|hash)", key):
            continue
        n += 1
        sig = f["sig"]
        body = prog.by_id.get(path)
        if body is not None and not _uses_unsafe(prog, body):
            # a function written entirely in safe Rust cannot forge a lifetime: rustc's borrow checker already bounds whatever it
            # returns by what it was derived from (e.g. an accessor over an empty `&'a mut [u8]`), whatever the signature looks like
            ctx.ob("R12.5.signature", key, True, "", f"no unsafe operation in the body or its closures: the returned accessor's lifetime is decided by the borrow checker (sig: {sig[:120]})")
            continue
        m = re.match(r"^(for<[^>]*> )?(unsafe )?fn\((.*)\) -> (.*)$", sig)
        ins, outs = (m.group(3), m.group(4)) if m else ("", out)
        lo = lifetimes(outs) - {"_"}
        li = lifetimes(ins)
        # lifetimes of the impl header (e.g. VolatileSlice<'a, B>) count as inputs when self mentions them
        ok = "static" not in lo and lo <= li
        ctx.ob("R12.5.signature", key, ok, "", f"output lifetimes {sorted(lo)} must be bounded by input lifetimes {sorted(li)} and not be 'static (sig: {sig[:150]})")
    return n


def run(ctx, progs):
    for cfg, prog in progs.items():
        ctx.config = cfg
        eff = effects.Effects(prog)
        n = rule_mmap_owner(ctx, prog, eff)
        ctx.floor("R12.1.mmap_sites", n, 1)
        rule_owned_typestate(ctx, prog, eff)
        rule_single_owner(ctx, prog, cfg)
        n = rule_signatures(ctx, prog)
        ctx.floor("R12.5.signatures", n, 20)
        if cfg == "XEN":
            rule_xen(ctx, prog, eff)
            for adt in ("mmap::xen::MmapXenSlice", "mmap::xen::MmapXenGrant", "mmap::xen::MmapUnix"):
                ctx.ob("R12.4.has_drop", adt, drop_body(prog, adt) is not None, "", "mapping owner has a Drop impl (release details: C17 R17.4)")
    ctx.config = "witness"
    witness.run(ctx, "c12", min_pairs=14)
    ctx.not_decided = ["that the kernel really unmaps; address-space accounting", "drop order effects beyond 'last owner' (Arc, trusted)"]
    return ctx.finish(
        "other",
        "Ownership typestate on the resolved MIR of both configurations: every libc::mmap result reaches only an owner aggregate (addr = that result, size = the size "
        "mapped) with no leaking return edge, the owner's Drop munmaps exactly those fields, `owned` is true only where the library mapped and Drop unmaps iff owned, "
        "owners are not Clone/Copy and no leak primitive is used; in the Xen build the derived Clone on mapping owners is reachable only through the tabled on-demand chain. "
        "For the 'all client programs' clause rustc is the decider: a corpus of escaping-accessor programs must fail to borrow-check (each with a compiling twin), backed by "
        "a signature rule over every accessor-returning API.",
        TRUSTED, "./check C12")
