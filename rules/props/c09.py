"""C09 — the page bitmap behaves as a set of page numbers.

Decides the *form* clauses: (a) every touch of a word is guarded by page < page-count with the right
strictness; (b) byte->page->word/bit unit chain and inclusive-last endpoint of the range loop; (c) new /
enlarge / Clone keep size, byte_size, page_size and the word vector mutually consistent; (d) slices add
offsets; (e) the unit and Option bitmaps forward. The number-theoretic identity 'first..=last is exactly
the set of overlapped pages' is not decided (integer arithmetic over unbounded values).
"""
import re

from ..mir import deep_strip, tstr, strip_generics, canon, subterms, is_call, implies_lt, implies_nonzero
from .. import effects, fixtures
from . import c05, c08

CONFIGS = ("FULL", "XEN")
BITMAP = "bitmap::backend::atomic_bitmap::AtomicBitmap"
TRUSTED = [
    "core: div_ceil, saturating_add, NonZero division, RangeInclusive iteration, Vec::resize_with/collect",
    "atomics (C08)",
    "rustc nightly MIR construction and Instance resolution",
]


def self_field(t, name):
    if t is None:
        return False
    t = effects.base_of(t)
    return t[0] == 'field' and t[2] == name and effects.base_of(t[1])[0] == 'param' and effects.base_of(t[1])[1] == 1


def rule_index_guards(rep, prog, adt=BITMAP, field="map", size_field="size"):
    """R9.1: each word index sink is dominated by POS(page) < LEN(pages) on the same page term"""
    n = 0
    eff = effects.Effects(prog)
    for b in prog.bodies:
        root = prog.by_id.get(b.root, b)
        if root.self_adt != adt:
            continue
        for c in b.calls():
            cn = canon(c.target or "")
            if not (cn.endswith("Index::index") or cn.endswith("IndexMut::index_mut")):
                continue
            base = effects.base_of(eff.in_parent(b, c.arg(0))[1] if b.kind == "Closure" else c.arg(0))
            if not (base[0] == 'field' and base[2] == field):
                continue
            n += 1
            idx = deep_strip(c.arg(1))
            facts = b.facts_at(c.pos)
            if b.kind == "Closure":
                # a closure of a bitmap method (`.take_while(|&n| n < self.size).for_each(|n| .. self.map[n >> 6] ..)`): read the index
                # and the facts in the method's own terms, with what the iterator chain guarantees about the item
                idx = deep_strip(eff.in_parent(b, idx, tag_own=True)[1])
                facts = effects.facts_in_parent(eff, b, c.pos)
            # `for n in (a..=b).take_while(|&n| n < self.size)`: the item satisfies the predicate of the stage it came through
            facts = list(facts) + effects.item_facts(eff, b, [idx])
            page = c08.word_index(idx)
            inst = f"{b.key}|map[{tstr(idx)}]"
            if page is None:
                rep("R9.1.word_unit", inst, False, c.where(), "word index is not `page >> 6` (page -> word unit error)")
                continue
            ok = any(r[0] == 'cmp' and ((r[1] == 'Lt' and r[2] == page and self_field(r[3], size_field)) or
                                        (r[1] == 'Gt' and r[3] == page and self_field(r[2], size_field))) for r in facts)
            rep("R9.1.guard", inst, ok, c.where(),
                f"word access for page `{tstr(page)}` must be dominated by the strict test page < self.{size_field}; facts here: "
                + "; ".join(f"{r[1]}({tstr(r[2])},{tstr(r[3])})" for r in facts if r[0] == 'cmp')[:300])
    return n


def rule_is_bit_set(rep, prog):
    b = prog.one(adt=BITMAP, name="is_bit_set")
    # on the out-of-range edge the result is the constant false
    rts = b.return_terms()
    consts = [deep_strip(t) for _p, t in rts if deep_strip(t)[0] == 'const']
    ok = len(rts) == 2 and consts == [('const', 0)]
    rep("R9.1.out_of_range_clean", b.key, ok, b.where(), f"return terms: {[tstr(deep_strip(t)) for _p, t in rts]}; out-of-range pages must read as clean (false)")
    # the in-range result tests bit (n & 63) of word n >> 6
    other = [deep_strip(t) for _p, t in rts if deep_strip(t)[0] != 'const']
    ok2 = False
    if other:
        t = other[0]
        if t[0] == 'bin' and t[1] == 'Ne' and deep_strip(t[3]) == ('const', 0):
            a = deep_strip(t[2])
            if a[0] == 'bin' and a[1] == 'BitAnd':
                m = c08.bit_mask(a[3]) or c08.bit_mask(a[2])
                ok2 = m is not None and m == ('param', 2, b.local_name(2))
    rep("R9.1.bit_unit", b.key, ok2, b.where(), "in-range result must be (word & (1 << (index & 63))) != 0")
    # is_addr_set = is_bit_set(addr / page_size)
    b = prog.one(adt=BITMAP, name="is_addr_set")
    rts = b.return_terms()
    ok = False
    if len(rts) == 1:
        r = deep_strip(rts[0][1])
        if is_call(r, "AtomicBitmap::is_bit_set"):
            a = deep_strip(r[2][1])
            ok = (a[0] == 'call' and canon(a[1]).endswith("::div") or a[0] == 'bin' and a[1] == 'Div')
            if ok:
                x, y = (a[2][0], a[2][1]) if a[0] == 'call' else (a[2], a[3])
                ok = deep_strip(x) == ('param', 2, b.local_name(2)) and self_field(y, "page_size")
    rep("R9.4.is_addr_set", b.key, ok, b.where(), f"returns {tstr(deep_strip(rts[0][1])) if rts else '?'}; required is_bit_set(addr / self.page_size)")
    for nm, fld in (("len", "size"), ("byte_size", "byte_size")):
        b = prog.one(adt=BITMAP, name=nm)
        rts = b.return_terms()
        ok = len(rts) == 1 and self_field(rts[0][1], fld)
        rep("R9.4.getter", b.key, ok, b.where(), f"{nm}() must return self.{fld}")


def _div_ceil(t):
    t = deep_strip(t)
    if t[0] == 'call' and canon(t[1]).endswith("div_ceil"):
        return deep_strip(t[2][0]), deep_strip(t[2][1])
    return None


def _page_get(t, param_idx=None):
    """NonZero::get(page_size) where page_size is param `param_idx` or self.page_size"""
    t = deep_strip(t)
    if is_call(t, "NonZero::get"):
        a = deep_strip(t[2][0])
        if param_idx is not None:
            return a[0] == 'param' and a[1] == param_idx
        return self_field(a, "page_size")
    return False


def rule_sizes(rep, prog):
    """R9.2"""
    b = prog.one(adt=BITMAP, name="new")
    ok = False
    detail = "aggregate not found"
    for pos, s in b.stmts():
        if s["k"] == "assign" and s["rv"]["k"] == "agg" and s["rv"].get("adt") == BITMAP:
            f = dict(zip(s["rv"]["fields"], [deep_strip(b.term(o, pos)) for o in s["rv"]["ops"]]))
            size = f.get("size")
            dc = _div_ceil(size) if size else None
            size_ok = dc is not None and dc[0] == ('param', 1, b.local_name(1)) and _page_get(dc[1], 2)
            bs_ok = f.get("byte_size") == ('param', 1, b.local_name(1))
            ps_ok = f.get("page_size") == ('param', 2, b.local_name(2))
            # map: collect(map(Range{0, div_ceil(size, 64)}, closure -> AtomicU64::new(0)))
            m = f.get("map")
            words = None
            for st in subterms(m):
                if st[0] == 'agg' and str(st[1]).endswith("ops::Range") and len(st[3]) == 2 and deep_strip(st[3][0]) == ('const', 0):
                    words = _div_ceil(st[3][1])
            map_ok = words is not None and words[0] == size and words[1] == ('const', 64)
            zero_ok = False
            for cb in prog.closures_of(b):
                r = cb.return_terms()
                if len(r) == 1:
                    rt = deep_strip(r[0][1])
                    zero_ok = rt[0] == 'call' and canon(rt[1]).endswith("::new") and deep_strip(rt[2][0]) == ('const', 0)
            ok = size_ok and bs_ok and ps_ok and map_ok and zero_ok
            detail = f"size=`{tstr(size)}` byte_size=`{tstr(f.get('byte_size'))}` page_size=`{tstr(f.get('page_size'))}` words=`{tstr(words[0]) + ' div_ceil ' + tstr(words[1]) if words else '?'}` zero-initialised={zero_ok}"
    rep("R9.2.new", b.key, ok, b.where(), detail + "; required size = byte_size.div_ceil(page_size), words = size.div_ceil(64), all words zero")
    # enlarge
    b = prog.one(adt=BITMAP, name="enlarge")
    writes = {}
    for pos, s in b.stmts():
        if s["k"] == "assign" and "p" in s["lhs"]:
            p = s["lhs"]["p"]
            if len(p) == 2 and p[0] == '*' and isinstance(p[1], dict) and p[1].get("adt") == BITMAP:
                writes[p[1]["name"]] = (pos, deep_strip(b.rvalue_term(s["rv"], pos, 0)))
    ok = False
    detail = f"field writes: { {k: tstr(v[1]) for k, v in writes.items()} }"
    if "byte_size" in writes and "size" in writes:
        bw = writes["byte_size"][1]
        if bw[0] == 'field' and bw[2] == '0':
            bw = bw[1]
        add_ok = bw[0] == 'bin' and bw[1].startswith("Add") and {True} == {self_field(bw[2], "byte_size") and deep_strip(bw[3]) == ('param', 2, b.local_name(2))}
        dc = _div_ceil(writes["size"][1])
        size_ok = dc is not None and self_field(dc[0], "byte_size") and _page_get(dc[1])
        order_ok = b.pos_dominates(writes["byte_size"][0], writes["size"][0])
        rs = [c for c in b.calls() if canon(c.target or "").endswith("Vec::resize_with")]
        grow_ok = False
        if len(rs) == 1:
            w = _div_ceil(rs[0].arg(1))
            fn = deep_strip(rs[0].arg(2))
            # words = size.div_ceil(64) for the NEW size: read back from self.size after the write, or the very value written to it
            grow_ok = w is not None and (self_field(w[0], "size") or deep_strip(w[0]) == deep_strip(writes["size"][1])) and w[1] == ('const', 64) and fn[0] == 'fn' and "Default" in fn[1] \
                and b.pos_dominates(writes["size"][0], rs[0].pos) and self_field(rs[0].arg(0), "map")
        ok = add_ok and size_ok and order_ok and grow_ok
        detail += f"; add_ok={add_ok} size_ok={size_ok} order_ok={order_ok} grow_ok={grow_ok}"
    rep("R9.2.enlarge", b.key, ok, b.where(), detail + "; required byte_size += additional; size = byte_size.div_ceil(page_size); map.resize_with(size.div_ceil(64), Default)")
    sig = b.j.get("sig", "")
    rep("R9.2.enlarge_exclusive", b.key, re.search(r"fn\(&('\w+ )?mut ", sig) is not None, b.where(), f"enlarge must take &mut self (sig: {sig})")
    # Clone: each scalar from the same-named field, words by load
    bs = prog.find(adt=BITMAP, trait="std::clone::Clone", name="clone")
    ok = False
    detail = "no Clone::clone body"
    if len(bs) == 1:
        b = bs[0]
        for pos, s in b.stmts():
            if s["k"] == "assign" and s["rv"]["k"] == "agg" and s["rv"].get("adt") == BITMAP:
                f = dict(zip(s["rv"]["fields"], [deep_strip(b.term(o, pos)) for o in s["rv"]["ops"]]))
                scal = all(self_field(f.get(k), k) for k in ("size", "byte_size", "page_size"))
                words = any(s2[0] == 'field' and s2[2] == 'map' for s2 in subterms(f.get("map")))
                loads = False
                for cb in prog.family(b):
                    for c in cb.calls():
                        if canon(c.target or "").endswith("::load"):
                            loads = True
                ok = scal and words and loads
                detail = f"fields: { {k: tstr(v) for k, v in f.items() if k != 'map'} }, words from self.map by load: {words and loads}"
        rep("R9.2.clone", b.key, ok, b.where(), detail)
    else:
        rep("R9.2.clone", BITMAP + "::clone", False, "", detail)


def rule_range_form(rep, prog):
    """R9.3 / R16.4: first = POS/RATIO, last = LAST/RATIO with LAST = POS (+sat) (COUNT-1), RangeInclusive(first,last),
    COUNT != 0 dominates, both arms index the loop variable."""
    # the bodies that turn a byte range into a page range are found by what they do — a method of the bitmap that builds an inclusive
    # range — not by name: the private helper behind set_addr_range / reset_addr_range may be renamed, take the update as a closure, or be
    # merged into the two public entries
    bodies = range_bodies(prog)
    if not bodies:
        rep("R9.3.range_form", BITMAP, False, "", "no method of the bitmap builds an inclusive page range (an exclusive range or another loop form cannot "
            "express 'last page of the last byte')")
        return False
    res = [_range_form_of(rep, prog, b) for b in bodies]
    rule_polarity(rep, prog, bodies)
    return all(res)


def range_bodies(prog):
    """the bodies that turn the byte range of a MARKING entry (set_addr_range / reset_addr_range) into pages: the entry itself or a
    method of the bitmap it calls (two levels) that builds an inclusive range. Another method with a range of its own (a read-only
    query over pages, say) is not one of them."""
    cand = [x for x in prog.bodies if x.self_adt == BITMAP and x.kind != "Closure" and not x.j.get("impl_derived")
            and any(canon(c.target or "").endswith("RangeInclusive::new") for c in x.calls())]
    reach = set()
    frontier = [b for nm in ("set_addr_range", "reset_addr_range") for b in prog.find(adt=BITMAP, name=nm)]
    for _ in range(3):
        nxt = []
        for b in frontier:
            if b.id in reach:
                continue
            reach.add(b.id)
            for fb in prog.family(b):
                for c in fb.calls():
                    tb = prog.by_id.get(c.target) if c.target else None
                    if tb is not None and tb.self_adt == BITMAP and tb.kind != "Closure":
                        nxt.append(tb)
        frontier = nxt
    return [x for x in cand if x.id in reach]


def _const_bool_args(c, callee, known=None, lift=None):
    """bool parameters of the callee whose value is fixed at this call: a literal, or a bool parameter of the caller that is itself
    fixed (`known`) — a flag handed down two levels is still the flag"""
    out = {}
    for i, a in enumerate(c.args()):
        a = deep_strip(lift(a) if lift else a)
        if not (i + 1 <= callee.arg_count and callee.local_ty(i + 1).s == "bool"):
            continue
        if a[0] == 'const' and a[1] in (0, 1, True, False):
            out[i + 1] = bool(a[1])
        elif a[0] == 'param' and known and a[1] in known:
            out[i + 1] = known[a[1]]
    return out


def _rmw_kinds(prog, b, consts, depth=0, seen=None):
    """kinds ('set' / 'clear' / other) of the atomic read-modify-write operations that can execute in b — its closures included — when its
    bool parameters have the constant values `consts` (an operation whose dominating branch facts contradict them cannot), following
    calls to other methods of the bitmap with the constants they are given"""
    from .c08 import ATOMIC
    seen = seen if seen is not None else set()
    key = (b.id, tuple(sorted(consts.items())))
    if key in seen or depth > 3:
        return []
    seen.add(key)
    out = []
    eff = prog.__dict__.get("_c09_eff")
    if eff is None:
        eff = prog.__dict__["_c09_eff"] = effects.Effects(prog)
    for fb in prog.family(b):
        for c in fb.calls():
            if True:
                dead = False
                # facts of a closure of b are read in b's own terms (a captured `set` is b's parameter)
                try:
                    fs = b.facts_at(c.pos) if fb is b else effects.facts_in_parent(eff, fb, c.pos)
                except Exception:
                    fs = []
                for r in fs:
                    if r[0] == 'bool':
                        t = deep_strip(r[1])
                        if t[0] == 'param' and t[1] in consts and bool(r[2]) != consts[t[1]]:
                            dead = True
                        if t[0] == 'const' and t[1] in (0, 1, True, False) and bool(t[1]) != bool(r[2]):
                            dead = True         # a branch on a literal (an inlined helper called with `true`): the other arm cannot run
                    if r[0] == 'cmp' and r[1] in ('Eq', 'Ne'):
                        t, k = deep_strip(r[2]), deep_strip(r[3])
                        if t[0] == 'param' and t[1] in consts and k[0] == 'const' and k[1] in (0, 1):
                            holds = (consts[t[1]] == bool(k[1])) == (r[1] == 'Eq')
                            if not holds:
                                dead = True
                if dead:
                    continue
            m = ATOMIC.match(c.callee or "")
            if m:
                op = m.group(2)
                if op == "fetch_or":
                    out.append(("set", c))
                elif op == "fetch_and":
                    out.append(("clear", c))
                elif op in ("swap", "store", "fetch_xor", "fetch_nand", "fetch_add", "fetch_sub", "compare_exchange", "compare_exchange_weak", "fetch_update"):
                    out.append((op, c))
                continue
            tb = prog.by_id.get(c.target) if c.target else None
            if tb is not None and tb.self_adt == BITMAP and tb.kind != "Closure" and tb is not b:
                lift = (lambda x, fb=fb: eff.in_parent(fb, x)[1]) if fb is not b else None
                out += _rmw_kinds(prog, tb, _const_bool_args(c, tb, consts, lift), depth + 1, seen)
    return out


def rule_polarity(rep, prog, range_bodies=()):
    """R9.6: marking sets, clearing clears. Every atomic read-modify-write that can execute under set_addr_range / set_bit is a
    fetch_or, under reset_addr_range / reset_bit a fetch_and; a helper shared by both (selected by a bool or a closure) is followed with the
    constant it is called with, so swapping its arms — or passing the wrong constant — is a polarity error of the public entry."""
    for nm, want in (("set_addr_range", "set"), ("reset_addr_range", "clear"), ("set_bit", "set"), ("reset_bit", "clear")):
        for b in prog.find(adt=BITMAP, name=nm):
            ks = _rmw_kinds(prog, b, {})
            kinds = sorted({k for k, _c in ks})
            ok = kinds == [want]
            rep("R9.6.polarity", b.key, ok, b.where(),
                f"read-modify-write operations that can execute here: {kinds or 'none found'}; required: only `{want}` "
                f"({'fetch_or' if want == 'set' else 'fetch_and'}) — a {nm} that {'clears' if want == 'set' else 'sets'} (or does nothing) reports the wrong pages")
            if nm in ("set_addr_range", "reset_addr_range") and range_bodies:
                # the entry is a range body itself, or hands its own (start, len) to one
                direct = b in range_bodies
                fwd = False
                for c in b.calls():
                    tb = prog.by_id.get(c.target) if c.target else None
                    if tb in range_bodies and len(c.args()) >= 3:
                        a = [deep_strip(x) for x in c.args()]
                        fwd = a[1][:2] == ('param', 2) and a[2][:2] == ('param', 3)
                rep("R9.6.entry_reaches_range", b.key, direct or fwd, b.where(),
                    "the public entry converts its own (start_addr, len) into the page range (itself, or by handing exactly those two to the range helper)")


def _range_form_of(rep, prog, b):
    rng = None
    rpos = None
    for c in b.calls():
        if canon(c.target or "").endswith("RangeInclusive::new"):
            rng = (deep_strip(c.arg(0)), deep_strip(c.arg(1)))
            rpos = c.pos
    ok = False
    detail = "no RangeInclusive::new found (an exclusive range or another loop form cannot express 'last page of the last byte')"
    if rng:
        first, last = rng

        def div_by_page(t):
            t = deep_strip(t)
            if t[0] == 'call' and canon(t[1]).endswith("::div") and self_field(t[2][1], "page_size"):
                return deep_strip(t[2][0])
            if t[0] == 'bin' and t[1] == 'Div' and self_field(t[3], "page_size"):
                return deep_strip(t[2])
            return None
        f0, l0 = div_by_page(first), div_by_page(last)
        start = ('param', 2, b.local_name(2))
        ln = ('param', 3, b.local_name(3))
        first_ok = f0 == start
        last_ok = False
        via_checked_sub = False
        if l0 is not None and l0[0] == 'call' and re.search(r"num::(saturating_add|checked_add)$", canon(l0[1])):
            x, y = deep_strip(l0[2][0]), deep_strip(l0[2][1])
            if y[0] == 'field' and y[2] == '0':
                y = y[1]
            last_ok = x == start and y[0] == 'bin' and y[1].startswith("Sub") and deep_strip(y[2]) == ln and deep_strip(y[3]) == ('const', 1)
            # `len - 1` written as the Some payload of len.checked_sub(1) (the None arm returns): the same value, and its existence
            # is the `len != 0` guard
            from .. import checks
            py = checks.producer(y) if y[0] == 'ok' else None
            sub_ok = py is not None and py[0] == 'call' and canon(py[1]).endswith("num::checked_sub") and deep_strip(py[2][0]) == ln and deep_strip(py[2][1]) == ('const', 1)
            if x == start and sub_ok:
                last_ok = True
                via_checked_sub = True
        facts = b.facts_at(rpos)
        nz = implies_nonzero(facts, ln) or via_checked_sub
        ok = first_ok and last_ok and nz
        detail = f"range = ({tstr(first)}) ..= ({tstr(last)}); first_ok={first_ok} last_ok={last_ok} len!=0 dominates={nz}"
    rep("R9.3.range_form", b.key, ok, b.where(),
        detail + "; required (start / page) ..= (start.saturating_add(len - 1) / page) behind `len != 0`")
    # set arm uses fetch_or, reset arm fetch_and(!mask); the arms are selected by the `set` parameter
    return ok


def rule_reset_all(rep, prog):
    """R9.2.reset: reset() stores 0 into EVERY word: one store, applied to the item of an iteration over self.map itself (no
    skip / take / filter / step_by in the chain, whether written as a for loop or as for_each)"""
    eff = effects.Effects(prog)
    bs = prog.find(adt=BITMAP, name="reset")
    if len(bs) != 1:
        rep("R9.2.reset", BITMAP + "::reset", False, "", f"{len(bs)} bodies named reset")
        return
    b = bs[0]
    stores = [(fb, c) for fb in prog.family(b) for c in fb.calls() if re.search(r"sync::atomic::Atomic.*::store$", canon(c.target or ""))]
    ok = False
    detail = f"{len(stores)} atomic stores"
    if len(stores) == 1:
        fb, c = stores[0]
        recv = deep_strip(eff.in_parent(fb, c.arg(0))[1]) if fb.kind == "Closure" else deep_strip(c.arg(0))
        while recv[0] in ('ref', 'deref'):
            recv = deep_strip(recv[1])
        zero = deep_strip(c.arg(1)) == ('const', 0)
        src = None
        if recv[0] == 'ok' and is_call(deep_strip(recv[1]), "Iterator::next"):
            chain = deep_strip(deep_strip(recv[1])[2][0])
            while chain[0] in ('ref', 'deref') or (chain[0] == 'call' and canon(chain[1]).endswith("IntoIterator::into_iter")):
                chain = deep_strip(chain[1] if chain[0] in ('ref', 'deref') else chain[2][0])
            src = chain
        elif is_call(recv, "iter_item"):
            src = deep_strip(recv[2][0])
        whole = src is not None and is_call(src, "slice::iter") and any(s[0] == 'field' and s[2] == 'map' and effects.base_of(s[1])[:2] == ('param', 1) for s in subterms(src)) and \
            not any(is_call(s, "Iterator::skip", "Iterator::take", "Iterator::step_by", "Iterator::filter", "Iterator::take_while", "Iterator::skip_while") for s in subterms(src))
        direct = src is not None and deep_strip(src[2][0] if src[0] == 'call' else src)[0] in ('call', 'field', 'ref', 'deref')
        ok = zero and whole
        detail = f"store({tstr(deep_strip(c.arg(1)))}) on the item of `{tstr(src)[:120] if src is not None else '?'}`"
    rep("R9.2.reset", b.key, ok, b.where(), detail + "; required: store(0) into every word of self.map (an iteration over the whole vector)")


def rule_unit_bitmap(rep, prog):
    n = 0
    for b in prog.bodies:
        if b.impl_trait == "bitmap::Bitmap" and b.self_ty is not None and b.self_ty.s == "()":
            n += 1
            if b.name == "dirty_at":
                rts = b.return_terms()
                ok = len(rts) == 1 and deep_strip(rts[0][1]) == ('const', 0)
                rep("R9.5.unit", b.key, ok, b.where(), "() never reports dirty")
            else:
                ok = not list(b.calls())
                rep("R9.5.unit", b.key, ok, b.where(), "() bitmap methods do nothing")
    return n


def run(ctx, progs):
    for cfg, prog in progs.items():
        ctx.config = cfg
        eff = effects.Effects(prog)
        n = rule_index_guards(ctx.ob, prog)
        ctx.floor("R9.1.sinks", n, 4)   # is_bit_set, set_bit, reset_bit, and at least one access in the range loop
        rule_is_bit_set(ctx.ob, prog)
        rule_sizes(ctx.ob, prog)
        rule_range_form(ctx.ob, prog)
        rule_reset_all(ctx.ob, prog)
        # setter/clearer single-bit unit chain is C08's R8.2, shared
        _o, counts = c08.rule_words(ctx.ob, prog, BITMAP, "map")
        n = c05.rule_forwarders(ctx.ob, prog, eff)
        ctx.floor("R9.5.forwarders", n, 12)
        n = rule_unit_bitmap(ctx.ob, prog)
        ctx.floor("R9.5.unit", n, 3)
    ctx.config = "fixture"
    fixtures.expect(ctx, "c09", lambda rep, fx: rule_index_guards(rep, fx, "bad_bitmap::BadBitmap", "map", "size"), {"R9.1.guard"})
    ctx.not_decided = [
        "that first..=last contains exactly the pages a byte range overlaps for every (size, page, range): integer arithmetic over unbounded values",
        "get_and_reset / reset semantics beyond C08's rules",
    ]
    return ctx.finish(
        "other",
        "Form rules over the resolved MIR: every word access is dominated by the strict test page < size on the same page term and indexes word "
        "page>>6 with mask 1<<(page&63); constructor, enlarge and Clone compute size/word-count with div_ceil from the same fields (sibling agreement); the "
        "range loop is (start/page) ..= (start.saturating_add(len-1)/page) behind len != 0; getters return the right field; slices and the unit/Option "
        "bitmaps forward offsets. These are necessary conditions whose violation changes which pages are set/reported; the arithmetic identity itself is not decided.",
        TRUSTED, "./check C09")
