"""C19 — address arithmetic reports overflow instead of wrapping.

Decides (modulo core's integer intrinsics): every method of every `Address` implementation IS the
same-named integer intrinsic applied to the raw values in the right operand order and re-wrapped;
ordering/equality are derived on a single-field struct; the align-up helpers have the mask form.
"""
import re

from ..mir import deep_strip, tstr, strip_generics, is_call
from .. import witness, derives

CONFIGS = ("FULL", "XEN")
THOROUGH_CONFIGS = ("MIN",)
INTR = re.compile(r"^core::num::<impl (u8|u16|u32|u64|u128|usize)>::(\w+)$")

TRUSTED = [
    "core integer intrinsics checked_add/checked_sub/overflowing_add/overflowing_sub and +,-,&,|,! on unsigned integers",
    "Option::map, derive(PartialEq, Eq, PartialOrd, Ord) on a single-field tuple struct compare that field",
    "rustc nightly MIR construction and Instance resolution",
]


def raw_of(t, pname_idx):
    """is `t` the raw value of parameter #pname_idx (self.0 / (*self).0 / raw_value(self) / param itself for V)"""
    t = deep_strip(t)
    if t[0] == 'field' and t[2] == '0':
        b = t[1]
        if b[0] == 'deref':
            b = b[1]
        return b[0] == 'param' and b[1] == pname_idx
    if is_call(t, 'Address::raw_value'):
        b = t[2][0]
        if b[0] == 'ref':
            b = b[1]
        if b[0] == 'deref':
            b = b[1]
        return b[0] == 'param' and b[1] == pname_idx
    return False


def is_param(t, i):
    t = deep_strip(t)
    return t[0] == 'param' and t[1] == i


def intrinsic_call(t, name):
    t = deep_strip(t)
    if t[0] != 'call':
        return None
    m = INTR.match(t[1])
    if not m or m.group(2) != name:
        return None
    return t[2]


def ctor_of(t, adt):
    """t == Adt { x } -> x"""
    t = deep_strip(t)
    if t[0] == 'agg' and t[1] == adt and len(t[3]) == 1:
        return t[3][0]
    if is_call(t, 'Address::new') and len(t[2]) == 1:
        return t[2][0]
    return None


def single_ret(body):
    r = body.return_terms()
    if len(r) != 1:
        return None
    return deep_strip(r[0][1])


def _spec_any(ctx, prog, eff, rule, body, specs, want):
    """outcome_spec against several admissible tables: passes if one of them is met exactly"""
    from ..outcomes import outcome_spec

    class _Probe:
        def __init__(self):
            self.last = None

        def ob(self, rule, inst, ok, where="", detail=""):
            self.last = (rule, inst, ok, where, detail)
            return ok
    res = []
    for sp in specs:
        pr = _Probe()
        outcome_spec(pr, prog, eff, rule, body, sp, want)
        res.append(pr.last)
        if pr.last[2]:
            break
    good = [r for r in res if r[2]]
    r = good[0] if good else res[0]
    ctx.ob(r[0], strip_generics(body.id), r[2], r[3], r[4])


def check_impl(ctx, prog, adt, methods):
    W = lambda b: b.where()

    def ob(rule, b, ok, detail):
        ctx.ob(rule, f"{strip_generics(b.id)}", ok, W(b), detail)

    # --- checked_add / checked_sub:  Option::map(intrinsic(self.0, other), Ctor)
    for nm in ("checked_add", "checked_sub"):
        b = methods.get(nm)
        if not b:
            ctx.ob("R19.1.present", f"{adt}::{nm}", False, "", "method body missing")
            continue
        # outcome table: Some(Ctor(sum)) exactly when the exact sum fits, None otherwise — through the checked intrinsic
        # (any spelling: map / match / ?) or through the overflowing intrinsic and its flag
        from ..outcomes import outcome_spec
        from ..pat import P, C, F, AGG, OKP, match as _m
        from .. import effects as _eff
        eff_ = _eff.Effects(prog)
        X = C("num::" + nm, F(P(1), "0"), P(2))
        Y = C("num::" + nm.replace("checked", "overflowing"), F(P(1), "0"), P(2))
        NONE_ = AGG("Option", "None")
        specs = [[(AGG("Option", "Some", AGG(adt, None, OKP(X))), [('discr', X, 1)]), (NONE_, [('discr', X, 0)])],
                 [(AGG("Option", "Some", AGG(adt, None, F(Y, "0"))), [('bool', F(Y, "1"), False)]), (NONE_, [('bool', F(Y, "1"), True)])]]
        _spec_any(ctx, prog, eff_, "R19.1.checked", b, specs,
                  f"Some({adt}(s)) exactly when s = self.0 {'+' if 'add' in nm else '-'} other fits (u64::{nm}, or u64::{nm.replace('checked', 'overflowing')} with its flag), None otherwise")
    # --- checked_offset_from: intrinsic checked_sub(self.0, base.0)
    b = methods.get("checked_offset_from")
    if b:
        from ..pat import P, C, F, AGG, OKP
        from .. import effects as _eff
        eff_ = _eff.Effects(prog)
        X = C("num::checked_sub", F(P(1), "0"), F(P(2), "0"))
        Y = C("num::overflowing_sub", F(P(1), "0"), F(P(2), "0"))
        NONE_ = AGG("Option", "None")
        specs = [[(X, [])],
                 [(AGG("Option", "Some", OKP(X)), [('discr', X, 1)]), (NONE_, [('discr', X, 0)])],
                 [(AGG("Option", "Some", F(Y, "0")), [('bool', F(Y, "1"), False)]), (NONE_, [('bool', F(Y, "1"), True)])]]
        _spec_any(ctx, prog, eff_, "R19.1.offset_from", b, specs, "u64::checked_sub(self.0, base.0) (or overflowing_sub with its flag): Some(distance) exactly when self >= base")
    else:
        ctx.ob("R19.1.present", f"{adt}::checked_offset_from", False, "", "method body missing")
    # --- overflowing_*: (Ctor(r.0), r.1) with r = intrinsic(self.0, other)
    for nm in ("overflowing_add", "overflowing_sub"):
        b = methods.get(nm)
        if not b:
            ctx.ob("R19.1.present", f"{adt}::{nm}", False, "", "method body missing")
            continue
        r = single_ret(b)
        ok = False
        if r and r[0] == 'agg' and r[1] == 'tuple' and len(r[3]) == 2:
            v = ctor_of(r[3][0], adt)
            flag = r[3][1]
            if v is not None and v[0] == 'field' and v[2] == '0' and flag[0] == 'field' and flag[2] == '1' and v[1] == flag[1]:
                a = intrinsic_call(v[1], nm)
                ok = bool(a) and raw_of(a[0], 1) and is_param(a[1], 2)
        ob("R19.1.overflowing", b, ok, f"return term = {tstr(r) if r else '?'}; required: ({adt}(r.0), r.1), r = u64::{nm}(self.0, other)")
    # --- unchecked_*: Ctor(self.0 op other) with the overflow Assert kept
    for nm, op in (("unchecked_add", "Add"), ("unchecked_sub", "Sub")):
        b = methods.get(nm)
        if not b:
            ctx.ob("R19.1.present", f"{adt}::{nm}", False, "", "method body missing")
            continue
        r = single_ret(b)
        ok = False
        v = ctor_of(r, adt) if r else None
        if v is not None:
            if v[0] == 'field' and v[2] == '0':
                v = v[1]
            if v[0] == 'bin' and v[1] in (op, op + "WithOverflow"):
                ok = raw_of(v[2], 1) and is_param(v[3], 2)
        ob("R19.1.unchecked", b, ok, f"return term = {tstr(r) if r else '?'}; required: {adt}(self.0 {op} other)")
    # --- new / raw_value
    b = methods.get("new")
    if b:
        r = single_ret(b)
        v = ctor_of(r, adt) if r else None
        ob("R19.1.new", b, v is not None and is_param(v, 1), f"return term = {tstr(r) if r else '?'}")
    b = methods.get("raw_value")
    if b:
        r = single_ret(b)
        ob("R19.1.raw_value", b, r is not None and raw_of(r, 1), f"return term = {tstr(r) if r else '?'}")


def run(ctx, progs):
    for cfg, prog in progs.items():
        ctx.config = cfg
        impls = prog.trait_impls("address::Address")
        ctx.floor("R19.1.impls", len(impls), 2)
        for im in impls:
            adt = prog.ty(im["self_ty"]).adt
            methods = {b.name: b for b in prog.find(adt=adt, trait="address::Address")}
            ctx.floor(f"R19.1.methods[{adt}]", len(methods), 9)
            check_impl(ctx, prog, adt, methods)
            # BitAnd / BitOr act on .0
            for tr, op in (("std::ops::BitAnd", "BitAnd"), ("std::ops::BitOr", "BitOr")):
                bs = prog.find(adt=adt, trait=tr)
                ctx.ob("R19.1.bitop.present", f"{adt}:{tr}", len(bs) == 1, "", "exactly one impl expected")
                for b in bs:
                    r = single_ret(b)
                    v = ctor_of(r, adt) if r else None
                    ok = v is not None and v[0] == 'bin' and v[1] == op and raw_of(v[2], 1) and is_param(v[3], 2)
                    ctx.ob("R19.1.bitop", strip_generics(b.id), ok, b.where(), f"return term = {tstr(r) if r else '?'}")
            # R19.2 derive set and single field
            a = prog.adts.get(adt)
            ok = a and a["kind"] == "struct" and len(a["variants"][0]["fields"]) == 1
            ctx.ob("R19.2.single_field", adt, ok, f"{a['file']}:{a['line']}" if a else "", "address type must be a single-field struct so derived order is raw order")
            for tr in ("std::cmp::PartialEq", "std::cmp::Eq", "std::cmp::PartialOrd", "std::cmp::Ord", "std::clone::Clone", "std::marker::Copy"):
                ok, why = derives.like_derive(prog, adt, tr)
                ctx.ob("R19.2.derived", f"{adt}:{tr}", ok, "", f"derived, or hand-written with the derive's meaning on the single raw field: {why}")
            # Default is new(0)
            for b in prog.find(adt=adt, trait="std::default::Default"):
                r = single_ret(b)
                v = ctor_of(r, adt) if r else None
                ok = v is not None and deep_strip(v) == ('const', 0)
                ctx.ob("R19.2.default", strip_generics(b.id), ok, b.where(), f"return term = {tstr(r) if r else '?'}")

        # ---- provided methods of the trait
        def prov(name):
            bs = prog.find(in_trait="address::Address", name=name)
            return bs[0] if len(bs) == 1 else None

        def rawv(t, i):
            t = deep_strip(t)
            if is_call(t, 'Address::raw_value'):
                b = t[2][0]
                while b[0] in ('ref', 'deref'):
                    b = b[1]
                return b[0] == 'param' and b[1] == i
            return False

        b = prov("mask")
        r = single_ret(b) if b else None
        ok = bool(r) and is_call(r, 'BitAnd::bitand') and rawv(r[2][0], 1) and is_param(r[2][1], 2)
        ctx.ob("R19.1.mask", "address::Address::mask", ok, b.where() if b else "", f"return term = {tstr(r) if r else '?'}")
        b = prov("unchecked_offset_from")
        r = single_ret(b) if b else None
        ok = bool(r) and is_call(r, 'Sub::sub') and rawv(r[2][0], 1) and rawv(r[2][1], 2)
        ctx.ob("R19.1.unchecked_offset_from", "address::Address::unchecked_offset_from", ok, b.where() if b else "", f"return term = {tstr(r) if r else '?'}")

        # R19.3 align up:  mask = p - one();  result = checked_add(self, mask).map(|x| x & !mask)
        def mask_term(t):
            t = deep_strip(t)
            if t[0] == 'ref':
                t = t[1]
            return is_call(t, 'Sub::sub') and is_param(t[2][0], 2) and is_call(deep_strip(t[2][1]), 'AddressValue::one')

        b = prov("checked_align_up")
        ok = False
        detail = ""
        if not b:
            ctx.ob("C19.anchor", "?", False, "", "anchor body not found (renamed or removed): the rule cannot be evaluated — fail closed")
        if b:
            # outcome table (the same for `checked_add(self, m).map(|x| x & !m)`, a `match`, `if let` or `?`):
            #   Some(ok(checked_add(self, m)) & !m) when that sum exists, None when it does not, with m = p - one()
            from .. import outcomes
            from .. import effects as _effects
            eff19 = _effects.Effects(prog)
            outs = outcomes.outcomes(prog, eff19, b)
            some = [o for o in outs if deep_strip(o[1])[0] == 'agg' and deep_strip(o[1])[2] == 'Some']
            none = [o for o in outs if deep_strip(o[1])[0] == 'agg' and deep_strip(o[1])[2] == 'None']
            detail = "outcomes: " + "; ".join(tstr(deep_strip(o[1]))[:120] for o in outs)

            def the_sum(x):
                x = deep_strip(x)
                while x[0] in ('ref', 'deref'):
                    x = deep_strip(x[1])
                return x if (is_call(x, 'Address::checked_add') and is_param(x[2][0], 1) and mask_term(x[2][1])) else None
            if len(some) == 1 and len(none) == 1 and len(outs) == 2:
                v = deep_strip(deep_strip(some[0][1])[3][0])
                if is_call(v, 'BitAnd::bitand'):
                    lhs, rhs = deep_strip(v[2][0]), deep_strip(v[2][1])
                    sm = the_sum(lhs[1]) if lhs[0] == 'ok' else None
                    not_ok = is_call(rhs, 'Not::not') and mask_term(rhs[2][0])
                    f_some = any(r[0] == 'discr' and r[2] == 1 and the_sum(r[1]) is not None for r in outcomes.facts_of(b, some[0]))
                    f_none = any(r[0] == 'discr' and r[2] == 0 and the_sum(r[1]) is not None for r in outcomes.facts_of(b, none[0]))
                    ok = sm is not None and not_ok and f_some and f_none
                    detail += f"; value = sum & !mask [{sm is not None and not_ok}], Some iff the checked sum exists [{f_some and f_none}]"
                elif is_call(v, 'Address::unchecked_align_up') and is_param(v[2][0], 1) and is_param(v[2][1], 2):
                    # the same function spelt with its guard first: `(raw_value(self) <= !mask).then(|| self.unchecked_align_up(p))`.
                    # self + mask fits exactly when raw <= MAX - mask = !mask, and unchecked_align_up (own rule R19.3.unchecked_align_up)
                    # is (self + mask) & !mask: Some under `<=` (non-strict: the highest aligned address is representable), None under `>`
                    def bound(r, op):
                        if r[0] != 'cmp' or r[1] != op:
                            return False
                        rhs = deep_strip(r[3])
                        return rawv(r[2], 1) and is_call(rhs, 'Not::not') and mask_term(rhs[2][0])
                    f_some = any(bound(r, 'Le') for r in outcomes.facts_of(b, some[0]))
                    f_none = any(bound(r, 'Gt') for r in outcomes.facts_of(b, none[0]))
                    ok = f_some and f_none
                    detail += f"; value = unchecked_align_up(self, p) [True], Some iff raw_value(self) <= !(p - 1) [{f_some and f_none}]"
            # asserts: p != 0 and p & mask == 0 dominate the checked_add
            n_assert = sum(1 for c in b.calls() if c.callee and c.callee.startswith('core::panicking::assert_failed'))
            ctx.ob("R19.3.asserts", "address::Address::checked_align_up", n_assert >= 2, b.where(),
                   f"{n_assert} assert_failed edges (need: power_of_two != 0, power_of_two & mask == 0)")
        ctx.ob("R19.3.checked_align_up", "address::Address::checked_align_up", ok, b.where() if b else "", detail + "; required: checked_add(self, p - 1).map(|x| x & !(p - 1))")
        b = prov("unchecked_align_up")
        r = single_ret(b) if b else None
        ok = False
        if r and is_call(r, 'BitAnd::bitand'):
            x, m = deep_strip(r[2][0]), deep_strip(r[2][1])
            ok = is_call(x, 'Address::unchecked_add') and mask_term(x[2][1]) and is_call(m, 'Not::not') and mask_term(m[2][0])
        ctx.ob("R19.3.unchecked_align_up", "address::Address::unchecked_align_up", ok, b.where() if b else "", f"return term = {tstr(r) if r else '?'}; required: unchecked_add(self, p-1) & !(p-1)")

        # ---- R19.4 every Option-returning ("checked") function of the address module reports overflow through its None: no plain
        # `+ - *` (an `Assert Overflow` edge: panic in checked builds, silent wrap in release) on values that come from its
        # parameters, unless the ordering closure shows it cannot overflow (e.g. `p - 1` behind `assert_ne!(p, 0)`)
        from . import c07
        n4 = 0
        for b in prog.bodies:
            if not b.key.startswith("address::") and "as address::Address>" not in b.key:
                continue
            root = prog.by_id.get(b.root, b) if b.kind == "Closure" else b
            f = prog.fns.get(root.id)
            out = prog.types[f["output"]]["s"] if f else ""
            if not out.startswith("std::option::Option<"):
                continue
            n4 += 1
            fnkey = strip_generics(b.root) if (b.kind == "Closure" and b.root) else b.key
            for e in c07._edges_of_all(prog, b):
                if not (e["kind"].startswith("Overflow:") or e["kind"] == "arith_generic"):
                    continue
                why = c07.auto_discharge(b, e)
                if not why:
                    row = c07.table_lookup(b, fnkey, e)
                    why = f"[reviewed, {row[3]}] {row[4]}" if row else None
                if not why and e["kind"] == "arith_generic" and e.get("callee", "").endswith("sub") and len(e["ops"]) == 2 \
                        and is_call(deep_strip(e["ops"][1]), "one"):
                    # the alignment idiom of this trait: `mask = p - 1` next to `assert_ne!(p, 0)` in the same function (the
                    # documented "p is a non-zero power of two" contract, as in checked_align_up)
                    x = deep_strip(e["ops"][0])
                    for pos2, t2 in b.terms():
                        if t2["k"] == "call" and t2.get("t") is None and "assert_failed" in (t2.get("callee") or ""):
                            for r in b.facts_at(pos2):
                                if r[0] == 'cmp' and r[1] == 'Eq' and {0: deep_strip(r[2]), 1: deep_strip(r[3])} and \
                                        ((deep_strip(r[2]) == x and is_call(deep_strip(r[3]), "zero")) or (deep_strip(r[3]) == x and is_call(deep_strip(r[2]), "zero"))):
                                    why = "`p - 1` where the same function asserts p != 0 (documented power-of-two contract of the alignment helpers)"
                ctx.ob("R19.4.checked_fn_arithmetic", f"{b.key}|{e['kind']}|{e['sig']}", bool(why), b.where(e["ln"]),
                       why or f"plain `{e['kind'].split(':')[-1]}` on {e['sig']} inside an Option-returning address function: an overflow panics or wraps instead of yielding None")
        ctx.floor("R19.4.checked_fns", n4, 5)

    ctx.config = "witness"
    witness.run(ctx, "c19")
    ctx.not_decided = ["numerical results of the core integer intrinsics (trusted)"]
    return ctx.finish(
        "proof",
        "Every operation of every Address implementation is matched, on resolved MIR terms, against the same-named "
        "core integer intrinsic with the operand order of the documentation; derive set and field count make the "
        "derived order the raw order; align-up has the (x + (p-1)) & !(p-1) form behind its two asserts. Modulo the "
        "trusted intrinsics this structural mapping is the property. Type-level misuse (adding two addresses, mixing "
        "address kinds) is rejected by rustc (compile-fail witnesses with compiling twins).",
        TRUSTED, "./check C19")
