"""C02 — guest address queries agree with the set of regions.

Decides (a) the strictness of every boundary decision in the lookup and the default methods, (b) that
the region tested is the region returned, (c) that every derived query is the stated function of
find_region / try_access (delegation agreement) for GuestMemoryMmap and for the traits' provided methods
(hence for any implementor relying on them). Sortedness/disjointness of `regions` is C10's obligation.
"""
from ..mir import deep_strip, tstr, strip_generics, canon, subterms, is_call
from .. import effects
from ..pat import P, K, V, C, F, AGG, OKP, BIN, CLO, TUP, FN, ANY, ALT, match, closure_ret, unref

CONFIGS = ("FULL", "XEN")
TRUSTED = [
    "core: slice::binary_search_by_key on a sorted slice (Ok(i) = match, Err(i) = insertion point <= len), Option/Result combinators, Iterator::fold/map, cmp::max",
    "sortedness and disjointness of the region vector (established by C10 rules)",
    "rustc nightly MIR construction and Instance resolution",
]
GM = "guest_memory::GuestMemory"
GR = "guest_memory::GuestMemoryRegion"


def single(b, eff=None, lift=False):
    r = b.return_terms()
    if len(r) != 1:
        return None
    t = deep_strip(r[0][1])
    if lift and eff is not None and b.kind == "Closure":
        _p, t = eff.lift(b, t)
    return t


def deleg(ctx, prog, eff, rule, body, pattern, closures=(), want=""):
    """body's single return term matches `pattern`; each (var, closure pattern) must match the lifted closure return"""
    if body is None:
        ctx.ob(rule, want.split(" ")[0] if want else "?", False, "", "anchor body not found")
        return False
    t = single(body)
    env = {}
    ok = t is not None and match(pattern, t, env)
    detail = f"returns `{tstr(t) if t is not None else 'multi-path'}`"
    for var, cpat in closures:
        if not ok:
            break
        clo = env.get(var)
        cb, ct = closure_ret(prog, eff, clo) if clo else (None, None)
        cok = ct is not None and match(cpat, ct, env)
        detail += f"; closure returns `{tstr(ct) if ct is not None else '?'}`"
        ok = ok and cok
    ctx.ob(rule, body.key, ok, body.where(), detail + (f"; required: {want}" if want else ""))
    return ok


from ..outcomes import outcome_spec


NONE = AGG("Option", "None")


def prov(prog, trait, name):
    bs = prog.find(in_trait=trait, name=name)
    return bs[0] if len(bs) == 1 else None


def rule_find_region(ctx, prog, eff):
    """Outcome table of find_region, independent of its surface form (match / if let / early return / Option::map):
      Some(&regions[i]) is returned only with i = the Ok index of the search, or i = x - 1 for the Err insertion point x under
      exactly x > 0 and addr <= regions[x - 1].last_addr() (the index tested is the index returned); None otherwise."""
    from .. import outcomes
    bs = prog.find(adt="mmap::GuestMemoryMmap", trait=GM, name="find_region")
    if len(bs) != 1:
        ctx.ob("R2.1.find_region", "GuestMemoryMmap::find_region", False, "", "anchor not found")
        return
    b = bs[0]
    # search: binary_search_by_key(regions, &addr, |x| x.start_addr())
    bs_call = None
    for c in b.calls():
        if canon(c.target or "").endswith("binary_search_by_key"):
            bs_call = c
    kenv = {}
    kok = bs_call is not None and match(C("binary_search_by_key", C("Deref::deref", F(P(1), "regions")), P(2), CLO("key")), deep_strip(b.call_term(bs_call.t, bs_call.pos, 0)), kenv)
    if kok:
        cb, ct = closure_ret(prog, eff, kenv["key"])
        kok = ct is not None and match(C("GuestMemoryRegion::start_addr", ALT(C("Deref::deref", P(2)), P(2))), ct, {})
    ctx.ob("R2.1.search_key", b.key, bool(kok), b.where(), "lookup = regions.binary_search_by_key(&addr, |r| r.start_addr()) (search key must equal the sort key of C10 R10.3)")
    search = deep_strip(b.call_term(bs_call.t, bs_call.pos, 0)) if bs_call else None
    REGION = lambda i: ALT(C("AsRef::as_ref", C("Index::index", F(P(1), "regions"), i)), C("Deref::deref", C("Index::index", F(P(1), "regions"), i)))
    LAST = lambda i: C("GuestMemoryRegion::last_addr", ALT(C("Deref::deref", C("Index::index", F(P(1), "regions"), i)), C("Index::index", F(P(1), "regions"), i)))
    arms = {"ok": 0, "err": 0, "none": 0}
    SWAPOP = {"Lt": "Gt", "Le": "Ge", "Gt": "Lt", "Ge": "Le", "Eq": "Eq", "Ne": "Ne"}

    def classify_fact(r, x):
        """'search' | 'gt0' | 'le_last' | 'eq0' | 'gt_last' | None(unrelated to the decision) | 'other:<txt>'"""
        if r[0] == 'discr' and search is not None and unref(r[1]) == search:
            return 'search'
        if r[0] != 'cmp':
            return 'other:' + tstr(r[1])[:60] if r[0] in ('bool',) else None
        for (lhs, rhs, op) in ((r[2], r[3], r[1]), (r[3], r[2], SWAPOP[r[1]])):
            lhs_, rhs_ = unref(lhs), unref(rhs)
            if x is not None and lhs_ == x and rhs_[0] == 'const':
                if (op == 'Gt' and rhs_[1] == 0) or (op == 'Ne' and rhs_[1] == 0) or (op == 'Ge' and rhs_[1] == 1):
                    return 'gt0'
                if (op == 'Eq' and rhs_[1] == 0) or (op == 'Le' and rhs_[1] == 0) or (op == 'Lt' and rhs_[1] == 1):
                    return 'eq0'
                return f'other:x {op} {rhs_[1]}'
            e3 = {}
            if lhs_[:2] == ('param', 2) and match(LAST(V("i")), rhs, e3):
                same = x is not None and match(BIN("Sub", V("x"), K(1)), e3["i"], {"x": x})
                if not same:
                    return 'other:last_addr of a different index ' + tstr(e3["i"])
                return {'Le': 'le_last', 'Gt': 'gt_last'}.get(op, f'other:addr {op} last_addr')
        if r[1] == 'Ne' or r[1] == 'Eq':
            return None
        return 'other:' + tstr(r[2])[:40] + ' ' + r[1] + ' ' + tstr(r[3])[:40]

    from ..mir import map_children

    def nz(t):
        """spellings of `the element before x`: the payload of a successful x.checked_sub(1) is x - 1; the last element of the prefix
        s[..x] is s[x - 1]; a successful filter hands on its receiver's payload (that both exist is a fact of the same outcome: `gt0`)"""
        if not isinstance(t, tuple) or not t:
            return t
        t = map_children(t, nz)
        if t[0] == 'ok' and isinstance(t[1], tuple):
            p = unref(t[1])
            if p[0] == 'call' and canon(p[1]).endswith("Option::filter") and len(p[2]) == 2:
                return nz(('ok', p[2][0]))
            if p[0] == 'call' and canon(p[1]).endswith("num::checked_sub") and len(p[2]) == 2 and unref(p[2][1]) == ('const', 1):
                return ('bin', 'Sub', p[2][0], ('const', 1))
            if p[0] == 'call' and canon(p[1]).endswith("slice::last") and len(p[2]) == 1:
                q = unref(p[2][0])
                if q[0] == 'call' and canon(q[1]).endswith("Index::index") and len(q[2]) == 2:
                    r = unref(q[2][1])
                    if r[0] == 'agg' and str(r[1]).endswith("RangeTo") and len(r[3]) == 1:
                        return ('call', q[1], (q[2][0], ('bin', 'Sub', r[3][0], ('const', 1)))) + tuple(q[3:])
        return t

    def before_exists(r, x):
        """r states that `the element before x` exists: x.checked_sub(1) is Some / s[..x].last() is Some"""
        if r[0] != 'discr' or r[2] != 1 or x is None:
            return False
        p = unref(r[1])
        if p[0] == 'call' and canon(p[1]).endswith("num::checked_sub") and len(p[2]) == 2 and unref(p[2][1]) == ('const', 1):
            return unref(p[2][0]) == x
        if p[0] == 'call' and canon(p[1]).endswith("slice::last") and len(p[2]) == 1:
            q = unref(p[2][0])
            if q[0] == 'call' and canon(q[1]).endswith("Index::index") and len(q[2]) == 2:
                r_ = unref(q[2][1])
                return r_[0] == 'agg' and str(r_[1]).endswith("RangeTo") and len(r_[3]) == 1 and unref(r_[3][0]) == x and \
                    match(F(P(1), "regions"), q[2][0], {})
        return False

    outs = outcomes.outcomes(prog, eff, b)
    for o in outs:
        pos, d = o[0], deep_strip(nz(o[1]))
        raw_facts = outcomes.facts_of(b, o, (prog, eff))
        facts = [tuple(nz(x) if isinstance(x, tuple) else x for x in r) for r in raw_facts]
        if d[0] == 'agg' and d[2] == 'None':
            arms["none"] += 1
            continue
        if not (d[0] == 'agg' and d[2] == 'Some'):
            ctx.ob("R2.1.arm", b.key, False, b.where(), f"unrecognised return `{tstr(d)}`")
            continue
        e0 = {}
        if not match(REGION(V("i")), unref(d[3][0]), e0):
            ctx.ob("R2.2.returns_indexed_region", b.key, False, b.where(), f"returns `{tstr(d)}`; required Some(self.regions[index].as_ref())")
            continue
        v = unref(e0["i"])
        if v[0] == 'ok' and unref(v[1]) == search:
            kinds = [classify_fact(r, None) for r in facts]
            extra = sorted({k for k in kinds if k and k != 'search'})
            arms["ok"] += 1
            ctx.ob("R2.2.ok_arm", b.key, 'search' in kinds and not extra, b.where(), f"Ok(x) => regions[x]: the matching index itself, under no further condition (extra: {extra})")
            continue
        e2 = {}
        if match(BIN("Sub", V("x"), K(1)), v, e2):
            x = e2["x"]
            is_err = x[0] == 'vfield' and x[2] == 'Err' and unref(x[1]) == search
            kinds = [classify_fact(r, x) for r in facts] + ['gt0' for r in raw_facts if before_exists(r, unref(x))]
            gt0, le_ok = 'gt0' in kinds, 'le_last' in kinds
            extra = sorted({k for k in kinds if k and k not in ('search', 'gt0', 'le_last')})
            arms["err"] += 1
            ctx.ob("R2.1.err_arm", b.key, is_err and gt0 and le_ok and not extra, b.where(),
                   f"Err(x) => regions[x - 1] requires exactly x > 0 [{gt0}] and addr <= regions[x-1].last_addr() (inclusive last; the index tested is the index returned) [{le_ok}]; other conditions on this path: {extra}")
            continue
        ctx.ob("R2.1.arm", b.key, False, b.where(), f"unrecognised index `{tstr(v)}`")
    ctx.ob("R2.2.returns_indexed_region", b.key, arms["ok"] + arms["err"] >= 2, b.where(), "every Some(..) returned is self.regions[index].as_ref() for a classified index")
    ctx.ob("R2.1.arms_present", b.key, arms["ok"] >= 1 and arms["err"] >= 1 and arms["none"] >= 1, b.where(), f"arms: {arms}")


def rule_last_addr(ctx, prog, eff):
    """GuestMemory::last_addr = max over ALL regions of region.last_addr(), starting from GuestAddress(0): either the
    iterator form iter().map(last_addr).fold(GuestAddress(0), max) or the accumulator loop
    `let mut m = GuestAddress(0); for r in self.iter() { m = max(m, r.last_addr()) } m` (left only when next() is None)."""
    b = prov(prog, GM, "last_addr")
    if b is None:
        ctx.ob("R2.3.last_addr", "GuestMemory::last_addr", False, "", "anchor body not found")
        return
    FOLD = C("Iterator::fold", C("Iterator::map", C("GuestMemory::iter", P(1)), FN("GuestMemoryRegion::last_addr")), AGG("GuestAddress", None, K(0)), FN("cmp::max"))
    t = single(b)
    if t is not None and match(FOLD, t, {}):
        ctx.ob("R2.3.last_addr", b.key, True, b.where(), f"returns `{tstr(t)}`")
        return
    ok = False
    detail = "neither the fold form nor the accumulator loop"
    raw = b.var_defs(0)
    if len(raw) == 1 and deep_strip(raw[0][1])[0] == 'var':
        acc = deep_strip(raw[0][1])
        defs = [(p, deep_strip(d)) for p, d in b.var_defs(acc[1])]
        NEXT = C("Iterator::next", ALT(C("IntoIterator::into_iter", C("GuestMemory::iter", P(1))), C("GuestMemory::iter", P(1))))
        init = [d for _p, d in defs if match(AGG("GuestAddress", None, K(0)), d, {})]
        upd = [d for _p, d in defs if match(C("cmp::max", K(acc) if False else V("acc"), C("GuestMemoryRegion::last_addr", OKP(NEXT))), d, {"acc": acc})]
        exits = [r for r in b.facts_at(raw[0][0]) if r[0] == 'discr' and r[2] == 0 and match(NEXT, r[1], {})]
        nloops = len(b.loops())
        ok = len(defs) == 2 and len(init) == 1 and len(upd) == 1 and bool(exits) and nloops == 1
        detail = f"accumulator loop: init GuestAddress(0) [{len(init) == 1}], update max(acc, region.last_addr()) for the iterator's next item [{len(upd) == 1}], left only when next() == None [{bool(exits)}], one loop [{nloops == 1}]"
    ctx.ob("R2.3.last_addr", b.key, ok, b.where(), detail)


def run(ctx, progs):
    for cfg, prog in progs.items():
        ctx.config = cfg
        eff = effects.Effects(prog)
        rule_find_region(ctx, prog, eff)
        # check_range (and every other ranged query) is a function of try_access: the walk over regions — which count it asks of
        # each region, how it adds up, when it stops — is part of what makes "is this range backed?" right (R3.1, shared with C03/C14)
        from . import c03
        c03.rule_try_access(ctx, prog, eff)
        D = lambda rule, body, pat, clos=(), want="": deleg(ctx, prog, eff, rule, body, pat, clos, want)
        # ---------------- GuestMemoryRegion provided methods
        D("R2.1.last_addr", prov(prog, GR, "last_addr"),
          C("Address::unchecked_add", C("GuestMemoryRegion::start_addr", P(1)), BIN("Sub", C("GuestMemoryRegion::len", P(1)), K(1))),
          want="start_addr().unchecked_add(len() - 1)  (inclusive LAST = start + (len - 1))")
        D("R2.1.address_in_range", prov(prog, GR, "address_in_range"),
          BIN("Lt", C("Address::raw_value", P(2)), C("GuestMemoryRegion::len", P(1))), want="addr.raw_value() < len()  (POS < LEN, strict)")
        b = prov(prog, GR, "check_address")
        if not b:
            ctx.ob("C02.anchor", "prov(prog, GR, 'check_address')", False, "", "anchor body not found (renamed or removed): the rule cannot be evaluated — fail closed")
        if b:
            AIR = C("GuestMemoryRegion::address_in_range", P(1), P(2))
            outcome_spec(ctx, prog, eff, "R2.3.check_address_region", b,
                         [(AGG("Option", "Some", P(2)), [('bool', AIR, True)]), (NONE, [('bool', AIR, False)])],
                         "Some(addr) exactly on the address_in_range(addr) edge, returning its own addr; None otherwise")
        CA = C("Address::checked_add", P(2), P(3))
        outcome_spec(ctx, prog, eff, "R2.3.checked_offset_region", prov(prog, GR, "checked_offset"),
                     [(C("GuestMemoryRegion::check_address", P(1), OKP(CA)), [('discr', CA, 1)]), (NONE, [('discr', CA, 0)])],
                     "base.checked_add(offset) is Some(a) => self.check_address(a); None => None")
        b = prov(prog, GR, "to_region_addr")
        if not b:
            ctx.ob("C02.anchor", "prov(prog, GR, 'to_region_addr')", False, "", "anchor body not found (renamed or removed): the rule cannot be evaluated — fail closed")
        if b:
            X = C("Address::checked_offset_from", P(2), C("GuestMemoryRegion::start_addr", P(1)))
            outcome_spec(ctx, prog, eff, "R2.1.to_region_addr", b,
                         [(C("GuestMemoryRegion::check_address", P(1), AGG("MemoryRegionAddress", None, OKP(X))), [('discr', X, 1)]),
                          (NONE, [('discr', X, 0)])],
                         "addr.checked_offset_from(start_addr()) is Some(o) => check_address(MemoryRegionAddress(o)); None => None")
        D("R2.3.as_volatile_slice", prov(prog, GR, "as_volatile_slice"),
          C("GuestMemoryRegion::get_slice", P(1), AGG("MemoryRegionAddress", None, K(0)), C("GuestMemoryRegion::len", P(1))),
          want="get_slice(MemoryRegionAddress(0), self.len()): the whole region and nothing more (the region forwarders unwrap it)")
        # ---------------- GuestMemory provided methods
        rule_last_addr(ctx, prog, eff)
        b = prov(prog, GM, "to_region_addr")
        if not b:
            ctx.ob("C02.anchor", "prov(prog, GM, 'to_region_addr')", False, "", "anchor body not found (renamed or removed): the rule cannot be evaluated — fail closed")
        if b:
            FR = C("GuestMemory::find_region", P(1), P(2))
            outcome_spec(ctx, prog, eff, "R2.3.to_region_addr", b,
                         [(AGG("Option", "Some", TUP(OKP(FR), C("Option::unwrap", C("GuestMemoryRegion::to_region_addr", OKP(FR), P(2))))), [('discr', FR, 1)]),
                          (NONE, [('discr', FR, 0)])],
                         "find_region(addr) is Some(r) => Some((r, r.to_region_addr(addr).unwrap())): the found region paired with ITS OWN offset of the same addr; None => None")
        D("R2.3.address_in_range", prov(prog, GM, "address_in_range"), C("Option::is_some", C("GuestMemory::find_region", P(1), P(2))), want="find_region(addr).is_some()")
        b = prov(prog, GM, "check_address")
        if not b:
            ctx.ob("C02.anchor", "prov(prog, GM, 'check_address')", False, "", "anchor body not found (renamed or removed): the rule cannot be evaluated — fail closed")
        if b:
            FRc = C("GuestMemory::find_region", P(1), P(2))
            outcome_spec(ctx, prog, eff, "R2.3.check_address", b,
                         [(AGG("Option", "Some", P(2)), [('discr', FRc, 1)]), (NONE, [('discr', FRc, 0)])],
                         "find_region(addr) is Some(_) => Some(addr) (its own addr); None => None")
        CA = C("Address::checked_add", P(2), P(3))
        outcome_spec(ctx, prog, eff, "R2.3.checked_offset", prov(prog, GM, "checked_offset"),
                     [(C("GuestMemory::check_address", P(1), OKP(CA)), [('discr', CA, 1)]), (NONE, [('discr', CA, 0)])],
                     "base.checked_add(offset) is Some(a) => self.check_address(a); None => None")
        b = prov(prog, GM, "check_range")
        if not b:
            ctx.ob("C02.anchor", "prov(prog, GM, 'check_range')", False, "", "anchor body not found (renamed or removed): the rule cannot be evaluated — fail closed")
        if b:
            ok = False
            detail = ""
            rts = [(p, deep_strip(t)) for p, t in b.return_terms()]
            consts = [t for _p, t in rts if t == ('const', 0)]
            others = [t for _p, t in rts if t != ('const', 0)]
            if len(others) == 1 and len(consts) == 1:
                env = {}
                ok = match(BIN("Eq", OKP(C("GuestMemory::try_access", P(1), P(3), P(2), CLO("c"))), P(3)), others[0], env)
                if ok:
                    cb, ct = closure_ret(prog, eff, env["c"])
                    ok = ct is not None and match(AGG("Result", "Ok", P(3)), ct, {})
                detail = f"returns `{tstr(others[0])}` / false"
            if not ok and len(rts) == 1:
                # .. written `try_access(..).is_ok_and(|count| count == len)`: true exactly when Ok and the predicate of the payload holds
                env = {}
                if match(C("Result::is_ok_and", C("GuestMemory::try_access", P(1), P(3), P(2), CLO("c")), CLO("p")), rts[0][1], env):
                    pb_, pt_ = closure_ret(prog, eff, env["p"])
                    lifted = eff.in_parent(pb_, pt_)[1] if pb_ is not None and pt_ is not None else None
                    cb, ct = closure_ret(prog, eff, env["c"])
                    ok = lifted is not None and match(BIN("Eq", OKP(C("GuestMemory::try_access", P(1), P(3), P(2), CLO("c2"))), P(3)), lifted, {}) and \
                        ct is not None and match(AGG("Result", "Ok", P(3)), ct, {})
                    detail = f"returns try_access(..).is_ok_and(|count| {tstr(lifted)[:80] if lifted is not None else '?'})"
            if not ok:
                # the same predicate written `matches!(try_access(..), Ok(count) if count == len)`: literal true / false returns, decided
                # by the facts on the way to each
                TA = C("GuestMemory::try_access", P(1), P(3), P(2), CLO("c"))
                envs = []
                good = bool(rts)
                n_true = 0
                def reads(fs, e_=None):
                    e_ = e_ if e_ is not None else {}
                    is_ok = any(r[0] == 'discr' and r[2] == 0 and match(TA, r[1], e_) for r in fs)
                    is_err = any(r[0] == 'discr' and r[2] == 1 and match(TA, r[1], {}) for r in fs)
                    eq = any(r[0] == 'cmp' and r[1] == 'Eq' and match(OKP(TA), r[2], {}) and match(P(3), r[3], {}) for r in fs)
                    ne = any(r[0] == 'cmp' and r[1] == 'Ne' and match(OKP(TA), r[2], {}) and match(P(3), r[3], {}) for r in fs)
                    other = [r for r in fs if r[0] in ('cmp', 'bool', 'discr') and not any(match(TA, x, {}) for r_ in (r[1:],) for y in r_ if isinstance(y, tuple)
                                                                                            for x in subterms(unref(y)))]
                    return is_ok, is_err, eq, ne, other
                for pos, t in rts:
                    fs = b.facts_at(pos)
                    e_ = {}
                    is_ok, is_err, eq, ne, other = reads(fs, e_)
                    if t == ('const', 1) and is_ok and eq and not other:
                        n_true += 1         # true under exactly `Ok(count)` and `count == len`, no further condition
                        envs.append(e_)
                    elif t == ('const', 0) and (is_err or (is_ok and ne)):
                        pass
                    elif t == ('const', 0) and not fs:
                        # a join of the `Err` arm and the failed guard: every way in must be one of the two
                        ways = b.facts_by_pred(pos[0])
                        for w in ways:
                            o2, e2, _q2, n2, _x2 = reads(w)
                            if not (e2 or (o2 and n2)):
                                good = False
                        if not ways:
                            good = False
                    elif is_ok and match(BIN("Eq", OKP(TA), P(3)), t, e_):
                        n_true += 1
                        envs.append(e_)
                    else:
                        good = False
                if good and n_true >= 1:
                    ok = True
                    for e_ in envs:
                        cb, ct = closure_ret(prog, eff, e_["c"]) if "c" in e_ else (None, None)
                        ok = ok and ct is not None and match(AGG("Result", "Ok", P(3)), ct, {})
                    detail = f"{len(rts)} literal returns, true exactly where try_access(..) is Ok(count) with count == len"
            ctx.ob("R2.3.check_range", b.key, ok, b.where(), detail + "; required try_access(len, base, |_, count, _, _| Ok(count)) == Ok(len), false otherwise")
        for nm, call in (("get_host_address", "GuestMemoryRegion::get_host_address"), ("get_slice", "GuestMemoryRegion::get_slice")):
            b = prov(prog, GM, nm)
            if not b:
                ctx.ob("R2.3." + nm, nm, False, "", "anchor missing")
                continue
            TR = C("GuestMemory::to_region_addr", P(1), P(2))
            fwd = C(call, F(OKP(TR), "0"), F(OKP(TR), "1"), P(3)) if nm == "get_slice" else C(call, F(OKP(TR), "0"), F(OKP(TR), "1"))
            outcome_spec(ctx, prog, eff, "R2.3." + nm, b,
                         [(fwd, [('discr', TR, 1)]),
                          (AGG("Result", "Err", AGG("Error", "InvalidGuestAddress", P(2))), [('discr', TR, 0)])],
                         f"to_region_addr(addr) is Some((r, a)) => r.{nm}(a{', count' if nm == 'get_slice' else ''}); None => Err(InvalidGuestAddress(addr))")
        # ---------------- GuestRegionMmap / GuestMemoryMmap concrete methods
        REG = "mmap::GuestRegionMmap"
        b = (prog.find(adt=REG, trait=GR, name="get_host_address") or [None])[0]
        if not b:
            ctx.ob("C02.anchor", "(prog.find(adt=REG, trait=GR, name='get_host_address') or [None])[0]", False, "", "anchor body not found (renamed or removed): the rule cannot be evaluated — fail closed")
        if b:
            t = single(b)
            env = {}
            ok = t is not None and match(C("Result::map", C("Option::ok_or", C("GuestMemoryRegion::check_address", P(1), P(2)), ANY), CLO("c")), t, env)
            if ok:
                cb, ct = closure_ret(prog, eff, env["c"])
                ok = ct is not None and match(C("wrapping_offset", C("MmapRegion::as_ptr", F(P(1), "mapping")), C("Address::raw_value", P(2))), ct, {}) or \
                    (ct is not None and match(C("mut_ptr::add", C("MmapRegion::as_ptr", F(P(1), "mapping")), C("Address::raw_value", P(2))), ct, {}))
            ctx.ob("R2.3.region_host_address", b.key, ok, b.where(), "check_address(addr) dominates; pointer = mapping.as_ptr() offset by that same checked address")
        b = (prog.find(adt=REG, trait=GR, name="get_slice") or [None])[0]
        if not b:
            ctx.ob("C02.anchor", "(prog.find(adt=REG, trait=GR, name='get_slice') or [None])[0]", False, "", "anchor body not found (renamed or removed): the rule cannot be evaluated — fail closed")
        if b:
            cs = [c for c in b.calls() if canon(c.target or "").endswith("VolatileMemory::get_slice") or canon(c.target or "").endswith("MmapRegion::get_slice")]
            ok = len(cs) == 1 and match(C("get_slice", F(P(1), "mapping"), C("Address::raw_value", P(2)), P(3)), deep_strip(b.call_term(cs[0].t, cs[0].pos, 0)), {})
            ctx.ob("R2.3.region_get_slice", b.key, ok, b.where(), "mapping.get_slice(offset.raw_value(), count): offset and the caller's count passed in place")
        for nm, pat, want in (
                ("len", C("MmapRegion::size", F(P(1), "mapping")), "mapping.size()"),
                ("start_addr", F(P(1), "guest_base"), "self.guest_base")):
            b = (prog.find(adt=REG, trait=GR, name=nm) or [None])[0]
            D("R2.3.region_" + nm, b, pat, want=want)
        MM = "mmap::GuestMemoryMmap"
        D("R2.3.num_regions", (prog.find(adt=MM, trait=GM, name="num_regions") or [None])[0], C("Vec::len", F(P(1), "regions")), want="self.regions.len()")
        D("R2.3.iter", (prog.find(adt=MM, trait=GM, name="iter") or [None])[0],
          C("Iterator::map", C("slice::iter", C("Deref::deref", F(P(1), "regions"))), FN("AsRef::as_ref")), want="self.regions.iter().map(AsRef::as_ref): the vector itself, in order")
        ctx.floor("R2.obligations", sum(1 for o in ctx.obligations if o["config"] == cfg), 24)
    ctx.not_decided = [
        "the truth table of answers for every (layout, address): runtime values of a data-dependent search",
        "correctness of binary_search_by_key (std, trusted)",
        "the len = 0 reading of check_range (an empty range at an unmapped base is reported invalid): value-level",
    ]
    return ctx.finish(
        "other",
        "Term-level delegation agreement on resolved MIR: find_region's three arms (Ok(x) => x; Err(x) => x-1 only behind x > 0 and addr <= regions[x-1].last_addr() "
        "for the SAME index that is returned; None otherwise), search key = start_addr, strictness of address_in_range (POS < LEN) and last_addr (start + (len-1)), "
        "and every provided method of GuestMemory / GuestMemoryRegion as the stated function of find_region / try_access with its own arguments in place. These are "
        "necessary conditions of the set-theoretic reading for every layout and address; the value-level truth table is not decided.",
        TRUSTED, "./check C02")
