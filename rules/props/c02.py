"""C02 — guest address queries agree with the set of regions.

Decides (a) the strictness of every boundary decision in the lookup and the default methods, (b) that
the region tested is the region returned, (c) that every derived query is the stated function of
find_region / try_access (delegation agreement) for GuestMemoryMmap and for the traits' provided methods
(hence for any implementor relying on them). Sortedness/disjointness of `regions` is C10's obligation.
"""
from ..mir import deep_strip, tstr, strip_generics, canon, subterms, is_call
from .. import effects
from ..pat import P, K, V, C, F, AGG, OKP, BIN, CLO, TUP, FN, ANY, ALT, match, closure_ret, unref

CONFIGS = ("FULL", "XEN")
TRUSTED = [
    "core: slice::binary_search_by_key on a sorted slice (Ok(i) = match, Err(i) = insertion point <= len), Option/Result combinators, Iterator::fold/map, cmp::max",
    "sortedness and disjointness of the region vector (established by C10 rules)",
    "rustc nightly MIR construction and Instance resolution",
]
GM = "guest_memory::GuestMemory"
GR = "guest_memory::GuestMemoryRegion"


def single(b, eff=None, lift=False):
    r = b.return_terms()
    if len(r) != 1:
        return None
    t = deep_strip(r[0][1])
    if lift and eff is not None and b.kind == "Closure":
        _p, t = eff.lift(b, t)
    return t


def deleg(ctx, prog, eff, rule, body, pattern, closures=(), want=""):
    """body's single return term matches `pattern`; each (var, closure pattern) must match the lifted closure return"""
    if body is None:
        ctx.ob(rule, want.split(" ")[0] if want else "?", False, "", "anchor body not found")
        return False
    t = single(body)
    env = {}
    ok = t is not None and match(pattern, t, env)
    detail = f"returns `{tstr(t) if t is not None else 'multi-path'}`"
    for var, cpat in closures:
        if not ok:
            break
        clo = env.get(var)
        cb, ct = closure_ret(prog, eff, clo) if clo else (None, None)
        cok = ct is not None and match(cpat, ct, env)
        detail += f"; closure returns `{tstr(ct) if ct is not None else '?'}`"
        ok = ok and cok
    ctx.ob(rule, body.key, ok, body.where(), detail + (f"; required: {want}" if want else ""))
    return ok


def prov(prog, trait, name):
    bs = prog.find(in_trait=trait, name=name)
    return bs[0] if len(bs) == 1 else None


def rule_find_region(ctx, prog, eff):
    bs = prog.find(adt="mmap::GuestMemoryMmap", trait=GM, name="find_region")
    if len(bs) != 1:
        ctx.ob("R2.1.find_region", "GuestMemoryMmap::find_region", False, "", "anchor not found")
        return
    b = bs[0]
    # result = Option::map(index, |x| self.regions[x].as_ref())
    t = single(b)
    env = {}
    ok = t is not None and match(C("Option::map", V("idx"), CLO("clo")), t, env)
    if ok:
        cb, ct = closure_ret(prog, eff, env["clo"])
        ok = ct is not None and match(C("AsRef::as_ref", C("Index::index", F(P(1), "regions"), P(2))), ct, {}) or \
            (ct is not None and match(C("Deref::deref", C("Index::index", F(P(1), "regions"), P(2))), ct, {}))
        ctx.ob("R2.2.returns_indexed_region", b.key, ok, b.where(), f"index -> region closure returns `{tstr(ct) if ct else '?'}`; required self.regions[index].as_ref()")
    else:
        ctx.ob("R2.2.returns_indexed_region", b.key, False, b.where(), f"returns `{tstr(t) if t else '?'}`; required index.map(|x| self.regions[x].as_ref())")
        return
    idx = env["idx"]
    if idx[0] != 'var':
        ctx.ob("R2.1.find_region", b.key, False, b.where(), "index is not a multi-arm variable")
        return
    # search: binary_search_by_key(regions, &addr, |x| x.start_addr())
    bs_call = None
    for c in b.calls():
        if canon(c.target or "").endswith("binary_search_by_key"):
            bs_call = c
    kenv = {}
    kok = bs_call is not None and match(C("binary_search_by_key", C("Deref::deref", F(P(1), "regions")), P(2), CLO("key")), deep_strip(b.call_term(bs_call.t, bs_call.pos, 0)), kenv)
    if kok:
        cb, ct = closure_ret(prog, eff, kenv["key"])
        kok = ct is not None and match(C("GuestMemoryRegion::start_addr", ALT(C("Deref::deref", P(2)), P(2))), ct, {})
    ctx.ob("R2.1.search_key", b.key, bool(kok), b.where(), "lookup = regions.binary_search_by_key(&addr, |r| r.start_addr()) (search key must equal the sort key of C10 R10.3)")
    search = deep_strip(b.call_term(bs_call.t, bs_call.pos, 0)) if bs_call else None
    arms = {"ok": False, "err": False, "none": 0}
    for pos, dt in b.var_defs(idx[1]):
        d = deep_strip(dt)
        if d[0] == 'agg' and d[2] == 'None':
            arms["none"] += 1
            continue
        if d[0] == 'agg' and d[2] == 'Some':
            v = unref(d[3][0])
            # Ok(x) arm
            if v[0] == 'ok' and unref(v[1]) == search:
                arms["ok"] = True
                ctx.ob("R2.2.ok_arm", b.key, True, b.where(), "Ok(x) => Some(x): the matching index itself")
                continue
            # Err(x) arm: Some(x - 1)
            e2 = {}
            if match(BIN("Sub", V("x"), K(1)), v, e2):
                x = e2["x"]
                is_err = x[0] == 'vfield' and x[2] == 'Err' and unref(x[1]) == search
                facts = b.facts_at(pos)
                gt0 = any(r[0] == 'cmp' and r[1] == 'Gt' and r[2] == x and r[3] == ('const', 0) for r in facts)
                # addr <= regions[x-1].last_addr()
                le_ok = False
                le_detail = "no comparison with last_addr found"
                for r in facts:
                    if r[0] != 'cmp':
                        continue
                    for (lhs, rhs, op) in ((r[2], r[3], r[1]), (r[3], r[2], {"Lt": "Gt", "Le": "Ge", "Gt": "Lt", "Ge": "Le", "Eq": "Eq", "Ne": "Ne"}[r[1]])):
                        e3 = {}
                        if match(C("GuestMemoryRegion::last_addr", ALT(C("Deref::deref", C("Index::index", F(P(1), "regions"), V("i"))), C("Index::index", F(P(1), "regions"), V("i")))), rhs, e3) and unref(lhs)[:2] == ('param', 2):
                            same_idx = match(BIN("Sub", V("x"), K(1)), e3["i"], {"x": x})
                            le_ok = op == "Le" and same_idx
                            le_detail = f"addr {op} regions[{tstr(e3['i'])}].last_addr(), same index as returned: {same_idx}"
                arms["err"] = True
                ctx.ob("R2.1.err_arm", b.key, is_err and gt0 and le_ok, b.where(),
                       f"Err(x) => Some(x - 1) requires x > 0 [{gt0}] and addr <= regions[x-1].last_addr() (inclusive last, POS <= LAST) [{le_detail}]")
                continue
        ctx.ob("R2.1.arm", b.key, False, b.where(), f"unrecognised arm `{tstr(d)}`")
    ctx.ob("R2.1.arms_present", b.key, arms["ok"] and arms["err"] and arms["none"] >= 1, b.where(), f"arms: {arms}")


def run(ctx, progs):
    for cfg, prog in progs.items():
        ctx.config = cfg
        eff = effects.Effects(prog)
        rule_find_region(ctx, prog, eff)
        D = lambda rule, body, pat, clos=(), want="": deleg(ctx, prog, eff, rule, body, pat, clos, want)
        # ---------------- GuestMemoryRegion provided methods
        D("R2.1.last_addr", prov(prog, GR, "last_addr"),
          C("Address::unchecked_add", C("GuestMemoryRegion::start_addr", P(1)), BIN("Sub", C("GuestMemoryRegion::len", P(1)), K(1))),
          want="start_addr().unchecked_add(len() - 1)  (inclusive LAST = start + (len - 1))")
        D("R2.1.address_in_range", prov(prog, GR, "address_in_range"),
          BIN("Lt", C("Address::raw_value", P(2)), C("GuestMemoryRegion::len", P(1))), want="addr.raw_value() < len()  (POS < LEN, strict)")
        b = prov(prog, GR, "check_address")
        if not b:
            ctx.ob("C02.anchor", "prov(prog, GR, 'check_address')", False, "", "anchor body not found (renamed or removed): the rule cannot be evaluated — fail closed")
        if b:
            rts = b.return_terms()
            ok = False
            for pos, t in rts:
                t = deep_strip(t)
                if t[0] == 'agg' and t[2] == 'Some':
                    facts = b.facts_at(pos)
                    inr = any(r[0] == 'bool' and r[2] is True and match(C("GuestMemoryRegion::address_in_range", P(1), P(2)), r[1], {}) for r in facts)
                    ok = unref(t[3][0])[:2] == ('param', 2) and inr
            ctx.ob("R2.3.check_address_region", b.key, ok and len(rts) == 2, b.where(), "Some(addr) exactly on the address_in_range(addr) edge, returning its own addr")
        D("R2.3.checked_offset_region", prov(prog, GR, "checked_offset"),
          C("Option::and_then", C("Address::checked_add", P(2), P(3)), CLO("c")), [("c", C("GuestMemoryRegion::check_address", P(1), P(2)))],
          want="base.checked_add(offset).and_then(|a| self.check_address(a))")
        b = prov(prog, GR, "to_region_addr")
        if not b:
            ctx.ob("C02.anchor", "prov(prog, GR, 'to_region_addr')", False, "", "anchor body not found (renamed or removed): the rule cannot be evaluated — fail closed")
        if b:
            t = single(b)
            env = {}
            ok = t is not None and match(C("Option::and_then", C("Address::checked_offset_from", P(2), C("GuestMemoryRegion::start_addr", P(1))), CLO("c")), t, env)
            if ok:
                cb, ct = closure_ret(prog, eff, env["c"])
                # closure param 2 = offset ; capture = self of parent
                ok = ct is not None and match(C("GuestMemoryRegion::check_address", P(1), AGG("MemoryRegionAddress", None, P(2))), ct, {})
            ctx.ob("R2.1.to_region_addr", b.key, ok, b.where(), f"returns `{tstr(t) if t else '?'}`; required addr.checked_offset_from(start_addr()).and_then(|o| check_address(MemoryRegionAddress(o)))")
        # ---------------- GuestMemory provided methods
        D("R2.3.last_addr", prov(prog, GM, "last_addr"),
          C("Iterator::fold", C("Iterator::map", C("GuestMemory::iter", P(1)), FN("GuestMemoryRegion::last_addr")), AGG("GuestAddress", None, K(0)), FN("cmp::max")),
          want="iter().map(last_addr).fold(GuestAddress(0), max)")
        b = prov(prog, GM, "to_region_addr")
        if not b:
            ctx.ob("C02.anchor", "prov(prog, GM, 'to_region_addr')", False, "", "anchor body not found (renamed or removed): the rule cannot be evaluated — fail closed")
        if b:
            t = single(b)
            env = {}
            ok = t is not None and match(C("Option::map", C("GuestMemory::find_region", P(1), P(2)), CLO("c")), t, env)
            if ok:
                cb, ct = closure_ret(prog, eff, env["c"])
                e2 = {}
                # (r, r.to_region_addr(addr).unwrap()) : same r, and addr is the parent's addr
                ok = ct is not None and match(TUP(V("r"), C("Option::unwrap", C("GuestMemoryRegion::to_region_addr", V("r"), V("a")))), ct, e2) and \
                    e2["r"][:2] == ('param', 2) and e2["a"][:2] == ('param', 2) and e2["a"][2] == "addr"
            ctx.ob("R2.3.to_region_addr", b.key, ok, b.where(), "find_region(addr).map(|r| (r, r.to_region_addr(addr).unwrap())): the found region paired with ITS OWN offset of the same addr")
        D("R2.3.address_in_range", prov(prog, GM, "address_in_range"), C("Option::is_some", C("GuestMemory::find_region", P(1), P(2))), want="find_region(addr).is_some()")
        b = prov(prog, GM, "check_address")
        if not b:
            ctx.ob("C02.anchor", "prov(prog, GM, 'check_address')", False, "", "anchor body not found (renamed or removed): the rule cannot be evaluated — fail closed")
        if b:
            t = single(b)
            env = {}
            ok = t is not None and match(C("Option::map", C("GuestMemory::find_region", P(1), P(2)), CLO("c")), t, env)
            if ok:
                cb, ct = closure_ret(prog, eff, env["c"])
                ok = ct is not None and unref(ct)[:2] == ('param', 2) and unref(ct)[2] == "addr"
            ctx.ob("R2.3.check_address", b.key, ok, b.where(), "find_region(addr).map(|_| addr): returns its own addr")
        D("R2.3.checked_offset", prov(prog, GM, "checked_offset"),
          C("Option::and_then", C("Address::checked_add", P(2), P(3)), CLO("c")), [("c", C("GuestMemory::check_address", P(1), P(2)))],
          want="base.checked_add(offset).and_then(|a| self.check_address(a))")
        b = prov(prog, GM, "check_range")
        if not b:
            ctx.ob("C02.anchor", "prov(prog, GM, 'check_range')", False, "", "anchor body not found (renamed or removed): the rule cannot be evaluated — fail closed")
        if b:
            ok = False
            detail = ""
            rts = [(p, deep_strip(t)) for p, t in b.return_terms()]
            consts = [t for _p, t in rts if t == ('const', 0)]
            others = [t for _p, t in rts if t != ('const', 0)]
            if len(others) == 1 and len(consts) == 1:
                env = {}
                ok = match(BIN("Eq", OKP(C("GuestMemory::try_access", P(1), P(3), P(2), CLO("c"))), P(3)), others[0], env)
                if ok:
                    cb, ct = closure_ret(prog, eff, env["c"])
                    ok = ct is not None and match(AGG("Result", "Ok", P(3)), ct, {})
                detail = f"returns `{tstr(others[0])}` / false"
            ctx.ob("R2.3.check_range", b.key, ok, b.where(), detail + "; required try_access(len, base, |_, count, _, _| Ok(count)) == Ok(len), false otherwise")
        for nm, call in (("get_host_address", "GuestMemoryRegion::get_host_address"), ("get_slice", "GuestMemoryRegion::get_slice")):
            b = prov(prog, GM, nm)
            if not b:
                ctx.ob("R2.3." + nm, nm, False, "", "anchor missing")
                continue
            t = single(b)
            env = {}
            ok = t is not None and match(C("Result::and_then", C("Option::ok_or", C("GuestMemory::to_region_addr", P(1), P(2)), AGG("Error", "InvalidGuestAddress", P(2))), CLO("c")), t, env)
            if ok:
                cb, ct = closure_ret(prog, eff, env["c"])
                if nm == "get_slice":
                    ok = ct is not None and match(C(call, F(P(2), "0"), F(P(2), "1"), P(3)), ct, {})
                else:
                    ok = ct is not None and match(C(call, F(P(2), "0"), F(P(2), "1")), ct, {})
            ctx.ob("R2.3." + nm, b.key, ok, b.where(),
                   f"returns `{tstr(t) if t else '?'}`; required to_region_addr(addr).ok_or(InvalidGuestAddress(addr)).and_then(|(r, a)| r.{nm}(a{', count' if nm == 'get_slice' else ''}))")
        # ---------------- GuestRegionMmap / GuestMemoryMmap concrete methods
        REG = "mmap::GuestRegionMmap"
        b = (prog.find(adt=REG, trait=GR, name="get_host_address") or [None])[0]
        if not b:
            ctx.ob("C02.anchor", "(prog.find(adt=REG, trait=GR, name='get_host_address') or [None])[0]", False, "", "anchor body not found (renamed or removed): the rule cannot be evaluated — fail closed")
        if b:
            t = single(b)
            env = {}
            ok = t is not None and match(C("Result::map", C("Option::ok_or", C("GuestMemoryRegion::check_address", P(1), P(2)), ANY), CLO("c")), t, env)
            if ok:
                cb, ct = closure_ret(prog, eff, env["c"])
                ok = ct is not None and match(C("wrapping_offset", C("MmapRegion::as_ptr", F(P(1), "mapping")), C("Address::raw_value", P(2))), ct, {}) or \
                    (ct is not None and match(C("mut_ptr::add", C("MmapRegion::as_ptr", F(P(1), "mapping")), C("Address::raw_value", P(2))), ct, {}))
            ctx.ob("R2.3.region_host_address", b.key, ok, b.where(), "check_address(addr) dominates; pointer = mapping.as_ptr() offset by that same checked address")
        b = (prog.find(adt=REG, trait=GR, name="get_slice") or [None])[0]
        if not b:
            ctx.ob("C02.anchor", "(prog.find(adt=REG, trait=GR, name='get_slice') or [None])[0]", False, "", "anchor body not found (renamed or removed): the rule cannot be evaluated — fail closed")
        if b:
            cs = [c for c in b.calls() if canon(c.target or "").endswith("VolatileMemory::get_slice") or canon(c.target or "").endswith("MmapRegion::get_slice")]
            ok = len(cs) == 1 and match(C("get_slice", F(P(1), "mapping"), C("Address::raw_value", P(2)), P(3)), deep_strip(b.call_term(cs[0].t, cs[0].pos, 0)), {})
            ctx.ob("R2.3.region_get_slice", b.key, ok, b.where(), "mapping.get_slice(offset.raw_value(), count): offset and the caller's count passed in place")
        for nm, pat, want in (
                ("len", C("MmapRegion::size", F(P(1), "mapping")), "mapping.size()"),
                ("start_addr", F(P(1), "guest_base"), "self.guest_base")):
            b = (prog.find(adt=REG, trait=GR, name=nm) or [None])[0]
            D("R2.3.region_" + nm, b, pat, want=want)
        MM = "mmap::GuestMemoryMmap"
        D("R2.3.num_regions", (prog.find(adt=MM, trait=GM, name="num_regions") or [None])[0], C("Vec::len", F(P(1), "regions")), want="self.regions.len()")
        D("R2.3.iter", (prog.find(adt=MM, trait=GM, name="iter") or [None])[0],
          C("Iterator::map", C("slice::iter", C("Deref::deref", F(P(1), "regions"))), FN("AsRef::as_ref")), want="self.regions.iter().map(AsRef::as_ref): the vector itself, in order")
        ctx.floor("R2.obligations", sum(1 for o in ctx.obligations if o["config"] == cfg), 24)
    ctx.not_decided = [
        "the truth table of answers for every (layout, address): runtime values of a data-dependent search",
        "correctness of binary_search_by_key (std, trusted)",
        "the len = 0 reading of check_range (an empty range at an unmapped base is reported invalid): value-level",
    ]
    return ctx.finish(
        "other",
        "Term-level delegation agreement on resolved MIR: find_region's three arms (Ok(x) => x; Err(x) => x-1 only behind x > 0 and addr <= regions[x-1].last_addr() "
        "for the SAME index that is returned; None otherwise), search key = start_addr, strictness of address_in_range (POS < LEN) and last_addr (start + (len-1)), "
        "and every provided method of GuestMemory / GuestMemoryRegion as the stated function of find_region / try_access with its own arguments in place. These are "
        "necessary conditions of the set-theoretic reading for every layout and address; the value-level truth table is not decided.",
        TRUSTED, "./check C02")
