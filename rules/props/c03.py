"""C03 — guest memory reads and writes behave like one flat sparse byte array.

Decides the PROTOCOL of the region-splitting loop (try_access) and of its clients: the three running
quantities (total, cur, per-chunk length) are updated from the same values in the right roles, the loop stops
for the stated reasons only, errors keep their counts, closures hand the right parameter to the right role,
region-level methods forward in place. Byte contents are not decided.
"""
import re

from ..mir import deep_strip, tstr, strip_generics, canon, subterms, is_call
from .. import effects
from ..checks import error_passthrough
from ..pat import P, K, V, C, F, AGG, OKP, BIN, CLO, TUP, FN, ANY, ALT, match, closure_ret, unref

CONFIGS = ("FULL", "XEN")
TRUSTED = [
    "find_region / to_region_addr agree with the region set (C02); volatile copy primitives move the bytes they are given (C04)",
    "core: checked_add, overflowing_add, cmp::min, Option/Result combinators",
    "rustc nightly MIR construction and Instance resolution",
]
GM = "guest_memory::GuestMemory"
BYTES = "bytes::Bytes"


def err_variant(t):
    t = deep_strip(t)
    if t[0] == 'agg' and t[2] == 'Err':
        v = unref(t[3][0])
        if v[0] == 'agg':
            return v[2], v
    return None, None


def rule_try_access(ctx, prog, eff):
    b = prog.one(in_trait=GM, name="try_access")
    W = b.where()
    calls = [c for c in b.calls() if canon(c.target or "").endswith("FnMut::call_mut")]
    if len(calls) != 1:
        ctx.ob("R3.1.callback_site", b.key, False, W, f"{len(calls)} callback invocations (expected exactly one per chunk)")
        return
    call = calls[0]
    ct = deep_strip(b.call_term(call.t, call.pos, 0))
    env = {}
    region = OKP(C("GuestMemory::find_region", P(1), V("cur")))
    start = C("Option::unwrap", C("GuestMemoryRegion::to_region_addr", V("region"), V("cur")))
    cap = BIN("Sub", C("GuestMemoryRegion::len", V("region")), C("Address::raw_value", start))
    ln = C("cmp::min", cap, BIN("Sub", P(2), V("total")))
    ok = match(C("FnMut::call_mut", P(4), TUP(V("total"), ln, start, V("region"))), ct, env) and match(region, env.get("region", ('x',)), env)
    ok = ok and env["total"][0] == 'var' and env["cur"][0] == 'var'
    ctx.ob("R3.1.callback_args", b.key, ok, b.where(call.line),
           "callback receives (total, min(region.len() - start, count - total), start, region) with region = find_region(cur), start = region.to_region_addr(cur).unwrap(), in this order"
           + ("" if ok else f" — found `{tstr(ct)[:300]}`"))
    if not ok:
        return
    total, cur = env["total"], env["cur"]
    n = ('ok', ct)
    count = ('param', 2, b.local_name(2))
    # ---- total: 0, then checked_add(total, n) only while < count
    tdefs = b.var_defs(total[1])
    init_ok = any(deep_strip(t) == ('const', 0) for _p, t in tdefs)
    upd = [(p, deep_strip(t)) for p, t in tdefs if deep_strip(t) != ('const', 0)]
    upd_ok = False
    if len(upd) == 1:
        p, t = upd[0]
        e = {"total": total}
        if match(OKP(C("num::checked_add", V("total"), V("n"))), t, e) and unref(e["n"]) == unref(n):
            facts = b.facts_at(p)
            upd_ok = any(r[0] == 'cmp' and r[1] == 'Lt' and unref(r[2]) == t and unref(r[3]) == count for r in facts)
    ctx.ob("R3.1.total_update", b.key, init_ok and upd_ok, W,
           f"total starts at 0 [{init_ok}] and is only reassigned to total.checked_add(n) (n = the callback's Ok payload) on the `< count` edge [{upd_ok}]")
    # ---- cur: addr, then overflowing_add(cur, n).0 unless (overflow and value != 0)
    cdefs = b.var_defs(cur[1])
    cinit = any(unref(t)[:2] == ('param', 3) for _p, t in cdefs)
    cupd = [(p, deep_strip(t)) for p, t in cdefs if unref(t)[:2] != ('param', 3)]
    cupd_ok = False
    ovf_term = None
    if len(cupd) == 1:
        p, t = cupd[0]
        srcs = [(p, t)]
        if t[0] == 'var':
            srcs = [(pp, deep_strip(tt)) for pp, tt in b.var_defs(t[1])]
        good = True
        for pp, tt in srcs:
            e = {"cur": cur}
            if not (match(F(C("Address::overflowing_add", V("cur"), V("n")), "0"), tt, e) and unref(e["n"]) == unref(n)):
                good = False
                continue
            ovf_term = unref(tt[1]) if tt[0] == 'field' else None
            facts = b.facts_at(pp)
            zero = any(r[0] == 'cmp' and r[1] == 'Eq' and r[3] == ('const', 0) and any(x == ovf_term for x in subterms(unref(r[2]))) for r in facts)
            noovf = any(r[0] == 'bool' and r[2] is False and unref(r[1]) == ('field', ovf_term, '1') for r in facts)
            if not (zero or noovf):
                good = False
        cupd_ok = good and bool(srcs)
    ctx.ob("R3.1.cur_update", b.key, cinit and cupd_ok, W,
           f"cur starts at addr [{cinit}] and advances by the SAME n via overflowing_add, accepted only when it did not overflow or wrapped exactly to 0 [{cupd_ok}]")
    # ---- returns
    seen = {}
    from .. import outcomes as _oc
    from ..mir import rels_of_bool
    work = []
    for pos, t in b.return_terms():
        td = deep_strip(t)
        facts = list(b.facts_at(pos))
        # a combinator chain returned (or propagated with `?`) is read as its alternatives: `x.checked_add(n).ok_or(E)?` returns Err(E)
        # on the overflow edge; `(total > 0).then_some(total).ok_or(E)` is {total > 0 => Ok(total), else Err(E)}
        chain = error_passthrough(td)
        alts = None
        if chain is not None and deep_strip(chain) != ct and deep_strip(chain)[0] == 'call':
            sub = _oc._combinators(prog, eff, b, pos, chain, 0)
            if all(deep_strip(a[1])[0] == 'agg' for a in sub):
                alts = [a for a in sub if deep_strip(a[1])[2] in ('Err', 'None')]
        elif td[0] == 'call' and td != ct:
            sub = _oc._combinators(prog, eff, b, pos, td, 0)
            if len(sub) > 1 and all(deep_strip(a[1])[0] == 'agg' for a in sub):
                alts = sub
        if alts is None:
            work.append((pos, td, facts))
        else:
            for a in alts:
                fs = list(facts)
                for r in a[2]:
                    fs.extend(rels_of_bool(r[1], r[2]) if r[0] == 'bool' else [r])
                work.append((pos, deep_strip(a[1]), fs))
    for pos, td, facts in work:
        var, v = err_variant(td)
        if td == ct or error_passthrough(td) == ct:
            seen["passthrough"] = True  # `e => return e` / `f(..)?`
            continue
        if var == "CallbackOutOfRange":
            seen[var] = True
        elif var == "GuestAddressOverflow":
            okv = ovf_term is not None and any(r[0] == 'bool' and r[2] is True and unref(r[1]) == ('field', ovf_term, '1') for r in facts) and \
                any(r[0] == 'cmp' and r[1] == 'Ne' and r[3] == ('const', 0) for r in facts)
            seen[var] = okv
        elif var == "InvalidGuestAddress":
            okv = unref(v[3][0])[:2] == ('param', 3) and any(r[0] == 'cmp' and r[1] in ('Eq', 'Le') and unref(r[2]) == total and r[3] == ('const', 0) for r in facts)
            seen[var] = okv
        elif td[0] == 'agg' and td[2] == 'Ok':
            val = unref(td[3][0])
            if val == total:
                if any(r[0] == 'cmp' and r[1] == 'Eq' and unref(r[2]) == unref(n) and r[3] == ('const', 0) for r in facts):
                    seen["ok0"] = True       # callback made no progress
                elif any(r[0] == 'cmp' and r[1] in ('Ne', 'Gt') and unref(r[2]) == total and r[3] == ('const', 0) for r in facts):
                    seen["hole"] = True      # loop ended at a hole after progress
                else:
                    seen["ok_other"] = False
            else:
                e = {"total": total}
                if match(OKP(C("num::checked_add", V("total"), V("n"))), val, e) and any(r[0] == 'cmp' and r[1] == 'Eq' and unref(r[2]) == val and unref(r[3]) == count for r in facts):
                    seen["complete"] = True
                else:
                    seen["ok_other"] = False
        else:
            seen["other:" + tstr(td)[:40]] = False
    need = ("passthrough", "CallbackOutOfRange", "GuestAddressOverflow", "InvalidGuestAddress", "ok0", "hole", "complete")
    ok = all(seen.get(k) for k in need) and all(v is not False for v in seen.values())
    ctx.ob("R3.1.exits", b.key, ok, W,
           f"exits: {seen}; required exactly: callback error passed through; Ok(total) on Ok(0); Ok(sum) iff sum == count; CallbackOutOfRange otherwise; GuestAddressOverflow iff the address "
           "wrapped to non-zero; after the loop InvalidGuestAddress(original addr) iff total == 0 else Ok(total)")


def rule_clients(ctx, prog, eff):
    """R3.2: closures passed to try_access by the blanket Bytes<GuestAddress> impl"""
    impl = [b for b in prog.bodies if b.impl_trait == BYTES and b.kind != "Closure" and "for T" in b.id and "GuestAddress" in b.id]
    by = {b.name: b for b in impl}
    ctx.floor("R3.2.blanket_methods", len(by), 10)

    def ta_call(b, count_pat):
        cs = [c for c in b.calls() if canon(c.target or "").endswith("GuestMemory::try_access")]
        if len(cs) != 1:
            return None, None
        t = deep_strip(b.call_term(cs[0].t, cs[0].pos, 0))
        e = {}
        if match(C("GuestMemory::try_access", P(1), count_pat, ANY, CLO("c")), t, e):
            return t, e
        return t, None

    specs = {
        # name: (count pattern, addr param idx, closure pattern over closure params 2=offset 3=len 4=caddr 5=region; captures lifted to parent params)
        "write": (C("slice::len", P(2)), 3, C("Bytes::write", P(5), C("index", P(2), AGG("RangeFrom", None, P(2))), P(4))),
        "read": (C("slice::len", P(2)), 3, C("Bytes::read", P(5), C("index_mut", P(2), AGG("RangeFrom", None, P(2))), P(4))),
        "read_volatile_from": (P(4), 2, C("Bytes::read_volatile_from", P(5), P(4), P(3), P(3))),
        "write_volatile_to": (P(4), 2, None),
    }
    for nm, (cpat, aidx, clopat) in specs.items():
        b = by.get(nm)
        if not b:
            ctx.ob("R3.2.client", f"blanket::{nm}", False, "", "method body missing")
            continue
        t, e = ta_call(b, cpat)
        ok = e is not None and unref(t[2][2])[:2] == ('param', aidx)
        detail = f"try_access({tstr(t[2][1]) if t else '?'}, {tstr(t[2][2]) if t else '?'}, closure)"
        if ok:
            cb = prog.by_id.get(e["c"][1])
            rts = cb.return_terms()
            ct = deep_strip(rts[0][1]) if len(rts) == 1 else None
            if nm in ("write", "read"):
                # region.write(&buf[offset..], caddr): slice start = closure param 2, region = param 5, addr = param 4; buf is the captured parent buf
                okc = False
                if ct is not None and ct[0] == 'call' and canon(ct[1]).endswith("Bytes::" + nm):
                    a = [unref(x) for x in ct[2]]
                    idx = a[1]
                    okc = a[0][:2] == ('param', 5) and a[2][:2] == ('param', 4) and idx[0] == 'call' and canon(idx[1]).split("::")[-1] in ("index", "index_mut") and \
                        unref(idx[2][1])[0] == 'agg' and str(unref(idx[2][1])[1]).endswith("RangeFrom") and unref(unref(idx[2][1])[3][0])[:2] == ('param', 2)
                    _pb, lifted = eff.lift(cb, idx[2][0])
                    okc = okc and unref(lifted)[:2] == ('param', 2)
                ok = okc
                detail += f"; closure = `{tstr(ct)[:160] if ct else '?'}`; required region.{nm}(&buf[offset..], caddr)"
            elif nm == "read_volatile_from":
                okc = False
                if ct is not None and ct[0] == 'call' and canon(ct[1]).endswith("Bytes::read_volatile_from"):
                    a = [unref(x) for x in ct[2]]
                    _pb, src = eff.lift(cb, a[2])
                    okc = a[0][:2] == ('param', 5) and a[1][:2] == ('param', 4) and a[3][:2] == ('param', 3) and unref(src)[:2] == ('param', 3)
                ok = okc
                detail += f"; closure = `{tstr(ct)[:160] if ct else '?'}`; required region.read_volatile_from(caddr, src, len)"
            else:
                # region.write_all_volatile_to(caddr, dst, len).map(|()| len)   ==   region.write_all_volatile_to(..)?; Ok(len)
                from .. import outcomes
                okc = False
                mv = outcomes.map_view(prog, eff, cb)
                if mv is not None:
                    inner, payload = mv
                    if inner[0] == 'call' and canon(inner[1]).endswith("Bytes::write_all_volatile_to"):
                        a = [unref(x) for x in inner[2]]
                        _pb, dst = eff.lift(cb, a[2])
                        okc = a[0][:2] == ('param', 5) and a[1][:2] == ('param', 4) and a[3][:2] == ('param', 3) and unref(dst)[:2] == ('param', 3)
                        okc = okc and unref(payload)[:2] == ('param', 3)
                ok = okc
                detail += f"; closure = `{tstr(ct)[:200] if ct else '?'}`; required region.write_all_volatile_to(caddr, dst, len).map(|()| len)"
        ctx.ob("R3.2.client", b.key, ok, b.where(), detail)
    # ---- R3.3 all-or-error forms
    exact = {"write_slice": ("write", C("slice::len", P(2))), "read_slice": ("read", C("slice::len", P(2))),
             "read_exact_volatile_from": ("read_volatile_from", P(4)), "write_all_volatile_to": ("write_volatile_to", P(4))}
    for nm, (base, want) in exact.items():
        b = by.get(nm)
        if not b:
            ctx.ob("R3.3.exact_form", f"blanket::{nm}", False, "", "method body missing")
            continue
        cs = [c for c in b.calls() if canon(c.target or "").endswith("Bytes::" + base)]
        ok = False
        detail = f"{len(cs)} calls to {base}"
        if len(cs) == 1:
            from ..checks import producer
            res = deep_strip(b.call_term(cs[0].t, cs[0].pos, 0))
            same_args = all(unref(a)[:2] == ('param', i + 1) for i, a in enumerate(cs[0].args()))
            pb = False
            for pos, t in b.return_terms():
                var, v = err_variant(t)
                if var == "PartialBuffer":
                    f = dict(zip(("expected", "completed"), [unref(x) for x in v[3]]))
                    facts = b.facts_at(pos)
                    ne = False
                    for r in facts:
                        if r[0] == 'cmp' and r[1] == 'Ne':
                            sides = [unref(r[2]), unref(r[3])]
                            ne = ne or (any(s[0] == 'ok' and producer(s) == res for s in sides) and any(match(want, s, {}) for s in sides))
                    pb = match(want, f["expected"], {}) and f["completed"][0] == 'ok' and producer(f["completed"]) == res and ne
            ok = same_args and pb
            detail = f"built on self.{base}(same arguments) [{same_args}]; Err(PartialBuffer {{ expected: requested, completed: returned }}) exactly when returned != requested [{pb}]"
        ctx.ob("R3.3.exact_form", b.key, ok, b.where(), detail)
    # store / load
    for nm in ("store", "load"):
        b = by.get(nm)
        if not b:
            continue
        from ..outcomes import outcome_spec
        ai = 3 if nm == "store" else 2
        TR = C("GuestMemory::to_region_addr", P(1), P(ai))
        fwd = C("Bytes::store", F(OKP(TR), "0"), P(2), F(OKP(TR), "1"), P(4)) if nm == "store" else C("Bytes::load", F(OKP(TR), "0"), F(OKP(TR), "1"), P(3))
        outcome_spec(ctx, prog, eff, "R3.2.atomic_client", b,
                     [(fwd, [('discr', TR, 1)]), (AGG("Result", "Err", AGG("Error", "InvalidGuestAddress", P(ai))), [('discr', TR, 0)])],
                     f"{nm}: to_region_addr(addr) is Some((r, a)) => r.{nm}(.., a, order); None => Err(InvalidGuestAddress(addr))")


def rule_error_map(ctx, prog):
    bs = [b for b in prog.bodies if b.impl_trait == "std::convert::From" and b.name == "from" and b.self_adt == "guest_memory::Error" and "volatile_memory::Error" in b.id]
    if len(bs) != 1:
        ctx.ob("R3.4.error_map", "From<volatile_memory::Error>", False, "", f"{len(bs)} impl bodies")
        return
    b = bs[0]
    src = prog.adts["volatile_memory::Error"]
    names = [v["name"] for v in src["variants"]]
    got = {}
    for pos, t in b.return_terms():
        td = deep_strip(t)
        facts = b.facts_at(pos)
        d = [r[2] for r in facts if r[0] == 'discr' and unref(r[1])[:2] == ('param', 1)]
        if td[0] == 'agg' and d:
            got[names[d[0]]] = td
    want = {"OutOfBounds": "InvalidBackendAddress", "Overflow": "InvalidBackendAddress", "TooBig": "InvalidBackendAddress", "Misaligned": "InvalidBackendAddress",
            "IOError": "IOError", "PartialBuffer": "PartialBuffer"}
    ok = True
    details = []
    for k, v in want.items():
        t = got.get(k)
        if t is None or t[2] != v:
            ok = False
            details.append(f"{k} -> {t[2] if t else 'missing'} (want {v})")
            continue
        if k == "IOError":
            ok = ok and unref(t[3][0]) == ('vfield', ('param', 1, b.local_name(1)), 'IOError', 0)
        if k == "PartialBuffer":
            a = [unref(x) for x in t[3]]
            ok = ok and a[0] == ('vfield', ('param', 1, b.local_name(1)), 'PartialBuffer', 0) and a[1] == ('vfield', ('param', 1, b.local_name(1)), 'PartialBuffer', 1)
    ctx.ob("R3.4.error_map", b.key, ok and len(got) == len(names), b.where(), f"arms: { {k: v[2] for k, v in got.items()} }; PartialBuffer keeps expected/completed name-to-name, IOError payload moved through; {details}")


def rule_region_forwarders(ctx, prog, eff):
    REG = "mmap::GuestRegionMmap"
    n = 0
    for b in prog.find(adt=REG, trait=BYTES):
        n += 1
        nm = b.name
        rt = b.return_terms()
        t = deep_strip(rt[0][1]) if len(rt) == 1 else None
        ok = False
        detail = f"returns `{tstr(t)[:200] if t is not None else '?'}`"
        slice_ = C("Result::unwrap", C("GuestMemoryRegion::as_volatile_slice", P(1)))
        addr = lambda i: ALT(C("Address::raw_value", P(i)), F(P(i), "0"))
        if nm in ("write", "read", "write_slice", "read_slice"):
            ok = t is not None and match(C("Result::map_err", C("Bytes::" + nm, slice_, P(2), addr(3)), FN("Into::into")), t, {})
        elif nm in ("read_volatile_from", "read_exact_volatile_from", "write_volatile_to", "write_all_volatile_to"):
            ok = t is not None and match(C("Result::map_err", C("Bytes::" + nm, slice_, addr(2), P(3), P(4)), FN("Into::into")), t, {})
        elif nm in ("store", "load"):
            # outcome table, whatever the spelling (and_then + closure, `?`, match): as_volatile_slice() fails => that failure; else the
            # region-wide slice's own store / load at addr.raw_value(), its error converted by Into
            from ..outcomes import outcome_spec
            from ..pat import ERRP, VF, OKP
            AVS = C("GuestMemoryRegion::as_volatile_slice", P(1))
            OP = C("Bytes::store", OKP(AVS), P(2), addr(3), P(4)) if nm == "store" else C("Bytes::load", OKP(AVS), addr(2), P(3))
            outcome_spec(ctx, prog, eff, "R3.5.region_forwarder", b,
                         [(AGG("Result", "Ok", OKP(OP)), [('discr', AVS, 0), ('discr', OP, 0)]),
                          (AGG("Result", "Err", C("Into::into", VF(OP, "Err"))), [('discr', AVS, 0), ('discr', OP, 1)]),
                          (ERRP(AVS), [('discr', AVS, 1)])],
                         f"the region-wide slice's own {nm} with addr.raw_value() and the remaining arguments in place; errors handed on")
            continue
        else:
            continue
        ctx.ob("R3.5.region_forwarder", b.key, ok, b.where(), detail + f"; required: the region-wide slice's own {nm} with addr.raw_value() and the remaining arguments in place")
    ctx.floor("R3.5.forwarders", n, 10, MIN=0)


def rule_slice_exact(ctx, prog, rule="R3.6.slice_exact_form"):
    """The slice-level all-or-error stream forms (which the region-level ones forward to, R3.4): the target is the WHOLE range,
    range-checked at once (`get_slice(addr, count)?`), handed to the stream's exact loop - so the transfer succeeds exactly when
    the whole range lies in the slice, whatever chunks the stream delivers (one up-to transfer compared with count instead fails
    on every short read although the range is fully mapped: seed C03-r9). Shared with C14 (R14.3)."""
    n = 0
    SL = "volatile_memory::VolatileSlice"
    for nm, meth in (("read_exact_volatile_from", "ReadVolatile::read_exact_volatile"), ("write_all_volatile_to", "WriteVolatile::write_all_volatile")):
        for b in prog.find(adt=SL, trait="bytes::Bytes", name=nm):
            n += 1
            rt = b.return_terms()
            ok = False
            for _p, t in rt:
                if match(C(meth, P(3), OKP(C("VolatileMemory::get_slice", P(1), P(2), P(4)))), deep_strip(t), {}):
                    ok = True
            ctx.ob(rule, b.key, ok, b.where(), f"{meth.split('::')[-1]}(stream, &get_slice(addr, count)?) — all-or-error target, then the exact loop")
    return n


def run(ctx, progs):
    for cfg, prog in progs.items():
        ctx.config = cfg
        eff = effects.Effects(prog)
        rule_try_access(ctx, prog, eff)
        rule_clients(ctx, prog, eff)
        rule_error_map(ctx, prog)
        rule_region_forwarders(ctx, prog, eff)
        n = rule_slice_exact(ctx, prog)
        ctx.floor("R3.6.slice_exact_forms", n, 2)
    ctx.not_decided = [
        "'what was written is what is later read back', 'changes no other byte', order of bytes: data flow through memory (reduces to C01 + C04 + these protocol clauses on paper, not as a computed verdict)",
    ]
    return ctx.finish(
        "other",
        "Term-level protocol checks on the resolved MIR of try_access (callback argument roles, total/cur updates from the same completed count n, exit table from the branch facts "
        "that dominate each return) and of its eight clients in the blanket Bytes<GuestAddress> impl (closure parameter roles, all-or-error forms with PartialBuffer{expected, completed}), "
        "the exhaustive error-mapping table, and in-place forwarding of the ten region-level methods. These are necessary conditions of the flat-array reading for every layout, address "
        "and length; byte contents are not decided.",
        TRUSTED, "./check C03")
