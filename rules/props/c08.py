"""C08 — no dirty mark is lost when marking races with harvesting.

Given the memory model (RMWs on one atomic object are totally ordered, each reads its predecessor):
if every writer of a bitmap word reachable through `&self` is ONE read-modify-write that is the
identity on all other bits, and the harvester is ONE RMW-to-zero whose *return value* is what is
reported, then a set bit can only disappear into a harvest result or through an explicit reset,
and no harvest reports an unset bit — for every schedule.
"""
import re

from ..mir import deep_strip, tstr, strip_generics, canon, subterms, is_call
from .. import fixtures

CONFIGS = ("FULL", "XEN")
TRUSTED = [
    "C++/Rust atomics: RMW operations on one atomic object are totally ordered and each reads the value written by its predecessor",
    "Vec<AtomicU64> indexing returns the word at that index",
    "rustc nightly MIR construction and Instance resolution",
]

ATOMIC = re.compile(r"^(std|core)::sync::atomic::Atomic(?:::<[a-z0-9]+>|U64|Usize|U32)?::(\w+)$")
BITMAP = "bitmap::backend::atomic_bitmap::AtomicBitmap"
RMW_SET = {"fetch_or"}
RMW_CLEAR = {"fetch_and"}
RMW_OTHER = {"swap", "fetch_xor", "fetch_nand", "fetch_add", "fetch_sub", "fetch_max", "fetch_min",
             "compare_exchange", "compare_exchange_weak", "compare_and_swap", "fetch_update"}


def const_val(t):
    t = deep_strip(t)
    return t[1] if t[0] == 'const' else None


def bit_mask(t):
    """t == 1 << (n & 63)  (or 1 << (n % 64))  -> n, else None"""
    t = deep_strip(t)
    if t[0] == 'bin' and t[1] in ('Shl', 'ShlUnchecked') and const_val(t[2]) == 1:
        sh = deep_strip(t[3])
        if sh[0] == 'bin' and ((sh[1] == 'BitAnd' and const_val(sh[3]) == 63) or (sh[1] == 'Rem' and const_val(sh[3]) == 64)):
            return deep_strip(sh[2])
    return None


def word_index(t):
    """t == n >> 6 (or n / 64) -> n"""
    t = deep_strip(t)
    if t[0] == 'bin' and ((t[1] in ('Shr', 'ShrUnchecked') and const_val(t[3]) == 6) or (t[1] == 'Div' and const_val(t[3]) == 64)):
        return deep_strip(t[2])
    return None


def receiver_index(t, field):
    """receiver term of an atomic op: Index::index(&self.<field>, idx) -> idx term, else None"""
    t = deep_strip(t)
    while t[0] in ('ref', 'deref'):
        t = t[1]
    if is_call(t, 'Index::index', 'IndexMut::index_mut') or (t[0] == 'call' and canon(t[1]).endswith('::index')):
        base = deep_strip(t[2][0])
        while base[0] in ('ref', 'deref'):
            base = base[1]
        if base[0] == 'field' and base[2] == field:
            return deep_strip(t[2][1])
    if t[0] == 'index':
        return deep_strip(t[2])
    return None


def atomic_sites(prog, adt):
    """all atomic-method call sites in bodies belonging to `adt` (methods and their closures)"""
    out = []
    owners = [b for b in prog.bodies if b.self_adt == adt or (b.kind == 'Closure' and prog.by_id.get(b.root) and prog.by_id[b.root].self_adt == adt)]
    for b in owners:
        for c in b.calls():
            m = ATOMIC.match(c.callee or "")
            if m:
                out.append((b, c, m.group(2)))
    return owners, out


def rule_words(rep, prog, adt, field, reset_names=("reset",)):
    """R8.1–R8.3 over the atomic words of `adt.field`. rep(rule, instance, ok, where, detail)"""
    owners, sites = atomic_sites(prog, adt)
    counts = {"load": 0, "rmw": 0, "harvest": 0, "store": 0}
    for b, c, op in sites:
        root = prog.by_id.get(b.root, b)
        inst = f"{strip_generics(b.id)}:{op}"
        if op in ("new", "default", "from", "fmt", "as_ptr", "from_ptr"):
            continue
        if op in ("get_mut", "into_inner"):
            continue  # need &mut / ownership: exclusive by the borrow checker
        if op == "load":
            counts["load"] += 1
            rep("R8.1.load", inst, True, c.where(), "plain load (query / clone)")
            continue
        if op == "store":
            counts["store"] += 1
            ok = root.name in reset_names and const_val(c.arg(1)) == 0
            rep("R8.1.store", inst, ok, c.where(),
                f"store({tstr(c.arg(1))}) in {root.name}: a plain store overwrites concurrent marks; only the documented non-harvesting reset() may store(0)")
            continue
        if op in RMW_SET:
            counts["rmw"] += 1
            n1 = bit_mask(c.arg(1))
            n0 = receiver_index(c.arg(0), field)
            w = word_index(n0) if n0 is not None else None
            ok = n1 is not None and w is not None and n1 == w
            rep("R8.2.setter", inst, ok, c.where(),
                f"fetch_or(mask={tstr(deep_strip(c.arg(1)))}) on word [{tstr(n0) if n0 is not None else '?'}]: must be 1 << (n & 63) on word n >> 6 for the same n")
            # load -> RMW window
            dep = any(is_call(s, 'load') and ATOMIC.match(s[1] or "") for s in subterms(deep_strip(c.arg(1))))
            rep("R8.1.no_load_window", inst, not dep, c.where(), "RMW operand must not depend on a prior load of a word")
            continue
        if op in RMW_CLEAR:
            arg = deep_strip(c.arg(1))
            if const_val(arg) == 0:
                # harvester: returned value must be the value reported
                counts["harvest"] += 1
                rts = b.return_terms()
                this = deep_strip(b.call_term(c.t, c.pos, 0))
                ok = (len(rts) == 1 and deep_strip(rts[0][1]) == this) or _pushed_unmodified(b, this) or _reported_as_component(b, c, this)
                rep("R8.3.harvest", inst, ok, c.where(),
                    "fetch_and(0): the RMW's own return value must be what the enclosing body returns (or a component of it), unmodified "
                    f"(returns {tstr(deep_strip(rts[0][1])) if len(rts) == 1 else 'multi'})")
                continue
            counts["rmw"] += 1
            n1 = bit_mask(arg[2]) if arg[0] == 'un' and arg[1] == 'Not' else None
            n0 = receiver_index(c.arg(0), field)
            w = word_index(n0) if n0 is not None else None
            ok = n1 is not None and w is not None and n1 == w
            rep("R8.2.clearer", inst, ok, c.where(),
                f"fetch_and(mask={tstr(arg)}) on word [{tstr(n0) if n0 is not None else '?'}]: must be !(1 << (n & 63)) on word n >> 6 — the complement of a single-bit mask preserves all other bits")
            continue
        if op == "swap" and const_val(c.arg(1)) == 0:
            counts["harvest"] += 1
            rts = b.return_terms()
            this = deep_strip(b.call_term(c.t, c.pos, 0))
            ok = (len(rts) == 1 and deep_strip(rts[0][1]) == this) or _pushed_unmodified(b, this) or _reported_as_component(b, c, this)
            rep("R8.3.harvest", inst, ok, c.where(), "swap(0): return value must be reported unmodified")
            continue
        rep("R8.1.unrecognised", inst, False, c.where(), f"atomic operation `{op}` on a bitmap word is not one of load / single-bit fetch_or / single-bit fetch_and / fetch_and(0) / reset's store(0)")
    return owners, counts


def rule_field_census(rep, prog, adt, field):
    """only bodies of `adt` itself may touch `adt.field`; &mut access only in &mut self methods"""
    n = 0
    for b in prog.bodies:
        touches = False
        for pos, s in b.stmts():
            if s["k"] != "assign":
                continue
            for pl in _places(s):
                for e in pl.get("p", []):
                    if isinstance(e, dict) and e.get("adt") == adt and e.get("name") == field:
                        touches = True
                        if s["rv"]["k"] in ("ref", "rawptr") and s["rv"].get("mut") and s["rv"]["pl"] is pl:
                            root = prog.by_id.get(b.root, b)
                            sig = root.j.get("sig", "")
                            rep("R8.4.mut_access", strip_generics(b.id), re.search(r"fn\(&('\w+ )?mut ", sig) is not None, b.where(s["ln"]),
                                f"&mut borrow of {adt}.{field} requires a &mut self receiver (sig: {sig})")
        if touches:
            n += 1
            root = prog.by_id.get(b.root, b)
            rep("R8.4.owner", strip_generics(b.id), root.self_adt == adt, b.where(), f"only methods of {adt} may touch its words")
    return n


def _reported_as_component(b, c, this):
    """every return of the body that the RMW dominates hands the RMW's own value on, unmodified, as the returned value or as a
    component of the returned aggregate (`Some((index, word))`, a tuple, a struct); returns the RMW does not dominate (a path that
    skipped the word) cleared nothing and owe nothing"""
    from ..pat import unref

    def carries(t, depth=0):
        t = unref(t)
        if t == this:
            return True
        if depth < 4 and t[0] == 'agg':
            return any(carries(x, depth + 1) for x in t[3])
        return False
    rts = b.return_terms()
    owed = [(p, t) for p, t in rts if b.pos_dominates(c.pos, p)]
    return bool(owed) and all(carries(t) for _p, t in owed)


def _pushed_unmodified(b, this):
    """loop form of the harvester: `out.push(word.fetch_and(0))` with `out` the vector the function returns — the RMW's
    own value goes into the result unmodified (same as the closure of `.map(|w| w.fetch_and(0)).collect()` returning it)"""
    from ..pat import unref
    rts = b.return_terms()
    if len(rts) != 1:
        return False
    ret = unref(rts[0][1])
    if not is_call(ret, "Vec::with_capacity", "Vec::new"):
        return False
    pushes = [c for c in b.calls() if canon(c.target or "").endswith("Vec::push")]
    return len(pushes) == 1 and unref(pushes[0].arg(0)) == ret and deep_strip(pushes[0].arg(1)) == this


def _places(s):
    out = [s["lhs"]]
    rv = s["rv"]
    if "pl" in rv:
        out.append(rv["pl"])
    for k in ("op", "a", "b"):
        o = rv.get(k)
        if isinstance(o, dict) and "pl" in o:
            out.append(o["pl"])
    for o in rv.get("ops", []):
        if "pl" in o:
            out.append(o["pl"])
    return out


def run(ctx, progs):
    for cfg, prog in progs.items():
        ctx.config = cfg
        owners, counts = rule_words(ctx.ob, prog, BITMAP, "map")
        ctx.floor("R8.owners", len(owners), 15)
        ctx.floor("R8.1.load", counts["load"], 2)
        ctx.floor("R8.2.rmw", counts["rmw"], 4)
        ctx.floor("R8.3.harvest", counts["harvest"], 1)
        ctx.floor("R8.1.store", counts["store"], 1)
        n = rule_field_census(ctx.ob, prog, BITMAP, "map")
        ctx.floor("R8.4.field_users", n, 8)
        # forwarders never touch words themselves: BaseSlice / AtomicBitmapArc contain no atomic op
        for adt in ("bitmap::backend::slice::BaseSlice", "bitmap::backend::atomic_bitmap_arc::AtomicBitmapArc"):
            _o, sites = atomic_sites(prog, adt)
            ctx.ob("R8.4.forwarders", adt, len(sites) == 0, "", f"{len(sites)} atomic operations in forwarder type (expected none)")
    ctx.config = "fixture"
    fixtures.expect(ctx, "c08", lambda rep, fx: (rule_words(rep, fx, "bad_bitmap::BadBitmap", "map"),
                                                  rule_field_census(rep, fx, "bad_bitmap::BadBitmap", "map")),
                    {"R8.1.store", "R8.1.no_load_window", "R8.3.harvest", "R8.2.clearer", "R8.2.setter", "R8.1.unrecognised"})
    ctx.not_decided = ["memory orderings of marks relative to the data writes they cover (not part of the property; reported only)"]
    return ctx.finish(
        "proof",
        "All atomic operations on the words of AtomicBitmap are enumerated from the resolved MIR (effect discovery by callee). Each is shown to be "
        "a load, a single-bit fetch_or / fetch_and(!bit) on the word n>>6 with mask from the same n, the harvesting fetch_and(0) whose own return "
        "value is returned, or reset()'s documented store(0); no RMW operand depends on a prior load; no other body touches the words. With the "
        "atomics' RMW total order this implies the property for every interleaving — which a test can only sample.",
        TRUSTED, "./check C08")
