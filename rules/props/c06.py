"""C06 — aligned 1/2/4/8-byte guest accesses are never torn.

Decides that the access SEQUENCE the code issues for a transfer of <= 8 bytes is built only from single
volatile accesses whose width is justified by the alignment of BOTH addresses, that every <= 8-byte buffer /
object route at all three layers ends in that routine, and that the atomic route forwards the ordering.
Whether one volatile machine-width access becomes one instruction is the compiler's contract (trusted);
what a concurrent observer sees is not computed.
"""
import re

from ..mir import deep_strip, tstr, strip_generics, canon, subterms, is_call
from .. import effects, tracking
from ..pat import P, K, V, C, F, AGG, OKP, BIN, CLO, TUP, FN, ANY, ALT, match, closure_ret, unref

CONFIGS = ("FULL", "XEN")
THOROUGH_CONFIGS = ("MIN",)
TRUSTED = [
    "codegen: a volatile read/write of a machine-width integer at an aligned address is one access",
    "core: ptr::read_volatile / write_volatile, cmp::min; atomics' load/store honour the Ordering passed",
    "rustc nightly MIR construction and Instance resolution; primitive layouts reported by the compiler",
]
WIDTH = {"u8": 1, "u16": 2, "u32": 4, "u64": 8, "u128": 16, "usize": 8, "i8": 1, "i16": 2, "i32": 4, "i64": 8}
BYTES = "bytes::Bytes"


def lowbit(t):
    """t == x & (!x + 1) | x & x.wrapping_neg() | 1 << x.trailing_zeros()   -> x"""
    t = deep_strip(t)
    if t[0] == 'bin' and t[1] == 'BitAnd':
        x = deep_strip(t[2])
        y = deep_strip(t[3])
        if y[0] == 'field' and y[2] == '0':
            y = deep_strip(y[1])
        if y[0] == 'bin' and y[1].startswith("Add") and deep_strip(y[3]) == ('const', 1):
            nx = deep_strip(y[2])
            if nx[0] == 'un' and nx[1] == 'Not' and deep_strip(nx[2]) == x:
                return x
        if y[0] == 'call' and canon(y[1]).endswith("wrapping_neg") and deep_strip(y[2][0]) == x:
            return x
    if t[0] == 'bin' and t[1].startswith("Shl") and deep_strip(t[2]) == ('const', 1):
        y = deep_strip(t[3])
        if y[0] == 'call' and canon(y[1]).endswith("trailing_zeros"):
            return deep_strip(y[2][0])
    return None


def _is_view(t, depth=0):
    """t is the guest buffer handed to a stream method (its 2nd parameter) or a view derived from it (offset / subslice / clone / `?`)"""
    t = unref(t)
    if depth > 8:
        return False
    if t[:2] == ('param', 2):
        return True
    if t[0] in ('ok', 'vfield'):
        return _is_view(t[1], depth + 1)
    if t[0] == 'call' and t[2] and canon(t[1]).split("::")[-1] in ("offset", "subslice", "clone", "deref", "branch", "split_at", "as_volatile_slice", "to_slice", "borrow"):
        return _is_view(t[2][0], depth + 1)
    return False


class _Collect:
    """obligations of one evaluation of the stepping rules (on the inlined or on the as-written program)"""
    def __init__(self):
        self.obs, self.floors = [], []

    def ob(self, rule, inst, ok, where="", detail=""):
        self.obs.append((rule, inst, bool(ok), where, detail))
        return ok

    def floor(self, *a, **k):
        self.floors.append((a, k))

    def good(self):
        return bool(self.obs) and all(o[2] for o in self.obs)


def stepping_rules(OB, prog, eff, prim):
    # ------------------------------------------------------------ find the width-switching routine by effect
    cands = []
    for b in prog.bodies:
        if b.kind == "Promoted":
            continue
        sw = [(pos, t) for pos, t in b.terms() if t["k"] == "switch" and len(t["targets"]) >= 3 and prog.types[t["discr_ty"]]["s"] == "usize"]
        rv = [c for c in b.calls() if canon(c.target or "").endswith("ptr::read_volatile")]
        if sw and len(rv) >= 3:
            cands.append((b, sw[0]))
    OB.floor("R6.1.width_routine", len(cands), 1)
    single = None
    for b, (pos, sw) in cands:
        single = b
        arms_ok = True
        widths = []
        for v, tgt in sw["targets"]:
            reads = [c for c in b.calls() if canon(c.target or "").endswith("ptr::read_volatile") and (c.bb == tgt or b.node_dominates(tgt, c.bb))]
            writes = [c for c in b.calls() if canon(c.target or "").endswith("ptr::write_volatile") and b.node_dominates(tgt, c.bb)]
            ok = len(reads) == 1 and len(writes) == 1
            d = f"{len(reads)} volatile read(s), {len(writes)} volatile write(s)"
            if ok:
                rt = reads[0].callee_args()[0].s if reads[0].callee_args() else "?"
                wt = writes[0].callee_args()[0].s if writes[0].callee_args() else "?"
                rsz, wsz = prim.get(rt), prim.get(wt)
                val = unref(writes[0].args()[1])
                feeds = val == deep_strip(b.call_term(reads[0].t, reads[0].pos, 0))
                src_ok = unref(reads[0].args()[0])[:2] == ('param', 2)
                dst_ok = unref(writes[0].args()[0])[:2] == ('param', 3)
                if not (src_ok and dst_ok):
                    # the width routine merged into the stepping pass: the pointers are the pass's own cursors — the two values that are
                    # advanced by `add` in this same body, the read through one of them and the write through the other
                    curs = [unref(x.args()[0]) for x in b.calls() if re.search(r"(const_ptr|mut_ptr)::add$", canon(x.target or ""))]
                    rp, wp = unref(reads[0].args()[0]), unref(writes[0].args()[0])
                    if len(curs) == 2 and rp in curs and wp in curs and rp != wp:
                        src_ok = dst_ok = True
                ok = rsz == v and wsz == v and feeds and src_ok and dst_ok
                d = f"read_volatile::<{rt}> (size {rsz}) -> write_volatile::<{wt}> (size {wsz}); value read is the value written [{feeds}]; src/dst are the routine's pointers [{src_ok and dst_ok}]"
            widths.append(v)
            OB.ob("R6.1.width_arm", f"{b.key}|arm {v}", ok, b.where(), d + f"; arm value {v} must equal the access width")
            arms_ok = arms_ok and ok
        other = b.blocks[sw["otherwise"]]["term"]
        OB.ob("R6.1.default_diverges", b.key, other["k"] == "call" and other.get("t") is None, b.where(), "any other width must diverge (unreachable!)")
        OB.ob("R6.1.arm_set", b.key, sorted(widths) == [1, 2, 4, 8], b.where(), f"arms {sorted(widths)} (need 1, 2, 4, 8)")
        n_mem = len([c for c in b.calls() if effects.prim_of(c)])
        OB.ob("R6.1.nothing_else", b.key, n_mem == 2 * len(widths), b.where(), f"{n_mem} memory primitives for {len(widths)} arms: one read + one write per arm, nothing else touches memory")
    if single is None:
        return
    # ------------------------------------------------------------ stepping loop: the caller of the width routine

    def _merged(x):
        return any(re.search(r"(const_ptr|mut_ptr)::add$", canon(y.target or "")) for y in x.calls()) and \
            any(t_["k"] == "assert" and t_["msg"] == "Overflow:Sub" for _p, t_ in x.terms())
    # the routine that is actually used: the one that is called, or the stepping pass that contains the width switch itself (a width
    # routine left behind uncalled is dead code and was judged on its own above)
    live = [b_ for b_, _x in cands if _merged(b_) or any(c.target == b_.id for pb in prog.bodies for c in pb.calls())]
    if live:
        single = live[0]
    callers = [(b, c) for b in prog.bodies for c in b.calls() if c.target == single.id]
    merged = _merged(single)
    if not callers or merged:
        # `copy_single` merged into its only caller: the body that switches on the width is the stepping pass itself; the "call" is the
        # switch, the width its discriminant
        spos, ssw = [x for b_, x in cands if b_ is single][0]
        wterm = single.term(ssw["discr"], spos)

        class _Here:
            pos = spos
            line = ssw.get("ln")

            @staticmethod
            def args():
                return [wterm]
        if any(re.search(r"(const_ptr|mut_ptr)::add$", canon(x.target or "")) for x in single.calls()):
            callers = [(single, _Here)]
    OB.floor("R6.2.step_sites", len(callers), 1)
    stepper = None
    for b, c in callers:
        stepper = b
        a = [unref(x) for x in c.args()]
        w = a[0]
        # stride and decrement use the same width value
        subs = [(pos, t) for pos, t in b.terms() if t["k"] == "assert" and t["msg"] == "Overflow:Sub"]
        dec_ok = any(unref(b.term(t["ops"][1], pos)) == w for pos, t in subs)
        adds = [x for x in b.calls() if re.search(r"(const_ptr|mut_ptr)::add$", canon(x.target or ""))]
        stride_ok = len(adds) == 2 and all(unref(x.args()[1]) == w for x in adds)
        OB.ob("R6.2.width_stride_agree", b.key, dec_ok and stride_ok and w[0] == 'param', b.where(c.line),
               f"width passed `{tstr(w)}` == amount subtracted from the remaining count [{dec_ok}] == stride added to both pointers [{stride_ok}]")
        facts = b.facts_at(c.pos)
        # gate: !(align < w)  and  left >= w
        _pb, al = eff.lift(b, ('deref', ('field', ('deref', ('param', 1, None)), '0')))
        gate = [r for r in facts if r[0] == 'cmp' and r[1] == 'Ge' and unref(r[3]) == w]
        gate_ok = len(gate) >= 2
        OB.ob("R6.3.gate", b.key, gate_ok, b.where(c.line),
               f"access of width w only when align >= w and left >= w: dominating facts {[tstr(r[2])[:30] + ' Ge ' + tstr(r[3]) for r in gate]}")
    # align = min(lowbit(src), lowbit(dst)) in the parent
    parent = prog.by_id.get(stepper.root) if stepper is not None and stepper.kind == "Closure" else stepper
    fn_sites = []
    if stepper is not None and stepper.kind != "Closure":
        # the stepping pass written as a FUNCTION (free, nested or a method) that receives the alignment, the width and the copy state
        # and hands the advanced state back: its caller is the routine, its call sites are the passes
        fn_sites = [(b, c) for b in prog.bodies for c in b.calls() if c.target == stepper.id and b is not stepper]
        if fn_sites and len({b.id for b, _c in fn_sites}) == 1:
            parent = fn_sites[0][0]
    if parent is not None:
        env = eff.closure_env(stepper) if stepper.kind == "Closure" else None
        al = unref(env[1][0]) if env else None
        if fn_sites and parent is not stepper:
            # alignment = the parameter of the pass function that is compared with the width and is not the remaining count
            b0, c0 = callers[-1]
            w0 = unref(c0.args()[0])
            subs0 = [unref(b0.term(t["ops"][0], pos)) for pos, t in b0.terms() if t["k"] == "assert" and t["msg"] == "Overflow:Sub" and unref(b0.term(t["ops"][1], pos)) == w0]
            gl = [unref(r[2]) for r in b0.facts_at(c0.pos) if r[0] == 'cmp' and r[1] == 'Ge' and unref(r[3]) == w0]
            cand = [g for g in gl if g[0] == 'param' and g not in subs0]
            al = None
            if len({g[:2] for g in cand}) == 1:
                pa = cand[0][1]
                vals = {repr(unref(c.args()[pa - 1])) for _b, c in fn_sites if pa - 1 < len(c.args())}
                if len(vals) == 1:
                    al = unref(fn_sites[0][1].args()[pa - 1])
            # the state each pass receives is the state the previous pass handed back (or the same `&mut` state object)
            pw = w0[1] if w0[0] == 'param' else None
            ordered = sorted(fn_sites, key=lambda bc: bc[1].pos)
            thr_ok = pw is not None
            prev = None
            def borrowed_state(c_):
                """locals M such that an argument of the call is `&mut M` (a state object handed to every pass by mutable reference)"""
                out = set()
                for i, a_ in enumerate(c_.t["args"]):
                    if i + 1 in (pw, cand[0][1] if cand else -1) or "pl" not in a_ or a_["pl"].get("p"):
                        continue
                    l_ = a_["pl"]["l"]
                    for _hop in range(4):
                        ds = parent.defs(l_)
                        if not (len(ds) == 1 and ds[0][1] == "rv" and ds[0][2]["k"] == "ref" and ds[0][2].get("mut")):
                            break
                        pl_ = ds[0][2]["pl"]
                        if not pl_.get("p"):
                            out.add(pl_["l"])
                            break
                        if pl_.get("p") == ["*"]:
                            l_ = pl_["l"]      # a reborrow `&mut *r`: follow r
                            continue
                        break
                return out
            for _b, c in ordered:
                st = [unref(x) for i, x in enumerate(c.args()) if i + 1 not in (pw, cand[0][1] if cand else -1)]
                if prev is not None and borrowed_state(c) and borrowed_state(c) == borrowed_state(prev) and len(st) == len(borrowed_state(c)):
                    # every state argument is `&mut` of the same local(s) as in the previous pass (one state object, or the cursors and the
                    # remaining count handed over one by one)
                    prev = c
                    continue
                if prev is not None:
                    pt = deep_strip(parent.call_term(prev.t, prev.pos, 0))

                    def derives(t, depth=0):
                        t = unref(t)
                        if any(x == pt for x in subterms(t)):
                            return True
                        if depth < 3:
                            for x in subterms(t):
                                if x[0] == 'var':
                                    try:
                                        ds = parent.var_defs(x[1])
                                    except Exception:
                                        ds = []
                                    if any(derives(d_, depth + 1) for _p, d_ in ds):
                                        return True
                        return False
                    same_obj = [x for x in st if x[0] in ('var', 'param') or (x[0] == 'ref')]
                    thr_ok = thr_ok and bool(st) and all(derives(x) or (x in [unref(y) for y in prev.args()] and x[0] != 'param' and not any(z[0] == 'param' for z in subterms(x))) for x in st)
                prev = c
            OB.ob("R6.2.state_threaded", parent.key, thr_ok, parent.where(),
                  f"{len(ordered)} passes of `{stepper.key.split('::')[-1]}`: each later pass receives the state the previous pass returned (or the same state object) [{thr_ok}]")
        ok = False
        d = f"align capture `{tstr(al) if al else '?'}`"
        if al is not None and is_call(al, "cmp::min"):
            xs = [unref(x) for x in al[2]]
            roots = []
            for x in xs:
                if x[0] == 'call' and x[1] in prog.by_id:
                    g = prog.by_id[x[1]]
                    rt = g.return_terms()
                    lb = lowbit(rt[0][1]) if len(rt) == 1 else None
                    OB.ob("R6.6.lowbit_idiom", g.key, lb is not None and lb[:2] == ('param', 1), g.where(),
                           f"alignment() returns `{tstr(deep_strip(rt[0][1])) if rt else '?'}`: must be the largest power of two dividing the address (x & (!x + 1) and equivalents)")
                    roots.append(unref(x[2][0]))
            ok = len(roots) == 2 and {r[:2] for r in roots} == {('param', 1), ('param', 2)}
            d += f"; alignment roots {[tstr(r) for r in roots]}"
        OB.ob("R6.3.both_pointers", parent.key, ok, parent.where(), d + " — BOTH pointers must feed the min")
        # R6.4 descending widths
        seq = []
        for c in parent.calls():
            if fn_sites and parent is not stepper:
                if c.target == stepper.id:
                    wv = unref(c.args()[pw - 1]) if pw and pw - 1 < len(c.args()) else ('x',)
                    if wv[0] == 'const':
                        seq.append((c.pos, wv[1]))
                continue
            if c.t.get("resolved") == stepper.id or (canon(c.target or "").endswith("FnMut::call_mut") and stepper.kind == "Closure"):
                a = unref(c.args()[1])
                if a[0] == 'agg' and len(a[3]) == 1 and unref(a[3][0])[0] == 'const':
                    seq.append((c.pos, unref(a[3][0])[1]))
        # every pass on EVERY path, in this order: each pass dominates the next one and the last one dominates every exit
        # (a pass moved into an `else` / behind a target-width test would leave 4-byte transfers to two 2-byte accesses)
        # the 8-byte pass may sit behind a test of the target's word size (`size_of::<usize>() > 4`) and nothing else
        narrow = [(p_, v) for p_, v in seq if v <= 4]
        chain_ok = all(parent.pos_dominates(narrow[i][0], narrow[i + 1][0]) for i in range(len(narrow) - 1))
        def word_test_holds_on_64bit(r):
            """r compares size_of::<usize>() with a constant: the comparison must be TRUE for 8 (the pass runs where the word is 8 bytes)
            and FALSE for 4 (found by negating `if size_of::<usize>() > 4`: the 8-byte pass then never ran on a 64-bit target)"""
            a_, c_ = unref(r[2]), unref(r[3])
            op = r[1]
            if a_[0] == 'const' and is_call(c_, "size_of"):
                a_, c_ = c_, a_
                op = {"Lt": "Gt", "Gt": "Lt", "Le": "Ge", "Ge": "Le", "Eq": "Eq", "Ne": "Ne"}[op]
            if not (is_call(a_, "size_of") and c_[0] == 'const' and isinstance(c_[1], int)):
                return None
            f = {"Gt": lambda x, k: x > k, "Ge": lambda x, k: x >= k, "Lt": lambda x, k: x < k, "Le": lambda x, k: x <= k,
                 "Eq": lambda x, k: x == k, "Ne": lambda x, k: x != k}[op]
            return f(8, c_[1]) and not f(4, c_[1])
        word_dir_ok = True
        for p_, v in seq:
            if v > 4:
                for r in parent.facts_at(p_):
                    if r[0] == 'cmp' and any(is_call(unref(x), "size_of") for x in (r[2], r[3])) and any(unref(x)[0] == 'const' for x in (r[2], r[3])):
                        if word_test_holds_on_64bit(r) is False:
                            word_dir_ok = False
                # conditions under which the pass is SKIPPED (a branch with a real alternative); what an assertion established in front
                # of it is a precondition of the routine, not a guard of the pass
                guards = [r for r in parent.skip_facts_at(p_) if not (r[0] == 'cmp' and any(is_call(unref(x), "size_of") for x in (r[2], r[3])) and
                                                                       any(unref(x)[0] == 'const' for x in (r[2], r[3])))]
                chain_ok = chain_ok and not guards and bool(narrow) and narrow[0][0][0] in parent.reachable(p_[0]) and p_[0] not in parent.reachable(narrow[0][0][0])
        exits_ok = bool(seq) and all(parent.node_dominates(seq[-1][0][0], x) for x in parent.exits())
        order_ok = [v for _p, v in seq] == [8, 4, 2, 1] and chain_ok and exits_ok and word_dir_ok
        OB.ob("R6.4.descending_widths", parent.key, order_ok, parent.where(),
               f"widths tried in order {[v for _p, v in seq]} (must be 8, 4, 2, 1), each pass unconditional: dominates the next [{chain_ok}], the last dominates every exit [{exits_ok}]; "
               f"the word-size test in front of the 8-byte pass holds for an 8-byte word and not for a 4-byte one [{word_dir_ok}]")
        rts = parent.return_terms()
        # R6.5 routing
        routers = [(b, c) for b in prog.bodies for c in b.calls() if c.target == parent.id]
        for b, c in routers:
            facts = b.facts_at(c.pos)
            def word(x):
                # the threshold is the machine word (the widest access the ladder can make): size_of::<usize>() — a narrower
                # type would send aligned 8-byte transfers to memcpy
                x = unref(x)
                return is_call(x, "size_of") and len(x) > 3 and tuple(x[3]) in (("usize",), ("u64",), ("isize",), ("i64",))
            ok = any(r[0] == 'cmp' and r[1] == 'Le' and unref(r[2])[:2] == ('param', 3) and word(r[3]) for r in facts)
            bulk = [x for x in b.calls() if re.search(r"ptr::copy(_nonoverlapping)?$", canon(x.target or ""))]
            bulk_ok = all(any(r[0] == 'cmp' and r[1] == 'Gt' and unref(r[2])[:2] == ('param', 3) and word(r[3]) for r in b.facts_at(x.pos)) for x in bulk) and bool(bulk)
            OB.ob("R6.5.routing", b.key, ok and bulk_ok, b.where(c.line),
                   f"total <= size_of::<usize>() (non-strict) routes to the volatile routine [{ok}]; the bulk copy only for total > size_of::<usize>() [{bulk_ok}]")


def run(ctx, progs):
    for cfg, prog in progs.items():
        ctx.config = cfg
        eff = effects.Effects(prog)
        prim = {p["ty"]: p["size"] for p in prog.j["prim_layouts"]}
        # ------------------------------------------------------------ the width routine and the stepping loop (R6.1 – R6.6)
        # decided on the program in its inlining normal form and, if that does not recognise the routine (e.g. the stepping closure
        # was turned into a function that threads its state through a tuple or struct), on the program as written; each view is a
        # sufficient argument on its own
        A = _Collect()
        stepping_rules(A, prog, eff, prim)
        chosen = A
        if not A.good():
            p0 = prog.pristine()
            B0 = _Collect()
            try:
                stepping_rules(B0, p0, effects.Effects(p0), prim)
            except Exception as ex:      # noqa: fail closed on the first view's verdict
                B0.obs.append(("R6.1.width_routine", "as-written view", False, "", f"not evaluable: {ex}"))
            if B0.good():
                chosen = B0
        for a, k in chosen.floors:
            ctx.floor(*a, **k)
        for rule, inst, ok, where, detail in chosen.obs:
            ctx.ob(rule, inst, ok, where, detail + ("" if chosen is A else " [decided on the program as written, before inlining]"))
        # ------------------------------------------------------------ R6.7 containment of the small-object routes
        other_prims = set()
        for role in ("dst", "src"):
            sites, raw, host, problems = tracking.accesses(prog, eff, role)
            for s in sites:
                if not s["body"].key.startswith("volatile_memory::copy_slice_impl::"):
                    other_prims.add(s["body"].id)
        n = 0
        for nm in ("read", "write", "read_slice", "write_slice"):
            for b in prog.find(trait=BYTES, name=nm):
                n += 1
                seen, parent_map = prog.reach([b.id])
                bad = [x for x in seen if x in other_prims]
                hit = any(strip_generics(x).endswith("copy_slice_impl::copy_slice") for x in seen)
                ctx.ob("R6.7.route", b.key, hit and not bad, b.where(),
                       (f"reaches copy_slice [{hit}]" + (f"; but also reaches other guest-memory primitives: {[strip_generics(x) for x in bad][:3]} (packed / bulk access may tear)" if bad else "; no other primitive reachable")))
        for nm in ("read_obj", "write_obj"):
            for b in prog.find(in_trait=BYTES, name=nm):
                n += 1
                seen, _pm = prog.reach([b.id])
                bad = [x for x in seen if x in other_prims]
                ctx.ob("R6.7.route", b.key, not bad and any(strip_generics(x).endswith("copy_slice_impl::copy_slice") for x in seen), b.where(), "object route funnels into copy_slice only")
        ctx.floor("R6.7.routes", n, 14, MIN=6)
        # ------------------------------------------------------------ R6.8 atomic route forwards the ordering
        k = 0
        for b in prog.bodies:
            if b.impl_trait == "atomic_integer::AtomicInteger" and b.name in ("load", "store"):
                k += 1
                rt = b.return_terms()
                cs = [c for c in b.calls() if re.search(r"sync::atomic::Atomic.*::" + b.name + "$", canon(c.target or ""))]
                ok = len(cs) == 1 and all(unref(a)[:2] == ('param', i + 1) for i, a in enumerate(cs[0].args()))
                ctx.ob("R6.8.atomic_forward", b.key, ok, b.where(), f"forwards (self, [val,] order) unchanged to the std atomic's {b.name}")
        ctx.floor("R6.8.atomic_impls", k, 20)
        # the atomic route refuses misaligned ADDRESSES: the reference-producing sink behind Bytes::store/load is dominated by a
        # successful alignment check of the slice's own address for the same T (rule shared with C01 R1.5)
        from . import c01

        def rep68(rule, instance, ok, where="", detail="", key=None):
            if "get_atomic_ref" in instance or rule == "R1.5.alignment_mask":
                return ctx.ob(rule.replace("R1.5", "R6.8.atomic"), instance, ok, where, detail)
            return ok
        c01.rule_references(rep68, prog, eff)
        for nm in ("store", "load"):
            for b in prog.find(adt="volatile_memory::VolatileSlice", trait=BYTES, name=nm):
                # the access may sit in the function itself (`let r = get_atomic_ref(..)?; r.store(..)`) or in a closure of it
                # (`get_atomic_ref(..).map(|r| r.store(..))`): one source-level function either way
                sites = [(fb, c) for fb in prog.family(b) for c in fb.calls() if canon(c.callee or "").endswith("AtomicInteger::" + nm)]
                ok = False
                if len(sites) == 1:
                    cb, c0 = sites[0]
                    _pb, o = eff.lift(cb, c0.args()[-1])
                    ok = unref(o)[:2] == ('param', 4 if nm == "store" else 3)
                ctx.ob("R6.8.order_passed", b.key, ok, b.where(), "the caller's `order` reaches AtomicInteger::" + nm + " unchanged")
        # ------------------------------------------------------------ R6.9 a single-shot stream method moves its guest buffer in ONE transfer
        # `read_volatile` / `write_volatile` of a stream adapter receive one guest buffer; if the adapter hands two pieces of it to
        # two transfers on the same path (e.g. "overwrite part" + "append part"), an aligned 2/4/8-byte guest access is issued as two
        # narrower ones. On every path at most one call may receive (a view of) the buffer.
        GETTERS = re.compile(r"VolatileSlice::(len|is_empty|offset|subslice|split_at|ptr_guard|ptr_guard_mut|bitmap|clone)$|Clone::clone$|Deref::deref$|Try::branch$|"
                             r"VolatileMemory::(len|is_empty)$|Result::|Option::|From::from$|FromResidual::from_residual$")
        n9 = 0
        for b in prog.bodies:
            if b.impl_trait not in ("io::ReadVolatile", "io::WriteVolatile") or b.name not in ("read_volatile", "write_volatile"):
                continue
            n9 += 1
            xfers = []
            for fb in prog.family(b):
                for c in fb.calls():
                    cn = canon(c.target or c.callee or "")
                    if GETTERS.search(cn):
                        continue
                    args = [eff.in_parent(fb, a)[1] if fb is not b else a for a in c.args()]
                    if any(_is_view(a) for a in args):
                        xfers.append((fb, c, cn))
            twice = [(x, y) for i, x in enumerate(xfers) for y in xfers[i + 1:]
                     if x[0] is y[0] and (y[1].bb in x[0].reachable(x[1].bb) or x[1].bb in x[0].reachable(y[1].bb)) and x[1].bb != y[1].bb]
            twice += [(x, y) for i, x in enumerate(xfers) for y in xfers[i + 1:] if x[0] is y[0] and x[1].bb == y[1].bb]
            ctx.ob("R6.9.single_transfer", b.key, not twice, b.where(),
                   f"{len(xfers)} call(s) receive the guest buffer: {[x[2].split('::')[-1] for x in xfers]}; "
                   + ("no path performs two of them" if not twice else
                      f"`{twice[0][0][2].split('::')[-1]}` and `{twice[0][1][2].split('::')[-1]}` lie on one path: one guest buffer is moved in two transfers (an aligned access may be torn)"))
        ctx.floor("R6.9.single_shot_methods", n9, 8, MIN=5)
        # ------------------------------------------------------------ R6.10 element loops never run over byte elements
        # a per-element loop of volatile accesses (VolatileArrayRef::copy_to / copy_from and the like) issues one access per element; for
        # 1-byte elements that would turn an aligned 2/4/8-byte transfer into single-byte accesses. Every such loop must therefore be
        # reachable only when size_of::<T>() != 1 — byte arrays of ANY length take the width routine.
        n10 = 0
        for b in prog.bodies:
            if b.kind == "Promoted" or b.key.startswith("volatile_memory::copy_slice_impl::"):
                continue
            loop_blocks = set()
            hdrs = {}
            for (u, v) in b.loops():
                hdrs.setdefault(v, []).append(u)
            for h, ls in hdrs.items():
                loop_blocks |= {h} | {x for x in b.live_blocks() if x != h and any(u in b.reachable(x, removed_nodes=(h,)) for u in ls)}
            for c in b.calls():
                cn = canon(c.target or "")
                if not (cn.endswith("ptr::read_volatile") or cn.endswith("ptr::write_volatile")) or c.bb not in loop_blocks:
                    continue
                targs = [a.s for a in c.callee_args()] if c.callee_args() else []
                if not targs or not re.search(r"\bT\b", targs[0]):
                    continue
                n10 += 1
                fs = b.facts_at(c.pos)
                ok = any(r[0] == 'cmp' and ((r[1] == 'Ne' and {is_call(unref(r[2]), "size_of"), is_call(unref(r[3]), "size_of")} == {True, False} and ('const', 1) in (unref(r[2]), unref(r[3])))
                                            or (r[1] in ('Gt', 'Ge') and is_call(unref(r[2]), "size_of") and unref(r[3])[0] == 'const' and unref(r[3])[1] >= (1 if r[1] == 'Gt' else 2))) for r in fs)
                ctx.ob("R6.10.no_byte_element_loop", f"{b.key}|{cn.split('::')[-1]}", ok, c.where(),
                       f"per-element volatile access of `{targs[0]}` inside a loop: dominated by size_of::<T>() != 1 [{ok}] (1-byte elements must always go through the width routine, whatever the length)")
        ctx.floor("R6.10.element_loops", n10, 2, MIN=2)
    ctx.not_decided = ["what a concurrent observer sees (schedules)", "codegen: one volatile access => one instruction"]
    return ctx.finish(
        "other",
        "Structural rules on the resolved MIR: the width-switching routine (found by effect) has exactly one read_volatile::<U> feeding one write_volatile::<U> per arm with "
        "size_of::<U> equal to the arm value and a diverging default; the stepping loop passes the same width as stride and decrement and is gated by align >= w and left >= w, "
        "where align = min(lowbit(src), lowbit(dst)) over BOTH pointers; widths are tried 8,4,2,1; totals <= size_of::<usize>() are routed to it (non-strict); every buffer/object "
        "route at all three layers reaches only that primitive; atomic impls forward the ordering. The finite case table (length 0..8 x alignment class) follows from these on paper; "
        "schedules and codegen are not decided.",
        TRUSTED, "./check C06")
