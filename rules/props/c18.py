"""C18 — zero-length accesses are successful no-ops at every layer.

R18.1 every implementation of Bytes::{read, write} in the crate either tests the buffer for emptiness and
      returns Ok(0) on that edge before any fallible step, memory primitive or dirty mark, or forwards
      unconditionally (only tabled-infallible steps in between) to another Bytes::{read,write} that does;
      read_slice/write_slice are built on those and compare with buf.len() (so 0 == 0 succeeds);
R18.2 the exact stream loops run `while !buf.is_empty()` (zero iterations for an empty target);
R18.3 no division / remainder / offset_from whose divisor or pointee size is size_of::<T>() for a generic
      T: ByteValued (the crate itself provides zero-sized instances) unless size_of::<T>() != 0 dominates.
"""
import re

from ..mir import deep_strip, tstr, strip_generics, canon, subterms, is_call
from .. import effects, fixtures

CONFIGS = ("FULL", "XEN")
THOROUGH_CONFIGS = ("MIN",)
TRUSTED = [
    "tabled-infallible steps between layers: Address::raw_value, GuestMemoryRegion::as_volatile_slice().unwrap() (C07 table, C01 R1.3)",
    "rustc nightly MIR construction and Instance resolution",
]
BYTES = "bytes::Bytes"
INFALLIBLE = re.compile(r"(Address::raw_value|GuestMemoryRegion::as_volatile_slice|VolatileMemory::as_volatile_slice|Result::unwrap|Result::map_err|Into::into|From::from|slice::len|slice::is_empty|Deref::deref)$")


def is_buf_empty_test(t, buf_idx):
    """term is `is_empty(buf)` or `len(buf) == 0` -> polarity True means 'empty when true'"""
    t = deep_strip(t)
    if t[0] == 'call' and canon(t[1]).endswith("slice::is_empty"):
        a = effects.base_of(t[2][0])
        return a[0] == 'param' and a[1] == buf_idx
    return False


def empties_first(prog, b, buf_idx=2):
    """(ok, detail): the body starts by testing the buffer for emptiness; the empty edge returns Ok(0)
    with no call in between; nothing but is_empty/len is called before the test."""
    # walk from entry along unconditional edges until the first switch
    bb = 0
    calls_before = []
    seen = set()
    while True:
        if bb in seen:
            return False, "loop before any emptiness test"
        seen.add(bb)
        t = b.blocks[bb]["term"]
        if t["k"] == "call":
            calls_before.append(canon(t.get("resolved") or t.get("callee") or "?"))
            if t.get("t") is None:
                return False, "diverges"
            bb = t["t"]
            continue
        if t["k"] == "goto":
            bb = t["t"]
            continue
        break
    t = b.blocks[bb]["term"]
    if t["k"] != "switch":
        return False, f"no branch at all; calls on the straight path: {[c.split('::')[-1] for c in calls_before]}"
    cond = b.term(t["discr"], (bb, len(b.blocks[bb]["stmts"])))
    extra = [c for c in calls_before if not (c.endswith("slice::is_empty") or c.endswith("slice::len"))]
    if extra:
        return False, f"calls before the first branch: {[c.split('::')[-1] for c in extra]}"
    c = deep_strip(cond)
    empty_target = None
    if is_buf_empty_test(c, buf_idx):
        for v, tgt in t["targets"]:
            if v == 0:
                nonempty = tgt
        empty_target = t["otherwise"] if [v for v, _ in t["targets"]] == [0] else None
    elif c[0] == 'bin' and c[1] in ('Eq', 'Ne') and deep_strip(c[3]) == ('const', 0) and is_call(deep_strip(c[2]), 'slice::len') and effects.base_of(deep_strip(c[2])[2][0])[:2] == ('param', buf_idx):
        vals = dict((v, tg) for v, tg in t["targets"])
        if c[1] == 'Eq':
            empty_target = t["otherwise"] if 0 in vals else None
        else:
            empty_target = vals.get(0)
    if empty_target is None:
        return False, f"first branch tests `{tstr(c)}`, not the emptiness of the buffer"
    # empty edge: straight to return, no calls, returns Ok(0)
    bb2 = empty_target
    hops = 0
    while hops < 10:
        hops += 1
        tt = b.blocks[bb2]["term"]
        if tt["k"] == "goto":
            bb2 = tt["t"]
            continue
        break
    tt = b.blocks[bb2]["term"]
    if tt["k"] not in ("return", "drop"):
        return False, f"the empty edge does not return directly (next terminator {tt['k']} {tt.get('callee', '')})"
    # value assigned to _0 on that edge
    okv = False
    for pos, term in b.return_terms():
        if pos[0] == empty_target or b.node_dominates(empty_target, pos[0]):
            r = deep_strip(term)
            okv = r[0] == 'agg' and r[2] == 'Ok' and deep_strip(r[3][0]) == ('const', 0)
    return okv, "tests buf.is_empty() first and returns Ok(0) on that edge with no call in between" if okv else "the empty edge does not return Ok(0)"


_PLUMBING = re.compile(r"(slice::is_empty|slice::len|Try::branch|FromResidual::from_residual|From::from|Into::into)$")


def buffer_emptiness(facts, buf_idx=2):
    """True / False when the dominating facts say the buffer parameter is empty / non-empty, however that was tested: is_empty(),
    a comparison of len() with 0 or 1, or a `match buf.len() { 0 => .. }`; None when they say neither"""
    SW = {"Lt": "Gt", "Le": "Ge", "Gt": "Lt", "Ge": "Le", "Eq": "Eq", "Ne": "Ne"}
    for r in facts:
        if r[0] == 'bool' and is_call(deep_strip(r[1]), 'slice::is_empty') and effects.base_of(deep_strip(r[1])[2][0])[:2] == ('param', buf_idx):
            return r[2]
        if r[0] == 'cmp':
            for op, a, c in ((r[1], deep_strip(r[2]), deep_strip(r[3])), (SW[r[1]], deep_strip(r[3]), deep_strip(r[2]))):
                if is_call(a, 'slice::len') and effects.base_of(a[2][0])[:2] == ('param', buf_idx) and c[0] == 'const' and c[1] in (0, 1):
                    v = {("Eq", 0): True, ("Le", 0): True, ("Lt", 1): True, ("Ne", 0): False, ("Gt", 0): False, ("Ge", 1): False}.get((op, c[1]))
                    if v is not None:
                        return v
    return None


def empties_by_facts(prog, b, buf_idx=2):
    """Form-independent reading of "an empty buffer is a successful no-op": Ok(0) is returned on a path where the buffer is known
    to be empty, and every other return and every call that is not pure plumbing happens only where it is known to be non-empty
    (facts include those carried through the result of an inlined helper)."""
    def e_fact(facts):
        return buffer_emptiness(facts, buf_idx)
    ok0 = False
    bad = []
    for pos, term in b.return_terms():
        r = deep_strip(term)
        e = e_fact(b.facts_at(pos))
        if r[0] == 'agg' and r[2] == 'Ok' and deep_strip(r[3][0]) == ('const', 0) and e is True:
            ok0 = True
        elif e is not False:
            bad.append(f"return `{tstr(r)[:60]}` not confined to a non-empty buffer")
    for c in b.calls():
        cn = canon(c.target or "")
        if _PLUMBING.search(cn):
            continue
        if e_fact(b.facts_at(c.pos)) is not False:
            bad.append(f"call {cn.split('::')[-1]} reachable with an empty buffer")
    if ok0 and not bad:
        return True, "returns Ok(0) where the buffer is known to be empty; every other return and every non-plumbing call is confined to a non-empty buffer"
    return False, ("no Ok(0) return on the empty path" if not ok0 else "; ".join(sorted(set(bad))[:3]))


def forwards(prog, b, names, buf_idx=2):
    """(ok, target callsite, detail): straight-line body whose only fallible-looking steps are tabled-infallible
    and which forwards buf to a Bytes::<name>"""
    live = b.live_blocks()
    fw = None
    others = []
    for c in b.calls():
        cn = canon(c.target or "")
        if c.t.get("trait") == BYTES or (c.t.get("callee_impl_trait") == BYTES) or cn.startswith(BYTES + "::"):
            if cn.split("::")[-1] in names:
                fw = c
                continue
        others.append(cn)
    if fw is None:
        return False, None, f"no forwarding call to Bytes::{'/'.join(names)}"
    bad = [o for o in others if not INFALLIBLE.search(o)]
    has_branch_before = False
    for bb in live:
        t = b.blocks[bb]["term"]
        if t["k"] == "switch" and b.pos_dominates((bb, 0), fw.pos) and not b.node_dominates(fw.bb, bb):
            has_branch_before = True
    bufarg = [effects.base_of(a) for a in fw.args()]
    passes_buf = any(a[:2] == ('param', buf_idx) for a in bufarg)
    ok = not bad and not has_branch_before and passes_buf
    return ok, fw, (f"forwards buf unconditionally to {canon(fw.target)} (other calls: {sorted(set(o.split('::')[-1] for o in others))})" if ok else
                    f"not an unconditional forward: fallible/unknown calls {sorted(set(bad))}, branch before forward={has_branch_before}, passes buf={passes_buf}")


def rule_empty_first(rep, prog):
    impls = {}
    for nm in ("read", "write"):
        for b in prog.find(trait=BYTES, name=nm):
            impls[b.id] = b
    n = 0
    verdict = {}
    for bid, b in impls.items():
        ok, detail = empties_first(prog, b)
        if not ok:
            ok2, detail2 = empties_by_facts(prog, b)
            if ok2:
                ok, detail = ok2, detail2
        if ok:
            verdict[bid] = (True, detail)
            continue
        fok, fw, fdetail = forwards(prog, b, ("read", "write"))
        if fok:
            verdict[bid] = ("fw", fw, fdetail)
        else:
            verdict[bid] = (False, detail + "; " + fdetail)
    for bid, b in impls.items():
        n += 1
        v = verdict[bid]
        if v[0] is True:
            rep("R18.1.empty_ok", b.key, True, b.where(), v[1])
        elif v[0] == "fw":
            tgt = v[1].t.get("resolved")
            tv = verdict.get(tgt)
            ok = tv is not None and tv[0] is True
            rep("R18.1.empty_ok", b.key, ok, b.where(), v[2] + ("; target tests emptiness first" if ok else f"; but the target `{tgt or canon(v[1].target)}` is not an implementation known to return Ok(0) for an empty buffer"))
        else:
            rep("R18.1.empty_ok", b.key, False, b.where(),
                "an empty buffer can reach a fallible step or an error return: " + v[1] +
                " — the Bytes contract requires Ok(0) for an empty buffer even if the address is out of range")
    # *_slice are built on read/write and compare with buf.len()
    for nm, base in (("read_slice", "read"), ("write_slice", "write")):
        for b in prog.find(trait=BYTES, name=nm):
            n += 1
            cs = [c for c in b.calls() if canon(c.target or "").split("::")[-1] == base and (c.t.get("trait") == BYTES or c.t.get("callee_impl_trait") == BYTES)]
            fok, fw, fdetail = forwards(prog, b, (nm,))
            if cs:
                c = cs[0]
                # the comparison of the returned count with len(buf)
                cmp_ok = False
                for bb, ct, edges in b.branch_facts():
                    cc = deep_strip(ct)
                    if cc[0] == 'bin' and cc[1] in ('Ne', 'Eq'):
                        sides = [deep_strip(cc[2]), deep_strip(cc[3])]
                        has_len = any(is_call(s, 'slice::len') and effects.base_of(s[2][0])[:2] == ('param', 2) for s in sides)
                        has_res = any(any(x == deep_strip(b.call_term(c.t, c.pos, 0)) for x in subterms(s)) for s in sides)
                        cmp_ok = cmp_ok or (has_len and has_res)
                rep("R18.1.slice_form", b.key, cmp_ok, b.where(), f"built on self.{base}(buf, addr) and compares the count with buf.len(): {cmp_ok}")
            elif fok:
                rep("R18.1.slice_form", b.key, True, b.where(), fdetail)
            else:
                rep("R18.1.slice_form", b.key, False, b.where(), f"neither built on {base} + length comparison nor an unconditional forward: {fdetail}")
    return n


def rule_exact_loops(rep, prog):
    n = 0
    for tr, nm in (("io::ReadVolatile", "read_exact_volatile"), ("io::WriteVolatile", "write_all_volatile")):
        for b in prog.find(in_trait=tr, name=nm):
            n += 1
            ok = False
            for bb, ct, edges in b.branch_facts():
                c = deep_strip(ct)
                if is_call(c, "VolatileSlice::is_empty"):
                    # the loop is left on the `true` edge; the header dominates the retried call
                    ok = any(canon(x.target or "").endswith("::" + ("read_volatile" if "Read" in tr else "write_volatile")) and b.node_dominates(bb, x.bb) for x in b.calls())
            rep("R18.2.exact_loop", b.key, ok, b.where(), "`while !partial_buf.is_empty()` dominates the stream call: zero iterations for an empty target")
    return n


def rule_zst(rep, prog):
    """R18.3"""
    n = 0
    zst_impls = [im for im in prog.trait_impls("bytes::ByteValued") if re.search(r"; 0\]$", prog.types[im["self_ty"]]["s"])]
    for b in prog.bodies:
        if b.j.get("impl_derived"):
            continue
        for pos, t in b.terms():
            div = None
            what = None
            if t["k"] == "assert" and t["msg"] in ("DivisionByZero", "RemainderByZero"):
                c = deep_strip(b.term(t["cond"], pos))
                if c[0] == 'bin' and c[1] == 'Eq':
                    div = deep_strip(c[2])
                    what = t["msg"]
            elif t["k"] == "call":
                cn = canon(t.get("resolved") or t.get("callee") or "")
                if re.search(r"(const_ptr|mut_ptr)::(offset_from|offset_from_unsigned|sub_ptr)$", cn):
                    tys = [prog.types[a]["s"] for a in t.get("callee_args", [])]
                    generic = [x for x in tys if re.search(r"\b[A-Z]\b", x)]
                    if generic:
                        div = ('call', 'core::mem::size_of', (), ("T",))
                        what = f"offset_from on *{generic[0]}"
                elif re.search(r"num::(div_ceil|next_multiple_of)$|slice::(chunks|chunks_exact|windows)$", cn):
                    d = deep_strip(b.term(t["args"][1], pos))
                    if d[0] == 'call' and canon(d[1]).split("::")[-1] == "size_of":
                        div = d
                        what = cn.split("::")[-1]
            if div is None:
                continue
            if not (div[0] == 'call' and canon(div[1]).split("::")[-1] == "size_of"):
                continue
            tys = div[3] if len(div) > 3 else ()
            if tys and not any(re.fullmatch(r"[A-Z]\w{0,2}|Self", x) or "::" not in x and x[0].isupper() for x in tys):
                continue  # concrete type
            n += 1
            facts = b.facts_at(pos)
            guarded = any(r[0] == 'cmp' and canon(str(r[2][1])) .split("::")[-1] == "size_of" and r[2][0] == 'call' and
                          ((r[1] == 'Ne' and r[3] == ('const', 0)) or (r[1] == 'Eq' and r[3][0] == 'const' and r[3][1] not in (0,)) or (r[1] in ('Gt', 'Ge') and r[3][0] == 'const' and r[3][1] >= 1 and r[1] == 'Ge' or r[1] == 'Gt'))
                          for r in facts if r[0] == 'cmp' and isinstance(r[2], tuple) and r[2][0] == 'call')
            rep("R18.3.zst_guard", f"{b.key}|{what}", guarded, b.where(t.get("ln")),
                f"{what} by size_of::<T>() with T: ByteValued generic; the crate provides {len(zst_impls)} zero-sized ByteValued types; " +
                ("size_of::<T>() != 0 dominates" if guarded else "no dominating size_of::<T>() != 0 test: panics for a zero-sized element type"))
    return n, len(zst_impls)


LEN_CARRIERS = re.compile(r"(Bitmap::mark_dirty|AtomicBitmap::(set_addr_range|set_reset_addr_range))$")
BIT_MUTATORS = re.compile(r"(AtomicBitmap::(set_bit|reset_bit|reset_addr_range)|atomic::Atomic\w*::(fetch_\w+|store|swap|compare_exchange\w*|compare_and_swap))$")


def rule_mark_entries(rep, prog):
    """R18.4.mark_entry: several zero-count routes call mark_dirty(_, 0) unconditionally, so every implementation of
    Bitmap::mark_dirty must be a no-op for len == 0. The range routine is (form rule R9.3); an implementation that reaches a
    bit mutator by any other way - a single-page fast path calling set_bit, an RMW of its own - must do so only where len != 0 is
    known, and whatever it hands to a length-carrying routine (set_addr_range, an inner mark_dirty) is its own `len`."""
    from ..bounds import Bounds
    n = 0
    for b in prog.bodies:
        if b.impl_trait != "bitmap::Bitmap" or b.name != "mark_dirty" or b.j.get("impl_derived"):
            continue
        bodies = [b] + list(prog.closures_of(b))
        for cb in bodies:
            for c in cb.calls():
                cn = canon(c.target or "")
                if LEN_CARRIERS.search(cn):
                    n += 1
                    a = [deep_strip(x) for x in c.args()]
                    last = a[-1] if a else ('?',)
                    ok = cb is b and last[0] == 'param' and len(last) > 2 and last[2] == 'len'
                    if not ok and cb is b:
                        ok = Bounds(b.facts_at(c.pos)).nonzero(('param', 3, 'len'))
                    rep("R18.4.mark_entry", f"{b.key}|{cn.split('::')[-1]}", ok, c.where(),
                        f"hands {tstr(last)} on as the length; required: its own `len` (so that a zero-length mark stays one down to the range routine), or len != 0 known here")
                elif BIT_MUTATORS.search(cn):
                    n += 1
                    ok = cb is b and Bounds(b.facts_at(c.pos)).nonzero(('param', 3, 'len'))
                    rep("R18.4.mark_entry", f"{b.key}|{cn.split('::')[-1]}", ok, c.where(),
                        f"{cn.split('::')[-1]} reached from a mark_dirty implementation outside the range routine" +
                        ("; len != 0 dominates" if ok else " with len == 0 possible: mark_dirty(offset, 0) - issued by every zero-count stream transfer and copy of nothing - sets a page"))
    return n


def run(ctx, progs):
    for cfg, prog in progs.items():
        ctx.config = cfg
        n = rule_empty_first(ctx.ob, prog)
        ctx.floor("R18.1.impls", n, 10 if cfg != "MIN" else 4)
        n = rule_exact_loops(ctx.ob, prog)
        ctx.floor("R18.2.loops", n, 2)
        # R18.4: several zero-count routes call mark_dirty(_, 0) unconditionally (stream forms, copies of nothing):
        # the bitmap must treat len == 0 as a no-op before computing any page (form rule shared with C09 R9.3)
        if "bitmap::backend::atomic_bitmap::AtomicBitmap" in prog.adts:
            from . import c09
            c09.rule_range_form(ctx.ob, prog)
            n = rule_mark_entries(ctx.ob, prog)
            ctx.floor("R18.4.mark_entries", n, 4)
        n, z = rule_zst(ctx.ob, prog)
        # a census of hazards (divisions by / pointer differences over size_of::<T>()): fewer of them is not a lost anchor; that the
        # census still sees both kinds is what the fixture's positive control shows on every run
        ctx.floor("R18.3.sites", n, 1)
        ctx.floor("R18.3.zst_types", z, 12)
    ctx.config = "fixture"
    fired = fixtures.expect(ctx, "c18", lambda rep, fx: rule_zst(rep, fx), {"R18.3.zst_guard"})
    kinds = {("offset_from" if "offset_from" in i else "division") for i in fired.get("R18.3.zst_guard", [])}
    ctx.ob("fixture.positive_control", "c18:R18.3.zst_guard.kinds", kinds == {"offset_from", "division"}, "/verif/fixtures/src",
           f"the hazard census sees both kinds of hazard on the fixture (unguarded division by, and pointer difference over, size_of::<T>()): {sorted(kinds)}")
    ctx.not_decided = ["Xen on-demand behaviour of a zero-length mapping request (device)"]
    return ctx.finish(
        "other",
        "Dominance check, recursive over delegation, on every Bytes::read/write implementation of the crate (slice, region, blanket guest-memory impl): "
        "the empty-buffer edge must return Ok(0) before any fallible step, memory primitive or mark, or the body must forward unconditionally to an "
        "implementation that does; *_slice forms compare with buf.len(); exact loops are while-not-empty; every division/offset_from by size_of::<T>() "
        "for generic T: ByteValued must be dominated by size_of::<T>() != 0 (the impl table proves zero-sized instances exist). Structural, for all "
        "addresses including unmapped ones — tests sample a few.",
        TRUSTED, "./check C18")
