"""C04 — every accessor of a volatile container moves exactly the bytes it names.

Decides (a) every copy site caps its length with min(requested, available) over BOTH sides and returns the
capped count; (b) 'start at or past the end with >= 1 byte => error' has the right strictness; (c) each route
funnels into the same small set of primitives with agreeing pointer/length operands (who-may-touch table);
(d) the width table of the small-copy primitive is self-consistent (shared with C06); (e) object routes are
built on the slice routes over the same object. Byte order / untouched neighbours / value agreement between
routes are value-level and not decided.
"""
import re
from .. import loops
from ..bounds import norm

from ..mir import deep_strip, tstr, strip_generics, canon, subterms, is_call
from .. import effects, tracking
from ..checks import producer
from ..pat import P, K, V, C, F, AGG, OKP, BIN, CLO, TUP, FN, ANY, ALT, match, closure_ret, unref

CONFIGS = ("FULL", "XEN")
THOROUGH_CONFIGS = ("MIN",)
TRUSTED = [
    "core::ptr::copy / copy_nonoverlapping / read_volatile / write_volatile move exactly the bytes they are given, in the stated direction",
    "C01 (containment), C06 (width table)",
    "rustc nightly MIR construction and Instance resolution",
]
BYTES = "bytes::Bytes"
SL = "volatile_memory::VolatileSlice"
ARR = "volatile_memory::VolatileArrayRef"
HELPERS = ("copy_slice_impl::copy_from_volatile_slice", "copy_slice_impl::copy_to_volatile_slice")

# who may touch container memory (function-key regex -> reason); discovered sites must all be listed
MAY_TOUCH = [
    (r"^volatile_memory::copy_slice_impl::", "the byte-copy helpers"),
    (r"^volatile_memory::VolatileRef::(load|store)$", "single packed volatile access of a T"),
    (r"^volatile_memory::VolatileArrayRef::(copy_to|copy_from)$", "element loops (T-sized volatile accesses)"),
    (r"^volatile_memory::Volatile(Slice|ArrayRef)::copy_to_volatile_slice$", "slice-to-slice ptr::copy"),
    (r"^io::(read|write)_volatile_raw_fd$", "descriptor I/O straight into / out of the slice"),
    (r"Bytes<usize>>::(store|load)$", "atomic access through get_atomic_ref"),
]


def guest_len_of(eff, t):
    """len term of a guest accessor expression (after getter inlining): X.size"""
    return eff.inline(('call', 'volatile_memory::VolatileSlice::<\'a, B>::len', (t,), ()))


def run(ctx, progs):
    for cfg, prog in progs.items():
        ctx.config = cfg
        eff = effects.Effects(prog)
        # ------------------------------------------------------------ R4.1 start bound strictness
        for nm in ("read", "write"):
            for b in prog.find(adt=SL, trait=BYTES, name=nm):
                errs = []
                for pos, t in b.return_terms():
                    td = deep_strip(t)
                    if td[0] == 'agg' and td[2] == 'Err':
                        v = unref(td[3][0])
                        if v[0] == 'agg' and v[2] == 'OutOfBounds':
                            facts = b.facts_at(pos)
                            ge = any(r[0] == 'cmp' and r[1] == 'Ge' and unref(r[2])[:2] == ('param', 3) and match(F(P(1), "size"), r[3], {}) for r in facts)
                            from .c18 import buffer_emptiness
                            nonempty = buffer_emptiness(facts, 2) is False
                            errs.append(ge and nonempty)
                ctx.ob("R4.1.start_bound", b.key, errs == [True], b.where(), "Err(OutOfBounds) exactly when addr >= self.size (POS >= LEN, non-strict) and only for a non-empty buffer")
                # a literal Ok(0) reports that nothing was moved: right only where the buffer is known to be empty
                from .c18 import buffer_emptiness
                zeros = [(pos, buffer_emptiness(b.facts_at(pos), 2)) for pos, t in b.return_terms()
                         if deep_strip(t)[0] == 'agg' and deep_strip(t)[2] == 'Ok' and unref(deep_strip(t)[3][0]) == ('const', 0)]
                ctx.ob("R4.1.zero_only_when_empty", b.key, all(e is True for _p, e in zeros), b.where(),
                       f"{len(zeros)} literal Ok(0) return(s), each where the buffer is known to be empty: {[e for _p, e in zeros]} — for a non-empty request "
                       "the count is what the transfer reports")
                # the transfer itself: buf.{read,write}_volatile(&self.offset(addr)?)
                meth = "ReadVolatile::read_volatile" if nm == "write" else "WriteVolatile::write_volatile"
                ok = False
                for pos, t in b.return_terms():
                    if match(C(meth, P(2), OKP(C("VolatileSlice::offset", P(1), P(3)))), deep_strip(t), {}):
                        ok = True
                ctx.ob("R4.1.transfer", b.key, ok, b.where(), f"then buf.{meth.split('::')[-1]}(&self.offset(addr)?): the remaining slice from addr, capped by the adapter (C13 R13.1)")
        # ------------------------------------------------------------ R4.2 copy sites cap with min over both sides
        n_sites = 0
        for b in prog.bodies:
            if b.kind == "Promoted" or b.key.startswith("volatile_memory::copy_slice_impl::"):
                continue
            for c in b.calls():
                cn = canon(c.target or "")
                if not any(cn.endswith(h) for h in HELPERS):
                    continue
                n_sites += 1
                a = [unref(x) for x in c.args()]
                if cn.endswith("copy_from_volatile_slice"):
                    host, guest, total = a[0], a[1], a[2]
                else:
                    guest, host, total = a[0], a[1], a[2]
                inst = f"{b.key}|{cn.split('::')[-1]}"
                glen = eff.inline(('call', "volatile_memory::VolatileSlice::len", (guest,), ()))
                # host buffer: slice::as_ptr(X) / as_mut_ptr(X) [+ add]
                hb = host
                vec_append = False
                if hb[0] == 'call' and re.search(r"mut_ptr::add$", canon(hb[1])):
                    vec_append = True
                    hb = unref(hb[2][0])
                hx = unref(hb[2][0]) if hb[0] == 'call' and canon(hb[1]).split("::")[-1] in ("as_ptr", "as_mut_ptr") else None
                tot = eff.inline(total)
                ok = False
                d = f"count `{tstr(tot)}`"
                if is_call(tot, "cmp::min"):
                    xs = [eff.inline(x) for x in tot[2]]
                    has_guest = any(self_len_of(x, guest, eff) for x in xs)
                    has_host = hx is not None and any(is_call(x, "slice::len") and unref(x[2][0]) == hx for x in xs)
                    ok = has_guest and has_host
                    d += f": min over the guest slice's length [{has_guest}] and the host buffer's length [{has_host}]"
                elif vec_append:
                    # Vec adapter: destination was reserved for exactly `count` = guest length (C13 R13.2)
                    ok = self_len_of(tot, guest, eff) and any(canon(x.target or "").endswith("Vec::reserve") and b.pos_dominates(x.pos, c.pos) for x in b.calls())
                    d += ": whole guest slice into freshly reserved Vec capacity (C13 R13.2)"
                ctx.ob("R4.2.capped_count", inst, ok, c.where(), d)
                # unit rule: the helpers count BYTES. A host buffer &[T] / &mut [T] contributes an ELEMENT count,
                # which is a byte count only where size_of::<T>() == 1 is known (dominating fact) or T is u8/i8.
                if hx is not None and hx[0] == 'param':
                    hty = b.local_ty(hx[1]).peel()
                    el = hty.inner().s if hty.k == 'slice' and hty.inner() is not None else None
                    if el is not None and el not in ("u8", "i8"):
                        facts = b.facts_at(c.pos)
                        one = any(r[0] == 'cmp' and r[1] == 'Eq' and is_call(unref(r[2]), "size_of") and unref(r[2])[3] == (el,) and r[3] == ('const', 1) for r in facts)
                        ctx.ob("R4.2.byte_route_unit", inst, one, c.where(),
                               f"host buffer is a slice of `{el}`: its len() is an element count, used here as a byte count; only sound behind `size_of::<{el}>() == 1`"
                               + ("" if one else " — no such dominating test (an `align_of`/other test does not bound the element size): copies and returns the wrong amount for wider elements"))
        ctx.floor("R4.2.copy_sites", n_sites, 7)
        # slice-to-slice copies
        for adt in (SL, ARR):
            for b in prog.find(adt=adt, name="copy_to_volatile_slice"):
                cs = [c for c in b.calls() if re.search(r"ptr::copy(_nonoverlapping)?$", canon(c.target or ""))]
                ok = False
                d = f"{len(cs)} ptr::copy calls"
                if len(cs) == 1:
                    cnt = eff.inline(cs[0].args()[2])
                    if is_call(cnt, "cmp::min"):
                        xs = [eff.inline(x) for x in cnt[2]]
                        dst_len = any(x[0] == 'field' and x[2] == 'size' and effects.base_of(x[1])[:2] == ('param', 2) for x in xs)
                        if adt == SL:
                            src_len = any(x[0] == 'field' and x[2] == 'size' and effects.base_of(x[1])[:2] == ('param', 1) for x in xs)
                        else:
                            src_len = any(any(s[0] == 'field' and s[2] == 'nelem' for s in subterms(x)) and any(is_call(s, "size_of") for s in subterms(x)) for x in xs)
                        so = eff.origin(b, cs[0].args()[0])
                        do = eff.origin(b, cs[0].args()[1])
                        dir_ok = tracking.accessor_key(so)[1] is not None and tracking.accessor_key(so)[1][:2] == ('param', 1) and tracking.accessor_key(do)[1][:2] == ('param', 2)
                        # the two slices may overlap: the memmove-semantics ptr::copy must be the ONLY raw transfer here
                        # (calls into novel helpers are inlined, so a width-ladder / nonoverlapping fast path shows up as
                        # another call that takes a raw pointer)
                        others = [c for c in b.calls() if c.bb != cs[0].bb and not effects.PEEL.search(canon(c.target or ""))
                                  and any(c.arg_ty(i).k == 'ptr' for i in range(len(c.t["args"])))]
                        # ... and no closure of this function (or of a function inlined into it) writes through a raw pointer
                        for fb in prog.family(b)[1:]:
                            for c in fb.calls():
                                pr = effects.prim_of(c)
                                if (pr and "dst" in pr[1]) or (not effects.PEEL.search(canon(c.target or "")) and any(c.arg_ty(i).k == 'ptr' for i in range(len(c.t["args"])))):
                                    others.append(c)
                        only = not others and canon(cs[0].target or "").endswith("ptr::copy")
                        ok = dst_len and src_len and dir_ok and only
                        d = (f"count = min(source bytes [{src_len}], destination bytes [{dst_len}]); direction self -> slice [{dir_ok}]; "
                             f"ptr::copy (overlap-safe) is the only raw transfer [{only}{'' if only else ': also ' + ', '.join(sorted({canon(c.target or '') for c in others}))}]")
                ctx.ob("R4.2.slice_to_slice", b.key, ok, b.where(), d)
        # the helpers return their count
        for nm, idx in (("copy_slice", 3), ("copy_slice_volatile", 3)):
            b = prog.one(name=nm, path_re=r"copy_slice_impl::" + nm + "$")
            rt = b.return_terms()
            returns_unit = b.j.get("sig", "").rstrip().endswith("-> ()") or "->" not in b.j.get("sig", "")
            # copy_slice's count is what its callers report; the inner volatile routine may equally well return nothing
            # a helper that returns nothing cannot mislead anybody: its callers then report `total` themselves (checked below)
            ok_h = (bool(rt) and all(unref(t)[:2] == ('param', idx) for _p, t in rt)) or returns_unit
            ctx.ob("R4.2.helper_returns_count", b.key, ok_h, b.where(), "returns its `total` argument (or nothing: then no caller can rely on a returned count)")
        for nm in ("copy_from_volatile_slice", "copy_to_volatile_slice"):
            b = prog.one(name=nm, path_re=r"copy_slice_impl::" + nm + "$")
            rt = b.return_terms()
            cs = [c for c in b.calls() if canon(c.target or "").endswith("copy_slice_impl::copy_slice")]
            # returns what copy_slice(.., total) returned, or `total` itself after exactly that call
            ok = bool(rt) and all((is_call(unref(t), "copy_slice") and unref(unref(t)[2][2])[:2] == ('param', 3)) or
                                  (unref(t)[:2] == ('param', 3) and len(cs) == 1 and unref(cs[0].arg(2))[:2] == ('param', 3) and b.pos_dominates(cs[0].pos, _p))
                                  for _p, t in rt)
            dir_ok = False
            if len(cs) == 1:
                a = cs[0].args()
                od, os_ = eff.origin(b, a[0]), eff.origin(b, a[1])
                if nm == "copy_to_volatile_slice":
                    dir_ok = od[0] == 'guard' and od[2] is True and os_[0] == 'param'
                else:
                    dir_ok = os_[0] == 'guard' and od[0] == 'param'
            ctx.ob("R4.2.helper_direction", b.key, ok and dir_ok, b.where(), f"returns copy_slice(.., total) [{ok}]; guest side is the slice's own guard in the right direction [{dir_ok}]")
        # element routes: count = size / size_of T ; loops bounded by take(nelem) and the buffer; returned count = elements via offset_from
        for nm in ("copy_to", "copy_from"):
            for b in prog.find(adt=SL, name=nm):
                ga = [c for c in b.calls() if canon(c.target or "").endswith("get_array_ref")]
                ok = False
                if len(ga) == 1:
                    a = [unref(x) for x in ga[0].args()]
                    cnt = a[2]
                    ok = a[1] == ('const', 0) and cnt[0] == 'bin' and cnt[1] == 'Div' and match(F(P(1), "size"), cnt[2], {}) and is_call(unref(cnt[3]), "size_of")
                ctx.ob("R4.2.element_count", b.key, ok, b.where(), "element route: get_array_ref(0, self.size / size_of::<T>()) — bytes / (bytes per element) = elements")
                if nm == "copy_to":
                    # what the element route reports is the array's own count of ELEMENTS, unmodified
                    arr = [c for c in b.calls() if canon(c.target or "").endswith("VolatileArrayRef::copy_to")]
                    okr = False
                    if len(arr) == 1:
                        res = deep_strip(b.call_term(arr[0].t, arr[0].pos, 0))
                        okr = any(unref(t2) == res for _p, t2 in b.return_terms())
                        okr = okr and not any(res in list(subterms(unref(t2))) and unref(t2) != res for _p, t2 in b.return_terms())
                    ctx.ob("R4.2.element_route_return", b.key, okr, b.where(), "slow path returns VolatileArrayRef::copy_to(..)'s element count as is (not scaled to bytes)")
            for b in prog.find(adt=ARR, name=nm):
                tk = [c for c in b.calls() if canon(c.target or "").endswith("Iterator::take")]
                ok = False
                d = f"{len(tk)} take() calls"
                if len(tk) == 1:
                    a = [unref(x) for x in tk[0].args()]
                    lim = eff.inline(a[1])
                    src = a[0]
                    ok = match(F(P(1), "nelem"), lim, {}) and is_call(src, "slice::iter", "slice::iter_mut") and unref(src[2][0])[:2] == ('param', 2)
                    d = f"loop over buf.iter{'_mut' if nm == 'copy_to' else ''}().take(self.nelem): bounded by both sides [{ok}]"
                if not ok and not tk:
                    # the same bound written as a sub-slice: `for v in &[mut] buf[..min(buf.len(), self.len())]`
                    for c in b.calls():
                        if canon(c.target or "").endswith("::next"):
                            it = unref(c.args()[0])
                            while it[0] == 'call' and canon(it[1]).split("::")[-1] in ("into_iter", "iter", "iter_mut") and it[2]:
                                it = unref(it[2][0])
                            if it[0] == 'call' and canon(it[1]).split("::")[-1] in ("index", "index_mut") and len(it[2]) == 2 and unref(it[2][0])[:2] == ('param', 2):
                                r = unref(it[2][1])
                                if r[0] == 'agg' and str(r[1]).endswith("RangeTo") and len(r[3]) == 1:
                                    lim = eff.inline(r[3][0])
                                    if is_call(lim, "min") and len(lim[2]) == 2:
                                        xs = [unref(eff.inline(x)) for x in lim[2]]
                                        has_n = any(match(F(P(1), "nelem"), x, {}) for x in xs)
                                        has_b = any(is_call(x, "slice::len") and unref(x[2][0])[:2] == ('param', 2) for x in xs)
                                        ok = has_n and has_b
                                        d = f"loop over buf[..min(buf.len(), self.nelem)]: bounded by both sides [{ok}]"
                adds = [c for c in b.calls() if re.search(r"(const_ptr|mut_ptr)::add$", canon(c.target or "")) and unref(c.args()[1]) == ('const', 1)]
                # the same walk spelt with `enumerate()`: the i-th item is moved to / from `start.add(i)`, start being the guard's pointer
                ils = loops.iter_loops(b, eff)
                want_n = norm(('call', 'core::cmp::Ord::min', (('call', 'core::slice::<impl [T]>::len', (('param', 2, b.local_name(2)),)), ('field', ('param', 1, b.local_name(1)), 'nelem'))))
                il = ils[0] if len(ils) == 1 else None
                if il is not None and not ok and il["count"] is not None and norm(il["count"]) == want_n:
                    ok = True
                    d = f"loop over an iterator chain that yields min(buf.len(), self.nelem) items: bounded by both sides [{ok}]"
                stepped = len(adds) == 1
                if il is not None and not adds:
                    idx_adds = [c for c in b.calls() if c.bb in il["blocks"] and re.search(r"(const_ptr|mut_ptr)::add$", canon(c.target or ""))
                                and loops.enum_index_of(b, il, c.args()[1]) and eff.origin(b, c.args()[0])[0] in ('guard', 'guard_value')]
                    stepped = len(idx_adds) == 1
                ctx.ob("R4.2.element_loop", b.key, ok and stepped, b.where(), d + f"; pointer advanced by one element per iteration [{stepped}]")
                if nm == "copy_to":
                    of = [c for c in b.calls() if re.search(r"offset_from(_unsigned)?$", canon(c.target or ""))]
                    okr = False
                    if len(of) == 1:
                        a = [unref(x) for x in of[0].args()]
                        okr = a[0][0] == 'var' and eff.origin(b, a[1])[0] in ('guard', 'guard_value')
                        rts = [unref(t) for _p, t in b.return_terms()]
                        okr = okr and any(any(x == deep_strip(b.call_term(of[0].t, of[0].pos, 0)) for x in subterms(t)) for t in rts)
                    if not of and il is not None:
                        # `copied = i + 1` on every iteration of a loop that is only left when the chain is exhausted, 0 before it: the
                        # number of items the chain yielded, i.e. of elements moved
                        fast = [c for c in b.calls() if canon(c.target or "").endswith("copy_slice_impl::copy_from_volatile_slice")]
                        n_cnt = 0
                        okr = True
                        for pos_, t_ in b.return_terms():
                            u_ = unref(t_)
                            if u_ == ('const', 0) or (fast and is_call(u_, "copy_from_volatile_slice")):
                                continue
                            if loops.counts_iterations(b, il, pos_, u_) or loops.chain_len_term(b, il, u_):
                                n_cnt += 1
                                continue
                            okr = False
                        okr = okr and n_cnt == 1
                    ctx.ob("R4.2.element_return", b.key, okr, b.where(), "returns ptr.offset_from(start) (or the iteration count of the element loop): the number of ELEMENTS copied")
        # ------------------------------------------------------------ R4.3 who may touch container memory
        touched = {}
        for role in ("dst", "src"):
            sites, raw, host, problems = tracking.accesses(prog, eff, role)
            for s in sites:
                # a closure belongs to the function that defines it (`x.map(|r| r.store(..))` and `let r = x?; r.store(..)` are the same route)
                touched.setdefault(strip_generics(s["body"].root) if s["body"].kind == "Closure" and s["body"].root else s["body"].key, s)
            for p in problems:
                ctx.ob("R4.3.classified", f"{p['body'].key}|{p['kind']}", False, p["body"].where(p["ln"]), "memory access with unclassifiable pointer (fail closed)")
        by_key = {}
        for role in ("dst", "src"):
            for s2 in tracking.accesses(prog, eff, role)[0]:
                k2 = strip_generics(s2["body"].root) if s2["body"].kind == "Closure" and s2["body"].root else s2["body"].key
                by_key.setdefault(k2, []).append(s2)

        def generic_mover(key):
            """A function the table does not know (new API): accepted when every access in it goes through the guard of ITS OWN
            accessor (self) and moves at most that accessor's length — then it cannot touch a byte outside what it names
            (C01 containment + C17 guard length); what it reports to its caller is not judged."""
            ss = by_key.get(key, [])
            if not ss:
                return None
            from ..bounds import Bounds, norm as bnorm

            def own_view(a, depth=0):
                """self, or a successful subslice / offset / get_slice view of self (to any depth)"""
                a = unref(a)
                if a[:2] == ('param', 1):
                    return True
                if depth < 4 and a[0] == 'ok':
                    from .. import checks
                    pr = checks.producer(a)
                    if pr[0] == 'call' and pr[2] and re.search(r"VolatileSlice::(subslice|offset)$|VolatileMemory::get_slice$", canon(pr[1])):
                        return own_view(pr[2][0], depth + 1)
                return False
            for s2 in ss:
                o = s2["origin"]
                if o[0] == 'guard' and effects.base_of(o[1])[:2] != ('param', 1) and own_view(effects.base_of(o[1])) and s2["count"] is not None:
                    # through the guard of a range-checked VIEW of self, moving at most that view's length (a successful
                    # subslice(o, n) is exactly n bytes long): still inside what the function names
                    acc = effects.base_of(o[1])
                    if Bounds(s2["body"].facts_at(s2["pos"])).le(eff.inline(s2["count"]), ('field', acc, 'size')):
                        continue
                    return None
                if o[0] != 'guard' or effects.base_of(o[1])[:2] != ('param', 1):
                    return None
                cnt = s2["count"]
                if cnt is None:
                    return None
                b2 = s2["body"]
                own_len = [eff.inline(('call', 'volatile_memory::VolatileSlice::<\'a, B>::len', (('param', 1, b2.local_name(1)),), ()))]
                c1 = eff.inline(cnt)
                ok_cnt = any(unref(c1) == unref(x) for x in own_len) or (unref(c1)[0] == 'field' and unref(c1)[2] == 'size' and effects.base_of(unref(c1)[1])[:2] == ('param', 1)) or \
                    (is_call(unref(c1), "cmp::min") and any(unref(x)[0] == 'field' and unref(x)[2] == 'size' and effects.base_of(unref(x)[1])[:2] == ('param', 1) for x in (eff.inline(y) for y in unref(c1)[2])))
                if not ok_cnt:
                    return None
            return "not in the table: every access goes through the guard of self (or of a range-checked view of self) and moves at most that accessor's length"
        for key, s in sorted(touched.items()):
            why = None
            for rx, reason in MAY_TOUCH:
                if re.search(rx, key):
                    why = reason
            if why is None:
                why = generic_mover(key)
            ctx.ob("R4.3.who_may_touch", key, why is not None, s["body"].where(s["ln"]),
                   f"{s['kind']} on guest memory — " + (why if why else "this body is not one of the enumerated primitives: a new route that bypasses them needs its own review (bounds, counts, marks, guards)"))
        ctx.floor("R4.3.touching_bodies", len(touched), 9)
        # ------------------------------------------------------------ R4.5 object routes
        b = prog.one(in_trait=BYTES, name="write_obj")
        rt = b.return_terms()
        ok = len(rt) == 1 and match(C("Bytes::write_slice", P(1), C("ByteValued::as_slice", P(2)), P(3)), deep_strip(rt[0][1]), {})
        ctx.ob("R4.5.write_obj", b.key, ok, b.where(), "write_obj = write_slice(val.as_slice(), addr): the object's own bytes at the caller's addr")
        b = prog.one(in_trait=BYTES, name="read_obj")
        rt = b.return_terms()
        ok = False
        d = ""
        if len(rt) == 1:
            e = {}
            t = deep_strip(rt[0][1])
            shape = match(C("Result::map", C("Bytes::read_slice", P(1), C("ByteValued::as_mut_slice", V("r")), P(2)), CLO("c")), t, e)
            # identity of the object, by MIR local (two calls to zeroed() would be indistinguishable as terms)
            filled = returned = None
            for c in b.calls():
                if canon(c.callee or "").endswith("ByteValued::as_mut_slice"):
                    a0 = c.t["args"][0]
                    if a0["k"] in ("move", "copy") and "p" not in a0["pl"]:
                        ds = b.defs(a0["pl"]["l"])
                        if len(ds) == 1 and ds[0][1] == "rv" and ds[0][2]["k"] == "ref" and "p" not in ds[0][2]["pl"]:
                            filled = ds[0][2]["pl"]["l"]
            for pos, s in b.stmts():
                if s["k"] == "assign" and s["rv"]["k"] == "agg" and s["rv"].get("agg") == "closure":
                    for o in s["rv"]["ops"]:
                        if o["k"] in ("move", "copy") and "p" not in o["pl"]:
                            returned = o["pl"]["l"]
                            # follow one copy
                            ds = b.defs(returned)
                            if len(ds) == 1 and ds[0][1] == "rv" and ds[0][2]["k"] == "use" and ds[0][2]["op"]["k"] in ("move", "copy") and "p" not in ds[0][2]["op"]["pl"]:
                                returned = ds[0][2]["op"]["pl"]["l"]
                            elif len(ds) == 1 and ds[0][1] == "rv" and ds[0][2]["k"] == "ref" and "p" not in ds[0][2]["pl"]:
                                returned = ds[0][2]["pl"]["l"]
            zero = filled is not None and any(kind == "call" and canon(pl.get("callee") or "").endswith("ByteValued::zeroed") for _p, kind, pl in b.defs(filled))
            cret = False
            if shape:
                cb = prog.by_id.get(e["c"][1])
                crt = cb.return_terms()
                cr = unref(crt[0][1]) if len(crt) == 1 else ('x',)
                cret = cr[0] == 'field' and unref(cr[1])[:2] == ('param', 1)
            ok = shape and filled is not None and filled == returned and zero and cret
            d = f"shape [{shape}]; local filled by read_slice = _{filled}, local returned by the closure = _{returned}; initialised by T::zeroed() [{zero}]"
        if not ok:
            ok, d = _read_obj_by_outcomes(ctx, prog, eff, b)
        ctx.ob("R4.5.read_obj", b.key, ok, b.where(), "read_obj = read_slice(result.as_mut_slice(), addr).map(|_| result) with result = T::zeroed(): the SAME object is filled and returned; " + d)
        for nm, fn in (("as_slice", "from_raw_parts"), ("as_mut_slice", "from_raw_parts_mut")):
            b = prog.one(in_trait="bytes::ByteValued", name=nm)
            rt = b.return_terms()
            ok = len(rt) == 1 and is_call(unref(rt[0][1]), fn) and unref(unref(rt[0][1])[2][0])[:2] == ('param', 1) and is_call(unref(unref(rt[0][1])[2][1]), "size_of")
            ctx.ob("R4.5.object_bytes", b.key, ok, b.where(), f"{nm}() = {fn}(self as *u8, size_of::<Self>())")
    ctx.not_decided = ["address order, 'every other byte unchanged', 'a value stored through one accessor is the value loaded through another': value-level"]
    return ctx.finish(
        "other",
        "Operand agreement at every copy site (count = min over the guest slice's and the host buffer's lengths; helpers return their count; slice-to-slice copies cap with both byte "
        "lengths in the self -> slice direction; element routes convert bytes/size_of::<T>() and bound their loops by both sides), strictness of the start bound from dominating facts, a "
        "who-may-touch table over every body that accesses container memory (discovered by effect), and the object routes built on the slice routes over the same object. Necessary "
        "conditions for 'moves exactly the bytes it names' for all sizes/offsets/types; data values are not decided.",
        TRUSTED, "./check C04")


def _read_obj_by_outcomes(ctx, prog, eff, b):
    """the same rule for any spelling (`?` + Ok(result), match): the outcome table is {read_slice ok => Ok(<zeroed object>), read_slice failed =>
    that failure}, and the MIR local whose as_mut_slice() is filled is the local moved into the Ok"""
    from ..outcomes import outcomes, facts_of
    from ..pat import ERRP
    RS = C("Bytes::read_slice", P(1), C("ByteValued::as_mut_slice", ANY), P(2))
    outs = outcomes(prog, eff, b)
    n_ok = n_err = 0
    for o in outs:
        t = deep_strip(o[1])
        fs = facts_of(b, o, (prog, eff))
        if match(AGG("Result", "Ok", C("ByteValued::zeroed")), t, {}) and any(r[0] == 'discr' and r[2] == 0 and match(RS, r[1], {}) for r in fs):
            n_ok += 1
        elif match(ERRP(RS), t, {}) and any(r[0] == 'discr' and r[2] == 1 and match(RS, r[1], {}) for r in fs):
            n_err += 1
        else:
            return False, f"unexpected outcome `{tstr(t)[:100]}`"
    if not (n_ok == 1 and n_err == 1):
        return False, f"outcomes ok={n_ok} err={n_err}"

    def root_local(op):
        """the local an operand names, through copies / moves / reborrows"""
        for _ in range(6):
            if op.get("k") not in ("move", "copy") or "p" in op["pl"] and any(not (isinstance(e, str) and e == "deref") for e in op["pl"]["p"]):
                return None
            l = op["pl"]["l"]
            ds = b.defs(l)
            if len(ds) == 1 and ds[0][1] == "rv" and ds[0][2]["k"] == "use":
                op = ds[0][2]["op"]
                continue
            if len(ds) == 1 and ds[0][1] == "rv" and ds[0][2]["k"] == "ref" and "p" not in ds[0][2]["pl"]:
                return ds[0][2]["pl"]["l"]
            return l
        return None
    filled = [root_local(c.t["args"][0]) for c in b.calls() if canon(c.callee or "").endswith("ByteValued::as_mut_slice")]
    returned = [root_local(s_["rv"]["ops"][0]) for _p, s_ in b.stmts()
                if s_["k"] == "assign" and s_["rv"]["k"] == "agg" and s_["rv"].get("variant") == "Ok" and len(s_["rv"].get("ops", [])) == 1]
    zero = len(filled) == 1 and filled[0] is not None and any(kind == "call" and canon(pl.get("callee") or "").endswith("ByteValued::zeroed") for _p, kind, pl in b.defs(filled[0]))
    same = len(filled) == 1 and len(returned) == 1 and filled[0] is not None and filled[0] == returned[0]
    return same and zero, f"outcome table ok; local filled = _{filled}, local returned in Ok = _{returned}; initialised by T::zeroed() [{zero}]"


def self_len_of(x, guest, eff):
    """x is the byte length of guest accessor `guest`"""
    x = deep_strip(x)
    g = effects.base_of(guest)
    if x[0] == 'field' and x[2] == 'size' and effects.base_of(x[1]) == g:
        return True
    if is_call(x, "VolatileSlice::len", "VolatileMemory::len") and effects.base_of(x[2][0]) == g:
        return True
    # guest expression itself is a call (e.g. to_slice(self)): len of that
    if x[0] == 'field' and x[2] == 'size':
        return deep_strip(x[1]) == deep_strip(guest)
    gi = eff.inline(('call', "volatile_memory::VolatileSlice::len", (guest,), ()))
    return deep_strip(gi) == x
