"""C05 — no tracked write leaves its pages clean (dirty tracking is sound).

R5.1  every code path that can modify guest bytes through an accessor marks that accessor's bitmap, on every
      path to return, with an extent covering what it may have written (effect pairing, discovered by callee);
R5.2  every accessor derivation carries the bitmap offset that matches its pointer offset (so marks land at
      the region's own offset for derivation chains of any depth, by induction);
R5.3  bitmap forwarders (BaseSlice, Option<B>, AtomicBitmap, AtomicBitmapArc) pass offset/len through unchanged
      apart from the documented base-offset addition;
R5.4  the only APIs that hand out a writable raw handle are the documented exemptions;
R5.5  the bitmap's range loop has inclusive-last-page form (start/page ..= (start + len - 1)/page): a mark must
      reach the page holding the last written byte (form rule shared with C09 R9.3).
"""
import re

from ..mir import deep_strip, tstr, strip_generics, canon, subterms, is_call
from .. import effects, tracking, fixtures, loops
from ..bounds import norm

CONFIGS = ("FULL", "XEN")
TRUSTED = [
    "libc::read writes at most `count` bytes at the pointer it is given",
    "AtomicBitmap page arithmetic (C09/C16 rules) and the RMW semantics of atomics (C08)",
    "unsafe constructors' contracts: the parent extent handed to `new`/`with_bitmap` is real memory",
    "rustc nightly MIR construction and Instance resolution",
]

ACC = effects.ACCESSORS


def show_origin(o):
    return "(" + ", ".join(tstr(x) if isinstance(x, tuple) else (x.key if hasattr(x, 'key') else str(x)) for x in o) + ")"


def postdominated_by(body, start_bb, blocks):
    """every path start_bb -> return passes through one of `blocks`"""
    if start_bb in blocks:
        return True
    r = body.reachable(start_bb, removed_nodes=tuple(sorted(blocks)))
    return not any(x in r for x in body.exits())


def callee_returns_count(prog, eff, fid, count_param):
    b = prog.by_id.get(fid)
    if not b or not count_param:
        return False
    rts = b.return_terms()
    return len(rts) >= 1 and all(deep_strip(t) == ('param', count_param, b.local_name(count_param)) or
                                 (deep_strip(t)[0] == 'call' and deep_strip(t)[1] in [k[0] for k in []]) for _p, t in rts)


def is_size_of(t):
    t = deep_strip(t)
    return t[0] == 'call' and canon(t[1]).split("::")[-1] == "size_of"


def rule_marking(rep, prog, eff, strict=False):
    """R5.1. With strict=True (C16 R16.2) the extent must be the *transferred* count.
    Returns (n_sites, n_marks_used)."""
    sites, raw, host, problems = tracking.accesses(prog, eff, 'dst')
    for p in problems:
        rep("R5.1.classified", f"{p['body'].key}|{p['kind']}", False, p["body"].where(p["ln"]),
            f"destination pointer of a memory write could not be classified: {show_origin(p['origin'])} — cannot pair it with a dirty mark (fail closed)")
    used_marks = set()
    for s in sites:
        b = s["body"]
        space, X = tracking.accessor_key(s["origin"])
        inst = f"{b.key}|{s['kind']}|{tstr(X)}"
        where = b.where(s["ln"])
        marks = [m for m in tracking.marks_in(prog, eff, b) if m["space"] is space and tracking.same_bitmap(m["bitmap"], X)]
        if not marks:
            rep("R5.1.marked", inst, False, where, f"write through accessor `{tstr(X)}` ({s['kind']}) but no mark_dirty on `{tstr(X)}.bitmap` in this body")
            continue
        mblocks = {m["call"].bb for m in marks}
        ok = postdominated_by(b, s["pos"][0], mblocks)
        rep("R5.1.marked", inst, ok, where,
            f"marks at lines {[m['call'].line for m in marks]} " + ("post-dominate the write on every path to return" if ok else
            "do NOT cover every path from the write to return: some path leaves the pages clean"))
        # extent agreement
        cnt = eff.inline(s["count"]) if s["count"] is not None else None
        result_term = None
        if s["via"] != "prim" and s["call"] is not None:
            result_term = eff.inline(b.call_term(s["call"].t, s["call"].pos, 0))
        for m in marks:
            used_marks.add((b.id, m["call"].bb))
            n, off = deep_strip(m["n"]), deep_strip(m["off"])
            minst = f"{inst}|mark"
            mwhere = b.where(m["call"].line)
            kind = s["kind"]
            if s["origin"][0] == 'atomic_ref':
                a = deep_strip(s["origin"][2])
                _sp, a = (space, a)
                ok = off == a and is_size_of(n)
                rep("R5.1.extent", minst, ok, mwhere, f"atomic store at offset `{tstr(a)}`: mark is ({tstr(off)}, {tstr(n)}); required (same offset, size_of::<T>())")
                continue
            if off != ('const', 0):
                rep("R5.1.extent", minst, False, mwhere, f"write starts at the accessor's first byte but the mark starts at `{tstr(off)}`")
                continue
            if s.get("elem") and s["via"] == "prim" and cnt is not None:
                # a counted primitive over elements wider than a byte (ptr::copy::<X>(s, d, n)) writes n * size_of::<X>() bytes:
                # a mark of n covers only the first n bytes of them (seed C05-r9: copy in elements, mark in the same number)
                fac = []
                nn = norm(n)    # `(a MulWithOverflow b).0` (the overflow-checked product) -> `a Mul b`
                if nn[0] == 'bin' and nn[1].startswith('Mul'):
                    fac = [norm(nn[2]), norm(nn[3])]
                elif nn[0] == 'call' and re.search(r"num::(wrapping_mul|saturating_mul)$", canon(nn[1])):
                    fac = [norm(x) for x in nn[2]]
                ok = len(fac) == 2 and norm(cnt) in fac and any(is_size_of(x) or (x[0] == 'call' and canon(x[1]).endswith("::element_size")) for x in fac)
                rep("R5.1.extent", minst, ok, mwhere,
                    f"mark length `{tstr(n)}`; the primitive moves `{tstr(cnt)}` elements of {s['elem']} ({tstr(cnt)} * size_of bytes): the mark must be in bytes")
                continue
            if kind in ("copy",) or s["via"] != "prim":
                accept = []
                transferred = []
                if result_term is not None and callee_returns_count(prog, eff, s["via"], _count_param(raw, s)):
                    transferred.append(result_term)
                if cnt is not None:
                    (accept if s["via"] != "prim" and transferred else transferred).append(cnt)
                ok = n in transferred or (not strict and n in accept)
                rep("R5.1.extent", minst, ok, mwhere,
                    f"mark length `{tstr(n)}`; bytes written `{tstr(cnt) if cnt is not None else '?'}`"
                    + (f", returned `{tstr(result_term)}`" if result_term is not None else ""))
                continue
            if kind == "sys_read":
                call_t = eff.inline(b.call_term(s["call"].t, s["call"].pos, 0))
                from_result = any(x == call_t for x in subterms(n))
                full = cnt is not None and n == cnt
                # on which edge does this mark sit?  result < 0  => must be the full buffer
                facts = b.facts_at(m["call"].pos)
                neg = any(r[0] == 'cmp' and r[1] == 'Lt' and r[2] == deep_strip(b.call_term(s["call"].t, s["call"].pos, 0)) and r[3] == ('const', 0) for r in facts)
                if neg:
                    ok = full
                    rep("R5.1.extent", minst + "|error-edge", ok, mwhere, f"failed descriptor read must mark the whole target: mark length `{tstr(n)}`, target length `{tstr(cnt)}`")
                else:
                    ok = from_result or (full and not strict)
                    rep("R5.1.extent", minst + "|ok-edge", ok, mwhere, f"successful descriptor read marks `{tstr(n)}` (derived from the syscall result: {from_result})")
                continue
            if kind == "write_volatile":
                ptr = deep_strip(s["ptr"])
                if ptr[0] == 'var':
                    # element loop: n = ptr - start, start from the same guard
                    okn = False
                    if n[0] == 'field' and n[2] == '0':
                        n = n[1]
                    if n[0] == 'bin' and n[1].startswith('Sub') and deep_strip(n[2]) == ptr:
                        so = eff.origin(b, n[3])
                        # after getter inlining the guard pointer shows as <guard>.0.addr: accept if it mentions ptr_guard_mut(X)
                        okn = any(is_call(x, 'ptr_guard_mut') and effects.base_of(x[2][0]) == X for x in subterms(deep_strip(n[3])))
                    rep("R5.1.extent", minst, okn, mwhere, f"element loop writes through `{tstr(ptr)}`; mark length `{tstr(m['n'])}` must be (loop pointer - start of the same guard)")
                else:
                    il = _indexed_element_loop(b, eff, s, X)
                    if il is not None:
                        # element loop spelt with enumerate(): item i is stored at start.add(i); the loop runs `count` times and is only
                        # left when the chain is exhausted, so count * size_of::<T>() bytes were written from the first byte on
                        nn = norm(n)
                        okn = (nn[0] == 'bin' and nn[1] == 'Mul' and any(is_size_of(eff.inline(x)) for x in (nn[2], nn[3]))
                               and any(loops.counts_items(b, il, x) for x in (nn[2], nn[3]))
                               and m["call"].bb not in il["blocks"])
                        rep("R5.1.extent", minst, okn, mwhere, f"element loop stores item i at start.add(i); mark length `{tstr(m['n'])}` must be (iterations of that loop) * size_of::<T>(), after the loop")
                        continue
                    ok = is_size_of(n)
                    rep("R5.1.extent", minst, ok, mwhere, f"single volatile store of a T: mark length `{tstr(n)}` must be size_of::<T>()")
                continue
            if kind == "write" and cnt is not None:
                # a counted primitive write (ptr::write_bytes(p, v, count)): the mark covers exactly the count written
                ok = n == cnt or (not strict and n == cnt)
                rep("R5.1.extent", minst, ok, mwhere, f"mark length `{tstr(n)}`; bytes written `{tstr(cnt)}`")
                continue
            rep("R5.1.extent", minst, False, mwhere, f"unrecognised write kind {kind}: cannot relate mark length `{tstr(n)}` to the write")
    return sites, raw, host, used_marks


def _indexed_element_loop(b, eff, s, X):
    """the write s goes through `start.add(i)`: start is the pointer of accessor X's own guard, i the enumerate index of the (only)
    iterator loop of b, and the store happens on every iteration -> that loop"""
    ptr = deep_strip(s["ptr"])
    if not (ptr[0] == 'call' and re.search(r"(const_ptr|mut_ptr)::add$", canon(ptr[1])) and len(ptr[2]) == 2):
        return None
    ils = loops.iter_loops(b, eff)
    if len(ils) != 1:
        return None
    il = ils[0]
    if not loops.enum_index_of(b, il, ptr[2][1]) or s["pos"][0] not in il["blocks"] or not il["exits_only_on_none"]:
        return None
    if not all(b.node_dominates(s["pos"][0], u) for u in il["latches"]):
        return None
    if not any(is_call(x, 'ptr_guard_mut') and effects.base_of(x[2][0]) == X for x in subterms(deep_strip(ptr[2][0]))):
        return None
    return il


def _count_param(raw, s):
    for (fid, idx), info in raw.items():
        if fid == s["via"]:
            return info.get("count_param")
    return None


# ------------------------------------------------------------------------------------------- R5.2
def rule_derivations(rep, prog, eff):
    """pointer offset <-> bitmap offset agreement at every accessor construction site"""
    n = 0
    for b in prog.bodies:
        if b.j.get("impl_derived"):
            continue
        for c in b.calls():
            cn = canon(c.target or "")
            if not (any(cn.startswith(a + "::") for a in ACC) and cn.split("::")[-1] == "with_bitmap"):
                continue
            n += 1
            adt = "::".join(cn.split("::")[:-1])
            args = [eff.inline(a) for a in c.args()]
            ptr = args[0]
            bm = args[2] if adt.endswith("VolatileSlice") or adt.endswith("VolatileArrayRef") else args[1]
            inst = f"{b.key}->{adt.split('::')[-1]}"
            ok, detail = agree(b, eff, ptr, bm)
            rep("R5.2.derivation", inst, ok, b.where(c.line), detail)
    # pass-through constructors: the aggregates inside with_bitmap copy their parameters
    for b in prog.bodies:
        for pos, s in b.stmts():
            if s["k"] == "assign" and s["rv"]["k"] == "agg" and s["rv"].get("adt") in ACC and not b.j.get("impl_derived"):
                n += 1
                f = dict(zip(s["rv"]["fields"], [deep_strip(b.term(o, pos)) for o in s["rv"]["ops"]]))
                ok = f.get("bitmap", ('x',))[0] == 'param' and f.get("addr", ('x',))[0] == 'param'
                rep("R5.2.ctor_passthrough", f"{b.key}", ok, b.where(s["ln"]),
                    f"aggregate of {s['rv']['adt']} built from addr=`{tstr(f.get('addr'))}`, bitmap=`{tstr(f.get('bitmap'))}`: must be the constructor's own parameters")
    return n


def _peel_ptr(t):
    """-> (base pointer term, offset term or None)"""
    t = deep_strip(t)
    if t[0] == 'call':
        c = canon(t[1])
        if re.search(r"ptr::(mut_ptr|const_ptr)::(add|offset|byte_add|byte_offset|wrapping_add|wrapping_offset)$", c):
            return deep_strip(t[2][0]), deep_strip(t[2][1])
    return t, None


def agree(b, eff, ptr, bm):
    base, off = _peel_ptr(ptr)
    bm = deep_strip(bm)
    # what bitmap expression?
    bkind, bsrc, boff = None, None, None
    x = bm
    if x[0] == 'call' and canon(x[1]).endswith("Bitmap::slice_at"):
        bkind, bsrc, boff = 'slice_at', effects.base_of(x[2][0]), deep_strip(x[2][1])
    elif x[0] == 'call' and canon(x[1]).endswith("Clone::clone"):
        bkind, bsrc = 'same', effects.base_of(x[2][0])
    elif x[0] in ('field', 'param', 'deref'):
        bkind, bsrc = 'same', effects.base_of(x)
    elif x == ('agg', 'tuple', None, ()):
        bkind, bsrc = 'unit', None
    else:
        return False, f"unrecognised bitmap expression `{tstr(bm)}`"
    # pointer source
    pb = effects.base_of(base)
    detail = f"pointer `{tstr(ptr)}`, bitmap `{tstr(bm)}`"
    if bkind == 'unit':
        # no tracking object: only legal when the pointer does not come from a tracked parent
        if pb[0] == 'field' and pb[2] == 'addr':
            return False, detail + ": derived from a tracked parent but given the unit bitmap"
        return True, detail + ": fresh untracked accessor"
    # parent object of pointer and bitmap must be the same
    if pb[0] == 'field' and pb[2] in ('addr',):
        pparent = effects.base_of(pb[1])
    elif pb[0] == 'call' and canon(pb[1]).split("::")[-1] in ("as_ptr", "addr"):
        pparent = effects.base_of(pb[2][0])
        if pparent[0] == 'field' and pparent[2] == 'mmap':
            pparent = effects.base_of(pparent[1])
    elif pb[0] == 'param':
        pparent = None
    else:
        pparent = None
    if bsrc is not None and bsrc[0] == 'field' and bsrc[2] == 'bitmap':
        bparent = effects.base_of(bsrc[1])
    elif bsrc is not None and bsrc[0] == 'param':
        bparent = None
    else:
        bparent = bsrc
    if pparent is None and bparent is None:
        return (off is None and bkind == 'same'), detail + ": both are constructor parameters passed through"
    if pparent != bparent:
        return False, detail + f": pointer derives from `{tstr(pparent) if pparent else '?'}` but bitmap from `{tstr(bparent) if bparent else '?'}`"
    if off is None:
        ok = bkind == 'same' or (bkind == 'slice_at' and boff == ('const', 0))
        return ok, detail + (": pointer not moved, bitmap unchanged" if ok else f": pointer not moved but bitmap sliced at `{tstr(boff)}`")
    if bkind != 'slice_at':
        return False, detail + f": pointer moved by `{tstr(off)}` but bitmap not sliced"
    ok = off == boff
    return ok, detail + (f": both moved by `{tstr(off)}`" if ok else f": pointer moved by `{tstr(off)}`, bitmap by `{tstr(boff)}`")


# ------------------------------------------------------------------------------------------- R5.3
def rule_forwarders(rep, prog, eff):
    n = 0
    # BaseSlice: mark_dirty / dirty_at / slice_at add base_offset
    for b in prog.find(adt="bitmap::backend::slice::BaseSlice", trait="bitmap::Bitmap"):
        n += 1
        if b.name in ("mark_dirty", "dirty_at"):
            cs = [c for c in b.calls() if canon(c.target or "").endswith("Bitmap::" + b.name)]
            ok = False
            detail = "no forwarding call"
            if len(cs) == 1:
                a = [deep_strip(x) for x in cs[0].args()]
                off = a[1]
                good_off = off[0] == 'call' and re.search(r"num::(wrapping_add|saturating_add|checked_add)$", canon(off[1])) and \
                    {tstr(effects.base_of(off[2][0])), tstr(effects.base_of(off[2][1]))} >= {"offset"} and \
                    any(effects.base_of(z)[0] == 'field' and effects.base_of(z)[2] == 'base_offset' for z in off[2])
                good_off = good_off or (off[0] == 'bin' and off[1].startswith('Add'))
                inner = effects.base_of(a[0])
                inner_ok = any(s[0] == 'field' and s[2] == 'inner' for s in subterms(inner))
                rest_ok = b.name == "dirty_at" or (a[2][0] == 'param' and a[2][2] == 'len')
                ok = bool(good_off) and inner_ok and rest_ok
                detail = f"forwards ({', '.join(tstr(x) for x in a)})"
            rep("R5.3.baseslice", b.key, ok, b.where(), detail + "; required inner.<same method>(base_offset + offset[, len])")
        elif b.name == "slice_at":
            rts = b.return_terms()
            ok = False
            detail = ""
            if len(rts) == 1:
                r = deep_strip(rts[0][1])
                detail = tstr(r)
                if r[0] == 'agg' and r[1] == "bitmap::backend::slice::BaseSlice":
                    inner, off = r[3][0], r[3][1]
                    ok = any(s[0] == 'field' and s[2] == 'inner' for s in subterms(inner)) and off[0] == 'call' and \
                        any(effects.base_of(z)[0] == 'field' and effects.base_of(z)[2] == 'base_offset' for z in off[2]) and \
                        any(effects.base_of(z)[0] == 'param' and effects.base_of(z)[1] == 2 for z in off[2])
            rep("R5.3.baseslice", b.key, ok, b.where(), f"returns {detail}; required BaseSlice{{inner.clone(), base_offset + offset}}")
    # Option<B>
    for b in prog.bodies:
        if b.impl_trait == "bitmap::Bitmap" and b.self_ty and b.self_ty.s.startswith("std::option::Option<") and b.name in ("mark_dirty", "dirty_at", "slice_at"):
            n += 1
            if b.name == "dirty_at":
                # an absent bitmap tracks nothing: whatever dirty_at returns without asking the inner bitmap is `false` (found by a sweep that
                # flipped the literal: `None => true` was reported by nothing)
                lits = [deep_strip(t) for _p, t in b.return_terms() if deep_strip(t)[0] == 'const']
                rep("R5.3.option_none_clean", b.key, all(t == ('const', 0) for t in lits), b.where(), f"literal results of Option<B>::dirty_at: {[t[1] for t in lits]} (must all be false)")
            cs = [c for c in b.calls() if canon(c.target or "").endswith("Bitmap::" + b.name)]
            ok = len(cs) == 1
            detail = "no forwarding call"
            if not cs:
                # the same forward written with a combinator: self.as_ref().map(|inner| inner.m(args)) / is_some_and(..): the closure is
                # applied to the payload of self (and not at all for None), its other operands are the method's own arguments
                for cb in prog.closures_of(b):
                    ccs = [c for c in cb.calls() if canon(c.target or "").endswith("Bitmap::" + b.name)]
                    if len(ccs) != 1:
                        continue
                    user = [c for c in b.calls() if canon(c.target or "").split("::")[-1] in ("map", "is_some_and", "map_or", "and_then") and
                            "Option" in canon(c.target or "") and any(deep_strip(x)[0] == 'agg' and str(deep_strip(x)[1]) == cb.id for x in c.args())]
                    if len(user) != 1:
                        continue
                    recv = deep_strip(user[0].args()[0])
                    while recv[0] == 'call' and canon(recv[1]).split("::")[-1] in ("as_ref", "as_mut", "as_deref") and recv[2]:
                        recv = deep_strip(recv[2][0])
                    a = [deep_strip(x) for x in ccs[0].args()]
                    lifted = [deep_strip(eff.in_parent(cb, x)[1]) for x in a[1:]]
                    ok = recv[:2] == ('param', 1) and effects.base_of(a[0])[:2] == ('param', 2) and \
                        all(x[0] == 'param' and x[1] == i + 2 for i, x in enumerate(lifted))
                    if canon(user[0].target or "").split("::")[-1] == "map_or":
                        ok = ok and b.name == "dirty_at" and deep_strip(user[0].args()[1]) == ('const', 0)
                    detail = f"forwards through Option::{canon(user[0].target or '').split('::')[-1]}: inner.{b.name}({', '.join(tstr(x) for x in lifted)})"
                    rep("R5.3.option", b.key, ok, b.where(), detail + "; required Some(inner) => inner.<same method>(same arguments)")
                    break
                else:
                    rep("R5.3.option", b.key, False, b.where(), detail + "; required Some(inner) => inner.<same method>(same arguments)")
                continue
            if ok:
                a = [deep_strip(x) for x in cs[0].args()]
                ok = a[0][0] in ('ok', 'ref') and all(x[0] == 'param' and x[1] == i + 2 for i, x in enumerate(a[1:]))
                detail = f"forwards ({', '.join(tstr(x) for x in a)})"
            rep("R5.3.option", b.key, ok, b.where(), detail + "; required Some(inner) => inner.<same method>(same arguments)")
    # AtomicBitmap / AtomicBitmapArc
    for adt in ("bitmap::backend::atomic_bitmap::AtomicBitmap", "bitmap::backend::atomic_bitmap_arc::AtomicBitmapArc"):
        for b in prog.find(adt=adt, trait="bitmap::Bitmap"):
            n += 1
            tgt = {"mark_dirty": "AtomicBitmap::set_addr_range", "dirty_at": "AtomicBitmap::is_addr_set"}.get(b.name)
            if tgt:
                cs = [c for c in b.calls() if canon(c.target or "").endswith(tgt)]
                ok = len(cs) == 1
                detail = f"no call to {tgt}"
                if ok:
                    a = [deep_strip(x) for x in cs[0].args()]
                    ok = all(x[0] == 'param' and x[1] == i + 2 for i, x in enumerate(a[1:]))
                    detail = f"forwards ({', '.join(tstr(x) for x in a)})"
                rep("R5.3.atomic", b.key, ok, b.where(), detail)
            else:
                rts = b.return_terms()
                r = eff.inline(rts[0][1]) if len(rts) == 1 else ('unknown', 'multi')
                ok = r[0] == 'agg' and r[1] == "bitmap::backend::slice::BaseSlice" and deep_strip(r[3][1]) == ('param', 2, 'offset')
                rep("R5.3.atomic", b.key, ok, b.where(), f"slice_at returns {tstr(r)}; required a BaseSlice over self at `offset`")
    # set_addr_range turns its own (start_addr, len) into the page range — itself or through the range helper — and what executes
    # there sets bits (R9.6 of C09: polarity, followed through a shared helper with the constant / closure it is given)
    from . import c09
    for b in prog.find(adt="bitmap::backend::atomic_bitmap::AtomicBitmap", name="set_addr_range"):
        n += 1
        rb = c09.range_bodies(prog)
        direct = b in rb
        fwd = False
        detail = "no range helper called"
        for c in b.calls():
            tb = prog.by_id.get(c.target) if c.target else None
            if tb in rb and len(c.args()) >= 3:
                a = [deep_strip(x) for x in c.args()]
                fwd = a[1] == ('param', 2, b.local_name(2)) and a[2] == ('param', 3, b.local_name(3))
                detail = f"forwards ({', '.join(tstr(x) for x in a)})"
        kinds = sorted({k for k, _c in c09._rmw_kinds(prog, b, {})})
        rep("R5.3.atomic", b.key, (direct or fwd) and kinds == ["set"], b.where(),
            ("builds the page range itself" if direct else detail) + f"; read-modify-write operations that can execute: {kinds}; required: its own (start_addr, len), setting bits")
    return n


# ------------------------------------------------------------------------------------------- R5.4
EXEMPT = {
    # function key regex -> the doc sentence that excludes it
    r"^volatile_memory::VolatileMemory::aligned_as_mut$": "doc: 'Mutable accesses performed using the resulting reference are not automatically accounted for by the dirty bitmap tracking'",
    r"^volatile_memory::VolatileMemory::get_atomic_ref$": "doc: same sentence on get_atomic_ref",
    r"^volatile_memory::PtrGuardMut::as_ptr$": "doc: 'Mutable accesses performed using the resulting pointer are not automatically accounted for'",
    r"^volatile_memory::PtrGuard::as_ptr$": "read-only guard pointer (const)",
    r"^mmap::(unix|xen)::MmapRegion::as_ptr$": "raw pointer to the mapping (documented raw access)",
    r"^guest_memory::GuestMemoryRegion::get_host_address$|^guest_memory::GuestMemory::get_host_address$|^<mmap::GuestRegionMmap<B> as guest_memory::GuestMemoryRegion>::get_host_address$": "doc: host address; 'not accounted for by the dirty bitmap' raw access",
    r"^bytes::ByteValued::(as_mut_slice|from_mut_slice|as_bytes)$": "views over a caller-owned Rust object, not guest memory",
    r"^mmap::xen::MmapXenSlice::addr$|^mmap::xen::(MmapXen|MmapUnix|MmapXenUnix|MmapXenForeign|MmapXenGrant)::addr$|MmapXenTrait>::addr$|^mmap::xen::MmapXenTrait::addr$": "crate-private address getters of the Xen mapping owners",
    r"^mmap::unix::MmapRegionBuilder::with_raw_mmap_pointer$": "builder setter (takes, does not hand out)",
    r"^mmap::xen::__IncompleteArrayField::|^mmap::xen::GntDev|vmm_sys_util::fam::FamStruct>::": "FAM helper of the grant ioctl structs (host memory)",
    r"^mmap::xen::_::": "bitflags!-generated accessor over the flag word (host value)",
}


def rule_raw_handles(rep, prog):
    n = 0
    for path, f in prog.fns.items():
        if not f["reachable"] and not f["vis"] == "pub":
            continue
        out = prog.ty(f["output"])
        s = out.s
        gives_raw = "*mut " in s or "&mut " in s or re.search(r"&('\w+ )?T\b", s) is not None and "Atomic" in f["sig"]
        if not gives_raw:
            continue
        key = strip_generics(path)
        # builders returning Self, Debug etc.
        n += 1
        why = None
        for rx, reason in EXEMPT.items():
            if re.search(rx, key):
                why = reason
                break
        if why is None:
            # a pure forwarder of an exempt handle: an impl of the same trait method for a wrapper type (`impl GuestMemory for Arc<M>`)
            # whose only return is the inner object's method of the same name, called with this function's own arguments
            b = prog.by_id.get(path)
            if b is not None and b.impl_trait:
                rts = b.return_terms()
                if len(rts) == 1:
                    t = deep_strip(rts[0][1])
                    if t[0] == 'call' and canon(t[1]).split("::")[-1] == b.name and strip_generics(canon(t[1])).split("::")[-2:-1] == b.impl_trait.split("::")[-1:] \
                            and all(deep_strip(a)[:2] == ('param', i + 2) for i, a in enumerate(t[2][1:])):
                        inner_key = strip_generics(canon(t[1]))
                        for rx, reason in EXEMPT.items():
                            if re.search(rx, b.impl_trait + "::" + b.name) or re.search(rx, inner_key):
                                why = f"forwards to {inner_key} with its own arguments ({reason})"
                                break
        rep("R5.4.raw_handle", key, why is not None, "", f"returns `{s}`" + (f" — exempt: {why}" if why else
            " — a writable raw handle into (possibly) guest memory that is not on the documented exemption list: writes through it bypass dirty tracking"))
    return n


def run(ctx, progs):
    for cfg, prog in progs.items():
        ctx.config = cfg
        eff = effects.Effects(prog)
        sites, raw, host, used = rule_marking(ctx.ob, prog, eff)
        ctx.floor("R5.1.sites", len(sites), 7)
        ctx.floor("R5.1.raw_helpers", len(raw), 4)
        n = rule_derivations(ctx.ob, prog, eff)
        ctx.floor("R5.2.sites", n, 14)
        n = rule_forwarders(ctx.ob, prog, eff)
        ctx.floor("R5.3.forwarders", n, 12)
        n = rule_raw_handles(ctx.ob, prog)
        ctx.floor("R5.4.raw_handles", n, 5)
        # R5.5: a mark only covers what was written if the range loop reaches the page of the LAST byte (form rule shared with C09/C16)
        from . import c09
        if "bitmap::backend::atomic_bitmap::AtomicBitmap" in prog.adts:
            c09.rule_range_form(ctx.ob, prog)
        ctx.extra.setdefault("write_sites", {})[cfg] = {
            "guest_writes": [f"{s['body'].key}:{s['kind']}" for s in sites],
            "raw_helpers": [f"{canon(k[0])}#{k[1]}" for k in raw],
            "host_writes": [f"{s['body'].key}:{s['kind']}" for s in host]}
    ctx.config = "fixture"
    fx = fixtures.program()
    fixtures.expect(ctx, "c05", lambda rep, fxp: (rule_marking(rep, fxp, effects.Effects(fxp)), rule_derivations(rep, fxp, effects.Effects(fxp))),
                    {"R5.1.marked", "R5.1.extent", "R5.2.derivation"})
    ctx.not_decided = [
        "that set_reset_addr_range sets every page of first..=last (page arithmetic: C09/C16 form rules; the identity itself is number theory)",
        "kernel writes beyond `count` through libc::read (trusted)",
    ]
    return ctx.finish(
        "other",
        "Effect pairing over the resolved MIR of FULL and XEN: every guest-memory write primitive is discovered by callee, its pointer is classified by "
        "provenance (guard of accessor X / X's address field / atomic reference into X / bare pointer parameter => obligation pushed to callers / host "
        "buffer), and for each (write, accessor) pair a mark_dirty on X's own bitmap must post-dominate the write with an extent covering it. All accessor "
        "derivations must move pointer and bitmap by the same offset; forwarders must pass offsets through; raw-handle APIs must be on the documented "
        "exemption list. By induction over derivation chains this is soundness of tracking for every (operation, offset, length, chain) — not for sampled ones.",
        TRUSTED, "./check C05")
