"""C14 — stream transfers lose or duplicate nothing under short I/O, EINTR and errors.

Decides the control skeleton: every call to an UNKNOWN stream (generic F: ReadVolatile / WriteVolatile) from
the Bytes-level stream operations and from the default exact loops sits inside a retry loop that continues iff
the result is Err(IOError(e)) with e.kind() == Interrupted, and leaves with the untouched result otherwise;
exact loops advance by exactly the returned count and stop with the right error on 0; the guest-memory forms
continue across regions with the completed count (C03 R3.1) and turn a shortfall into PartialBuffer.
"""
import re

from ..mir import deep_strip, tstr, strip_generics, canon, subterms, is_call
from .. import effects
from ..checks import producer, error_passthrough
from ..pat import P, K, V, C, F, AGG, OKP, BIN, CLO, TUP, FN, ANY, ALT, match, closure_ret, unref
from . import c03, c07

CONFIGS = ("FULL", "XEN")
THOROUGH_CONFIGS = ("MIN",)
TRUSTED = [
    "io::Error::kind(); the stream implementation behind the generic parameter honours the ReadVolatile/WriteVolatile contract",
    "C03 (region chunking protocol) and C04 (copy primitives)",
    "rustc nightly MIR construction",
]
STREAM = re.compile(r"io::(ReadVolatile::read_volatile|WriteVolatile::write_volatile)$")
VM_ERR = "volatile_memory::Error"


def natural_loop(b, h, latches):
    return [h] + [x for x in b.live_blocks() if x != h and any(u in b.reachable(x, removed_nodes=(h,)) for u in latches)]


def unknown_stream_calls(prog):
    for b in prog.bodies:
        if b.kind == "Promoted":
            continue
        for c in b.calls():
            cn = canon(c.callee or "")
            if STREAM.search(cn) and not c.t.get("resolved"):
                yield b, c


def rule_exact_loops(ctx, prog, eff, rule="R14.2.exact_loop"):
    """default read_exact_volatile / write_all_volatile: advance the CURRENT buffer by exactly the returned count,
    Ok(0) => pinned ErrorKind, other errors unchanged, loop while not empty"""
    for tr, nm, meth, kind in (("io::ReadVolatile", "read_exact_volatile", "read_volatile", "UnexpectedEof"), ("io::WriteVolatile", "write_all_volatile", "write_volatile", "WriteZero")):
        b = prog.one(in_trait=tr, name=nm)
        cs = [c for c in b.calls() if canon(c.callee or "").endswith("::" + meth) and not c.t.get("resolved")]
        ok = len(cs) == 1
        d = f"{len(cs)} stream calls"
        if ok:
            S = deep_strip(b.call_term(cs[0].t, cs[0].pos, 0))
            bufarg = unref(cs[0].args()[1])
            cur_ok = bufarg[0] == 'var'
            adv_ok = init_ok = False
            if cur_ok:
                for pos, t in b.var_defs(bufarg[1]):
                    t = deep_strip(t)
                    p = producer(t)
                    if match(C("VolatileSlice::offset", P(2), K(0)), p, {}):
                        init_ok = True
                    elif match(C("VolatileSlice::offset", V("pb"), V("n")), p, {"pb": bufarg}):
                        e = {"pb": bufarg}
                        match(C("VolatileSlice::offset", V("pb"), V("n")), p, e)
                        nn = e["n"]
                        # ... and only where the count is known to be non-zero: advancing by 0 would repeat the same call forever
                        # (a stream at EOF): every Ok(0) must take the error exit
                        from ..mir import implies_nonzero
                        progress = implies_nonzero(b.facts_at(pos), nn) or any(
                            r[0] == 'cmp' and r[1] == 'Ne' and {deep_strip(r[2]), deep_strip(r[3])} == {deep_strip(nn), ('const', 0)} for r in b.facts_at(pos))
                        adv_ok = nn[0] == 'ok' and producer(nn) == S and progress
            # Ok(0) => the pinned error kind ; Err(e) => returned unchanged
            zero_ok = pass_ok = False
            for pos, rt in b.return_terms():
                facts = b.facts_at(pos)
                rd = deep_strip(rt)
                kinds = [s2[2] for s2 in subterms(rd) if s2[0] == 'agg' and str(s2[1]).endswith("io::ErrorKind")]
                if kinds:
                    z = any(r[0] == 'cmp' and r[1] == 'Eq' and r[3] == ('const', 0) and unref(r[2])[0] == 'ok' and producer(unref(r[2])) == S for r in facts)
                    zero_ok = kinds == [kind] and z
                elif error_passthrough(rd) == S:
                    pass_ok = True
            # loop guard: while !partial_buf.is_empty()
            guard_ok = any(r[0] == 'bool' and r[2] is False and match(C("VolatileSlice::is_empty", V("pb")), r[1], {"pb": bufarg}) for r in b.facts_at(cs[0].pos))
            ok = cur_ok and init_ok and adv_ok and zero_ok and pass_ok and guard_ok
            d = (f"retried call uses the current partial_buf [{cur_ok}] (init buf.offset(0) [{init_ok}], advanced only by offset(n) with n = the call's Ok payload [{adv_ok}]); "
                 f"Ok(0) => Err({kind}) [{zero_ok}]; other errors returned unchanged [{pass_ok}]; loop runs while !partial_buf.is_empty() [{guard_ok}]")
        ctx.ob(rule, b.key, ok, b.where(), d)

def run(ctx, progs):
    for cfg, prog in progs.items():
        ctx.config = cfg
        eff = effects.Effects(prog)
        err_adt = prog.adts[VM_ERR]
        io_idx = [v["name"] for v in err_adt["variants"]].index("IOError")
        n = 0
        for b, c in unknown_stream_calls(prog):
            n += 1
            S = deep_strip(b.call_term(c.t, c.pos, 0))
            inst = f"{b.key}|{canon(c.callee).split('::')[-1]}"
            # innermost loop containing the call
            hdrs = {}
            for (u, v) in b.loops():
                hdrs.setdefault(v, []).append(u)
            cands = []
            for h, ls in hdrs.items():
                blocks = natural_loop(b, h, ls)
                if c.bb in blocks:
                    cands.append((len(blocks), h, ls, blocks))
            if not cands and b.impl_trait in ("io::ReadVolatile", "io::WriteVolatile") and b.name == canon(c.callee).split('::')[-1]:
                # a forwarding implementation of the stream interface itself (`impl ReadVolatile for &mut T`, `Box<T>`): it IS a
                # single-shot stream call. If it returns the inner result unchanged,
                # an interruption reaches the caller's retry loop exactly as from the inner stream: nothing is swallowed or added.
                rts = [deep_strip(t) for _p, t in b.return_terms()]
                fw = rts == [S]
                ctx.ob("R14.1.retry_loop", inst, fw, c.where(),
                       f"forwarding impl of {b.impl_trait}::{b.name}: returns the inner stream's result unchanged [{fw}] (retrying stays with the callers, which this rule checks)")
                continue
            if not cands:
                ctx.ob("R14.1.retry_loop", inst, False, c.where(), "call to an unknown stream is not inside any loop: an interrupted call (EINTR) would be reported instead of retried")
                continue
            cands.sort()
            _sz, h, ls, blocks = cands[0]
            ok = len(ls) == 1
            detail = f"{len(ls)} back edge(s)"
            if ok:
                facts = b.facts_at((ls[0], 0))
                is_err = any(r[0] == 'discr' and r[2] == 1 and unref(r[1]) == S for r in facts)
                is_io = any(r[0] == 'discr' and r[2] == io_idx and unref(r[1]) == ('vfield', S, 'Err', 0) for r in facts)
                kinds = []
                for r in facts:
                    if r[0] == 'cmp' and r[1] == 'Eq' and is_call(unref(r[2]), "Error::kind"):
                        k = eff.inline(r[3])
                        for s2 in subterms(k):
                            if s2[0] == 'agg' and str(s2[1]).endswith("io::ErrorKind"):
                                kinds.append(s2[2])
                    # `matches!(e.kind(), ErrorKind::Interrupted)` tests the discriminant of kind(): the same condition
                    if r[0] == 'variant' and is_call(unref(r[1]), "Error::kind") and any(x == S for x in subterms(unref(r[1]))):
                        kinds.append(r[2])
                # no other condition may lead back: the latch facts that mention S must be exactly these
                extra = [r for r in facts if any(x == S for x in subterms(unref(r[1]) if r[0] != 'cmp' else unref(r[2]))) and not (
                    (r[0] in ('discr', 'variant') and unref(r[1]) in (S, ('vfield', S, 'Err', 0))) or (r[0] == 'cmp' and is_call(unref(r[2]), "Error::kind")) or
                    (r[0] in ('discr', 'variant') and is_call(unref(r[1]), "Error::kind")))]
                ok = is_err and is_io and kinds == ["Interrupted"] and not extra
                detail = f"back edge taken iff result is Err [{is_err}] of variant IOError [{is_io}] with kind() == {kinds} (must be exactly Interrupted); other conditions on the retry: {len(extra)}"
            ctx.ob("R14.1.retry_loop", inst, ok, c.where(), detail)
        ctx.floor("R14.1.unknown_stream_calls", n, 4)
        rule_exact_loops(ctx, prog, eff)
        # ------------------------------------------------------------ R14.3 slice forms
        SL = "volatile_memory::VolatileSlice"
        for nm, meth in (("read_volatile_from", "ReadVolatile::read_volatile"), ("write_volatile_to", "WriteVolatile::write_volatile")):
            bs = prog.find(adt=SL, trait="bytes::Bytes", name=nm)
            for b in bs:
                cs = [c for c in b.calls() if canon(c.callee or "").endswith(meth)]
                ok = False
                d = f"{len(cs)} stream calls"
                if len(cs) == 1:
                    target = unref(cs[0].args()[1])
                    off = OKP(C("VolatileSlice::offset", P(1), P(2)))
                    ok = match(C("Result::unwrap", C("VolatileSlice::subslice", off, K(0), C("cmp::min", C("VolatileSlice::len", off), P(4)))), target, {})
                    src_ok = unref(cs[0].args()[0])[:2] == ('param', 3)
                    rts = b.return_terms()
                    ret_ok = any(deep_strip(t) == deep_strip(b.call_term(cs[0].t, cs[0].pos, 0)) or (deep_strip(t)[0] == 'var') for _p, t in rts)
                    ok = ok and src_ok
                    d = f"target = offset(addr)?.subslice(0, min(len, count)) [{ok}] on the caller's stream [{src_ok}]"
                ctx.ob("R14.3.slice_form", b.key, ok, b.where(), d)
        c03.rule_slice_exact(ctx, prog, "R14.3.slice_exact_form")
        # ------------------------------------------------------------ R14.4 guest forms (shared with C03)
        c03.rule_try_access(ctx, prog, eff)
        c03.rule_clients(ctx, prog, eff)
        # the region-level exact / up-to stream forms forward to the slice-level form of the SAME name with their arguments in place
        # (an exact form forwarded to the up-to form would report success for a short transfer)
        c03.rule_region_forwarders(ctx, prog, eff)
    ctx.not_decided = ["byte-exactness under every fault script (needs execution against scripted streams)"]
    return ctx.finish(
        "other",
        "Loop recognition on the CFG: for every call to a stream of unknown type the innermost enclosing natural loop has one back edge, and the branch facts that dominate that "
        "back edge are exactly {result is Err, variant IOError, kind() == Interrupted}; the exact loops' buffer variable is advanced only by offset(n) for the returned n, Ok(0) maps "
        "to the pinned ErrorKind, other errors are returned unchanged; slice forms clamp the target to min(len, count); guest-memory forms reuse C03's client rules. The control "
        "skeleton is decided for all scripts of stream behaviour; byte movement is C04's concern.",
        TRUSTED, "./check C14")
