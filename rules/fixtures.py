"""Positive controls: run a rule over the deliberately broken fixture crate and demand that it fires."""
from . import facts, mir

_prog = None


def program():
    global _prog
    if _prog is None:
        p = facts.ensure_fixture()
        _prog = mir.Program(facts.load(p), "FIXTURE")
    return _prog


def expect(ctx, module, fn, expected_rules):
    """fn(rep, fixture_program) runs the rule(s); every rule in expected_rules must report >=1 failure."""
    fx = program()
    fired = {}
    passed = {}

    def rep(rule, instance, ok, where="", detail="", key=None):
        (passed if ok else fired).setdefault(rule, []).append(instance)
        return ok

    fn(rep, fx)
    for r in sorted(expected_rules):
        ctx.ob("fixture.positive_control", f"{module}:{r}", r in fired, "/verif/fixtures/src",
               f"rule {r} on the broken fixture reported {fired.get(r, [])}" if r in fired else
               f"rule {r} did NOT fire on its deliberately broken fixture: the rule is vacuous")
    return fired
