#!/usr/bin/env python3
"""Pretty-print bodies from a facts file (debug aid)."""
import json, sys

def place(p):
    s = f"_{p['l']}"
    for e in p.get('p', []):
        if e == '*': s = f"(*{s})"
        elif isinstance(e, dict):
            if 'f' in e: s += f".{e.get('name', e['f'])}"
            elif 'idx' in e: s += f"[_{e['idx']}]"
            elif 'downcast' in e: s += f" as {e.get('name', e['downcast'])}"
            elif 'cidx' in e: s += f"[c{e['cidx']}]"
            else: s += str(e)
        else: s += str(e)
    return s

def operand(o):
    if o['k'] in ('copy', 'move'):
        return ('move ' if o['k'] == 'move' else '') + place(o['pl'])
    if o['k'] == 'const':
        if 'fn' in o: return f"fn {o['fn']}"
        if 'val' in o: return f"const {o['val']}"
        return f"const<{o.get('sym', '?')}>"
    return o.get('s', '?')

def rvalue(r):
    k = r['k']
    if k == 'use': return operand(r['op'])
    if k == 'ref': return ('&mut ' if r['mut'] else '&') + place(r['pl'])
    if k == 'rawptr': return ('&raw mut ' if r['mut'] else '&raw const ') + place(r['pl'])
    if k == 'cast': return f"{operand(r['op'])} as<{r['cast']}> T{r['ty']}"
    if k == 'bin': return f"{r['op']}({operand(r['a'])}, {operand(r['b'])})"
    if k == 'un': return f"{r['op']}({operand(r['a'])})"
    if k == 'discr': return f"discriminant({place(r['pl'])})"
    if k == 'agg':
        nm = r.get('adt', r.get('def', r['agg']))
        if r['agg'] == 'adt': nm += '::' + r['variant']
        fl = r.get('fields')
        ops = [operand(x) for x in r['ops']]
        if fl: ops = [f"{f}: {o}" for f, o in zip(fl, ops)]
        return f"{nm} {{ {', '.join(ops)} }}"
    return r.get('s', k)

def term(t):
    k = t['k']
    if k == 'goto': return f"goto bb{t['t']}"
    if k == 'switch':
        return f"switch {operand(t['discr'])} [{', '.join(f'{v}: bb{b}' for v, b in t['targets'])}, otherwise: bb{t['otherwise']}]"
    if k == 'call':
        c = t.get('callee') or operand(t['func'])
        r = f" [=> {t['resolved']}]" if 'resolved' in t else ''
        return f"{place(t['dest'])} = {c}({', '.join(operand(a) for a in t['args'])}){r} -> bb{t['t']}"
    if k == 'assert':
        return f"assert({'' if t['expected'] else '!'}{operand(t['cond'])}, {t['msg']}({', '.join(operand(a) for a in t['ops'])})) -> bb{t['t']}"
    if k == 'drop': return f"drop({place(t['pl'])}) -> bb{t['t']}"
    return k

def show(b, types):
    print(f"== {b['id']}  [{b['file']}:{b['line']}] args={b['arg_count']}")
    for i, l in enumerate(b['locals']):
        print(f"   _{i}: {types[l['ty']]['s']}  {l.get('name', '')}")
    for i, blk in enumerate(b['blocks']):
        if blk['cleanup']: continue
        print(f" bb{i}:")
        for s in blk['stmts']:
            if s['k'] == 'assign':
                print(f"    {place(s['lhs'])} = {rvalue(s['rv'])}   // {s['ln']}")
            elif s['k'] in ('live', 'dead'):
                pass
            else:
                print(f"    {s}")
        print(f"    {term(blk['term'])}   // {blk['term'].get('ln')}")

if __name__ == '__main__':
    d = json.load(open(sys.argv[1]))
    pat = sys.argv[2] if len(sys.argv) > 2 else ''
    if pat == '--list':
        for b in d['bodies']: print(b['id'])
        sys.exit(0)
    for b in d['bodies']:
        if pat in b['id']:
            show(b, d['types'])
