"""A8: rustc as the decider for 'all client programs' — compile_fail doctests with compiling twins."""
import os
import re
import shutil
import subprocess
import fcntl

from . import facts

WDIR = os.path.join(facts.VERIF, "witness")
LINE = re.compile(r"^test (\S+) - (\S+) \(line (\d+)\)( - compile fail| - compile)? \.\.\. (\w+)")


def run(ctx, module, min_pairs=1):
    """Run the doctests of witness module `module`; record one obligation per witness item:
    its compile_fail test must pass (= the program is rejected with the stated error code) and its
    twin must compile."""
    os.makedirs(facts.CACHE, exist_ok=True)
    lock = open(os.path.join(facts.CACHE, "lock-witness"), "w")
    fcntl.flock(lock, fcntl.LOCK_EX)
    try:
        shutil.copyfile(os.path.join(facts.REPO, "Cargo.lock"), os.path.join(WDIR, "Cargo.lock"))
        env = dict(os.environ, CARGO_NET_OFFLINE="true", CARGO_TARGET_DIR=os.path.join(facts.CACHE, "target-witness"))
        env.pop("RUSTFLAGS", None)
        env.pop("RUSTC_WORKSPACE_WRAPPER", None)
        r = subprocess.run(["cargo", "+nightly", "test", "--doc", "--offline", "--", f"{module}::"], cwd=WDIR, env=env,
                           stdout=subprocess.PIPE, stderr=subprocess.STDOUT, text=True)
    finally:
        fcntl.flock(lock, fcntl.LOCK_UN)
        lock.close()
    items = {}
    for ln in r.stdout.splitlines():
        m = LINE.match(ln.strip())
        if not m:
            continue
        _f, name, line, kind, res = m.groups()
        kind = (kind or "").strip(" -")
        it = items.setdefault(name, {"fail": [], "pass": []})
        if kind == "compile fail":
            it["fail"].append(res == "ok")
        else:
            it["pass"].append(res == "ok")
    if not items:
        ctx.ob("witness.ran", f"{module}", False, WDIR, "no doctest results parsed:\n" + r.stdout[-1500:])
        return
    summary = {"items": len(items), "compile_fail_ok": 0, "twins_ok": 0}
    for name, it in sorted(items.items()):
        if it["fail"]:
            ok = all(it["fail"])
            summary["compile_fail_ok"] += 1 if ok else 0
            ctx.ob("witness.compile_fail", name, ok, f"{WDIR}/src/{module}.rs",
                   "program must be rejected by rustc with the stated error code" + ("" if ok else " — it compiled, or failed with a different error"))
            tok = bool(it["pass"]) and all(it["pass"])
            summary["twins_ok"] += 1 if tok else 0
            ctx.ob("witness.twin_compiles", name, tok, f"{WDIR}/src/{module}.rs",
                   "the twin differing only in the offending line must compile" + ("" if tok else " — it does not: the witness is stale (API renamed?)"),
                   key=f"{name}.twin")
        else:
            ok = bool(it["pass"]) and all(it["pass"])
            summary["twins_ok"] += 1 if ok else 0
            ctx.ob("witness.compile_pass", name, ok, f"{WDIR}/src/{module}.rs", "program must compile" + ("" if ok else ":\n" + _fail_text(r.stdout, name)))
    ctx.floor(f"witness[{module}]", len(items), min_pairs)
    ctx.witness = dict(ctx.witness or {}, **{module: summary})


def _fail_text(out, name):
    i = out.find(f"---- ")
    return out[i:i + 1200] if i >= 0 else out[-800:]
