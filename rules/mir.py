"""Program model over vmfacts JSON: bodies, CFG, dominance, term resolution (A1), call graph."""
import re
from collections import defaultdict

# ----------------------------------------------------------------------------- helpers


def strip_generics(s):
    """`a::B::<'a, T>::f` -> `a::B::f` ; keeps `<X as Y>::f` prefixes intact apart from generics."""
    out = []
    depth = 0
    i = 0
    while i < len(s):
        c = s[i]
        if c == '<' and (i >= 2 and s[i - 2:i] == '::'):
            # turbofish-style generic list: drop it together with the preceding '::'
            depth = 1
            j = i + 1
            while j < len(s) and depth:
                if s[j] == '<':
                    depth += 1
                elif s[j] == '>' and s[j - 1] != '-':
                    depth -= 1
                j += 1
            # remove trailing '::' already emitted
            if out[-2:] == [':', ':']:
                out = out[:-2]
            i = j
            continue
        out.append(c)
        i += 1
    return ''.join(out)


def canon(path):
    """canonical callee name: `<X as T<..>>::m` -> `T::m`; generics stripped"""
    p = path
    m = re.match(r"^<(.+) as ([^>]+?)(<.*>)?>::(\w+)$", p)
    if m:
        r = strip_generics(m.group(2)) + "::" + m.group(4)
    else:
        r = strip_generics(p)
    # x.min(y) and std::cmp::min(x, y) are the same function
    if r.endswith("cmp::Ord::min") or r.endswith("cmp::Ord::max"):
        r = "std::cmp::" + r.rsplit("::", 1)[1]
    return r


def is_call(t, *names):
    """term `t` is a call whose canonical callee ends with one of `names`"""
    if not (isinstance(t, tuple) and t and t[0] == 'call'):
        return False
    c = canon(t[1])
    return any(c == n or c.endswith("::" + n) for n in names)


class Type:
    __slots__ = ("prog", "id", "j")

    def __init__(self, prog, i):
        self.prog, self.id, self.j = prog, i, prog.types[i]

    @property
    def s(self):
        return self.j["s"]

    @property
    def k(self):
        return self.j["k"]

    def __repr__(self):
        return self.s

    def peel(self):
        """strip references and raw pointers"""
        t = self
        while t.k in ("ref", "ptr"):
            t = Type(self.prog, t.j["ty"])
        return t

    @property
    def adt(self):
        t = self.peel()
        return t.j.get("def") if t.k == "adt" else None

    def args(self):
        return [Type(self.prog, a) for a in self.j.get("args", []) if isinstance(a, int)]

    def inner(self):
        return Type(self.prog, self.j["ty"]) if "ty" in self.j else None


# ----------------------------------------------------------------------------- terms
# A term is a nested tuple; first element is the tag.
#   ('param', i, name) ('var', local, name) ('const', v) ('sym', s) ('fn', path)
#   ('field', base, name) ('vfield', base, variant, idx) ('deref', t) ('ref', t) ('index', base, idx)
#   ('bin', op, a, b) ('un', op, a) ('cast', kind, t) ('discr', t)
#   ('agg', name, variant, (terms...)) ('call', callee, (terms...), (type strs...))
#   ('ok', t)  -- success payload of a Result/Option/ControlFlow valued term
#   ('unknown', why)


def tstr(t, depth=0):
    if not isinstance(t, tuple):
        return str(t)
    k = t[0]
    if k == 'param':
        return t[2] or f"arg{t[1]}"
    if k == 'var':
        return f"{t[2] or '_' + str(t[1])}*"
    if k == 'const':
        return str(t[1])
    if k == 'sym':
        return f"<{t[1]}>"
    if k == 'fn':
        return f"fn:{t[1]}"
    if k == 'field':
        return f"{tstr(t[1])}.{t[2]}"
    if k == 'vfield':
        return f"{tstr(t[1])}@{t[2]}.{t[3]}"
    if k == 'deref':
        return f"*{tstr(t[1])}"
    if k == 'ref':
        return f"&{tstr(t[1])}"
    if k == 'index':
        return f"{tstr(t[1])}[{tstr(t[2])}]"
    if k == 'bin':
        return f"({tstr(t[2])} {t[1]} {tstr(t[3])})"
    if k == 'un':
        return f"{t[1]}({tstr(t[2])})"
    if k == 'cast':
        return f"{tstr(t[2])}"
    if k == 'discr':
        return f"discr({tstr(t[1])})"
    if k == 'agg':
        return f"{t[1]}{'::' + t[2] if t[2] else ''}{{{', '.join(tstr(x) for x in t[3])}}}"
    if k == 'call':
        return f"{short(t[1])}({', '.join(tstr(x) for x in t[2])})"
    if k == 'ok':
        return f"ok({tstr(t[1])})"
    return str(t)


def short(path):
    p = strip_generics(path)
    parts = p.split('::')
    return '::'.join(parts[-2:]) if len(parts) > 1 else p


LEAF_TAGS = ('param', 'var', 'const', 'sym', 'fn', 'unknown')


def map_children(t, f):
    """rebuild term t with f applied to every direct child term (tag-aware)"""
    k = t[0]
    if k in LEAF_TAGS:
        return t
    if k == 'call':
        return ('call', t[1], tuple(f(a) for a in t[2]), t[3] if len(t) > 3 else ())
    if k == 'agg':
        return ('agg', t[1], t[2], tuple(f(a) for a in t[3]))
    if k == 'cast':
        return ('cast', t[1], f(t[2]), t[3] if len(t) > 3 else None)
    out = [k]
    for x in t[1:]:
        if isinstance(x, tuple) and x and isinstance(x[0], str):
            out.append(f(x))
        else:
            out.append(x)
    return tuple(out)


def children(t):
    k = t[0]
    if k in LEAF_TAGS:
        return []
    if k == 'call':
        return list(t[2])
    if k == 'agg':
        return list(t[3])
    if k == 'cast':
        return [t[2]]
    return [x for x in t[1:] if isinstance(x, tuple) and x and isinstance(x[0], str)]


def subterms(t):
    yield t
    if isinstance(t, tuple) and t:
        for c in children(t):
            yield from subterms(c)


def strip_casts(t):
    """drop int<->int / ptr<->ptr / ptr<->int casts and copies"""
    while isinstance(t, tuple) and t[0] == 'cast':
        t = t[2]
    return t


def deep_strip(t):
    """remove all casts inside a term; normalise deref(ref(x)) -> x"""
    if not isinstance(t, tuple) or not t:
        return t
    if t[0] == 'cast':
        return deep_strip(t[2])
    r = map_children(t, deep_strip)
    if r[0] == 'deref' and isinstance(r[1], tuple) and r[1][0] == 'ref':
        return r[1][1]
    return r


# ----------------------------------------------------------------------------- bodies

class CallSite:
    __slots__ = ("body", "bb", "t")

    def __init__(self, body, bb, t):
        self.body, self.bb, self.t = body, bb, t

    @property
    def callee(self):
        return self.t.get("callee")

    @property
    def target(self):
        """best known callee: resolved instance if any"""
        return self.t.get("resolved") or self.t.get("callee")

    @property
    def name(self):
        return self.t.get("callee_name")

    @property
    def pos(self):
        return (self.bb, len(self.body.blocks[self.bb]["stmts"]))

    @property
    def line(self):
        return self.t.get("ln")

    def arg(self, i):
        return self.body.term(self.t["args"][i], self.pos)

    def args(self):
        return [self.body.term(a, self.pos) for a in self.t["args"]]

    def arg_ty(self, i):
        return Type(self.body.prog, self.t["arg_tys"][i])

    def callee_args(self):
        return [Type(self.body.prog, a) for a in self.t.get("callee_args", [])]

    def where(self):
        return f"{self.body.file}:{self.line} in {self.body.id}"

    def __repr__(self):
        return f"<call {self.callee} @{self.where()}>"


class Body:
    def __init__(self, prog, j):
        self.prog = prog
        self.j = j
        self.id = j["id"]
        self.key = strip_generics(j["id"])
        self.name = j["name"]
        self.kind = j["kind"]
        self.file = j["file"]
        self.line = j["line"]
        self.blocks = j["blocks"]
        self.locals = j["locals"]
        self.arg_count = j["arg_count"]
        self.in_trait = j.get("in_trait")
        self.impl_trait = j.get("impl_trait")
        self.root = j.get("root")
        self.from_expansion = j.get("from_expansion", False)
        self._succ = None
        self._pred = None
        self._idom = None
        self._defs = None
        self._terms = {}
        self._reach_cache = {}

    def __repr__(self):
        return f"<Body {self.id}>"

    @property
    def self_ty(self):
        return Type(self.prog, self.j["self_ty"]) if "self_ty" in self.j else None

    @property
    def self_adt(self):
        t = self.self_ty
        return t.adt if t else None

    def where(self, ln=None):
        return f"{self.file}:{ln if ln is not None else self.line} in {self.id}"

    def local_ty(self, l):
        return Type(self.prog, self.locals[l]["ty"])

    def local_name(self, l):
        return self.locals[l].get("name")

    # ---------------------------------------------------------------- CFG
    def _build_cfg(self):
        succ = []
        for b in self.blocks:
            t = b["term"]
            k = t["k"]
            if b["cleanup"]:
                succ.append([])
                continue
            if k == "goto":
                s = [t["t"]]
            elif k == "switch":
                s = [x[1] for x in t["targets"]] + [t["otherwise"]]
                # a branch on a literal — what a helper called with `true` / `false` looks like after inlining (its parameter becomes
                # an assignment of the constant): only the matching arm can run
                cv = self._const_of_operand(t["discr"])
                if cv is not None:
                    hit = [tg for v, tg in t["targets"] if v == cv]
                    s = [hit[0]] if hit else [t["otherwise"]]
            elif k in ("call", "assert", "drop"):
                s = [t["t"]] if t.get("t") is not None else []
            else:
                s = []
            # dedupe, keep order
            seen = []
            for x in s:
                if x not in seen:
                    seen.append(x)
            succ.append(seen)
        pred = [[] for _ in self.blocks]
        for i, ss in enumerate(succ):
            for x in ss:
                pred[x].append(i)
        self._succ, self._pred = succ, pred

    def _const_of_operand(self, o, depth=0):
        """integer value of an operand that is a literal, or a local defined exactly once by a literal / a copy of such a local"""
        if o.get("k") == "const" and "val" in o and "uneval" not in o:
            try:
                return int(o["val"])
            except (TypeError, ValueError):
                return None
        if o.get("k") in ("copy", "move") and "p" not in o["pl"] and depth < 4:
            l = o["pl"]["l"]
            if 1 <= l <= self.arg_count:
                return None
            n_defs = 0
            rv0 = None
            for blk in self.blocks:
                if blk["cleanup"]:
                    continue
                for st in blk["stmts"]:
                    if st["k"] == "assign" and st["lhs"]["l"] == l:
                        n_defs += 1
                        rv0 = st["rv"] if "p" not in st["lhs"] else None
                tm = blk["term"]
                if tm["k"] == "call" and tm["dest"]["l"] == l:
                    n_defs += 1
                    rv0 = None
            if n_defs == 1 and rv0 is not None and rv0.get("k") == "use":
                return self._const_of_operand(rv0["op"], depth + 1)
        return None

    def succ(self, bb):
        if self._succ is None:
            self._build_cfg()
        return self._succ[bb]

    def pred(self, bb):
        if self._succ is None:
            self._build_cfg()
        return self._pred[bb]

    def reachable(self, start=0, removed_edges=(), removed_nodes=()):
        key = (start, tuple(removed_edges), tuple(removed_nodes))
        if key in self._reach_cache:
            return self._reach_cache[key]
        seen = set()
        if start in removed_nodes:
            self._reach_cache[key] = seen
            return seen
        st = [start]
        seen.add(start)
        while st:
            u = st.pop()
            for v in self.succ(u):
                if (u, v) in removed_edges or v in removed_nodes or v in seen:
                    continue
                seen.add(v)
                st.append(v)
        self._reach_cache[key] = seen
        return seen

    def live_blocks(self):
        return self.reachable(0)

    def node_dominates(self, a, b):
        """block a dominates block b (every path entry->b passes a)"""
        if a == b:
            return True
        return b not in self.reachable(0, removed_nodes=(a,))

    def edge_dominates(self, u, v, b):
        """every path entry -> block b passes through the edge u->v"""
        if b not in self.live_blocks():
            return True
        return b not in self.reachable(0, removed_edges=((u, v),))

    def pos_dominates(self, a, b):
        """position a=(bb,i) dominates position b"""
        if a[0] == b[0]:
            return a[1] <= b[1]
        return self.node_dominates(a[0], b[0])

    def can_reach(self, a, b):
        """is there a path from block a to block b (a != b requires >=1 edge; a==b true)"""
        return b in self.reachable(a)

    def exits(self):
        """blocks ending in Return"""
        return [i for i, b in enumerate(self.blocks) if b["term"]["k"] == "return" and i in self.live_blocks()]

    def postdominates(self, a, b):
        """block a post-dominates block b w.r.t. normal returns: every path b -> return passes a"""
        if a == b:
            return True
        r = self.reachable(b, removed_nodes=(a,))
        return not any(x in r for x in self.exits())

    def loops(self):
        """back edges (u,v) where v dominates u"""
        out = []
        for u in self.live_blocks():
            for v in self.succ(u):
                if self.node_dominates(v, u):
                    out.append((u, v))
        return out

    # ---------------------------------------------------------------- defs
    def _build_defs(self):
        defs = defaultdict(list)  # local -> [(pos, kind, payload)] ; whole-local definitions only
        partial = defaultdict(list)
        for bi, b in enumerate(self.blocks):
            if b["cleanup"]:
                continue
            for si, s in enumerate(b["stmts"]):
                if s["k"] == "assign":
                    lhs = s["lhs"]
                    if "p" not in lhs:
                        defs[lhs["l"]].append(((bi, si), "rv", s["rv"]))
                    else:
                        partial[lhs["l"]].append(((bi, si), s))
            t = b["term"]
            if t["k"] == "call":
                d = t["dest"]
                if "p" not in d:
                    defs[d["l"]].append(((bi, len(b["stmts"])), "call", t))
                else:
                    partial[d["l"]].append(((bi, len(b["stmts"])), t))
        self._defs = defs
        self._partial = partial

    def defs(self, l):
        if self._defs is None:
            self._build_defs()
        return self._defs.get(l, [])

    def partial_defs(self, l):
        if self._defs is None:
            self._build_defs()
        return self._partial.get(l, [])

    # ---------------------------------------------------------------- term resolution
    def term(self, operand, at=None, depth=0):
        k = operand["k"]
        if k == "const":
            if "fn" in operand:
                return ('fn', operand["fn"])
            if "promoted" in operand and "uneval" in operand:
                return ('sym', f"{operand['uneval']}::promoted[{operand['promoted']}]")
            if "val" in operand:
                v = operand["val"]
                try:
                    v = int(v)
                except (TypeError, ValueError):
                    pass
                if "uneval" in operand:
                    return ('sym', operand["uneval"])
                return ('const', v)
            if "uneval" in operand:
                return ('sym', operand["uneval"])
            return ('sym', operand.get("sym", "?"))
        if k in ("copy", "move"):
            return self.place_term(operand["pl"], at, depth)
        return ('unknown', operand.get("s", "?"))

    def local_term(self, l, at, depth):
        if depth > 60:
            return ('unknown', 'depth')
        key = l
        if key in self._terms:
            return self._terms[key]
        ds = self.defs(l)
        pds = self.partial_defs(l)
        if 1 <= l <= self.arg_count and not ds:
            t = ('param', l, self.local_name(l))
        elif len(ds) == 1 and not pds:
            pos, kind, payload = ds[0]
            self._terms[key] = ('var', l, self.local_name(l))  # cycle guard
            if kind == "rv":
                t = self.rvalue_term(payload, pos, depth + 1)
            else:
                t = self.call_term(payload, pos, depth + 1)
        elif len(ds) == 0 and pds and all(isinstance(p[1], dict) and p[1].get("k") == "assign" for p in pds):
            # built field by field (tuples `(a, b) = ...`): represent as var
            t = ('var', l, self.local_name(l))
        else:
            t = ('var', l, self.local_name(l))
        self._terms[key] = t
        return t

    _NONOK_VARIANTS = ('Err', 'None', 'Break')

    def ok_def(self, l, depth=0):
        """A local assigned on several paths (e.g. the result of an inlined helper) of which exactly ONE definition is a
        success aggregate Ok{x}/Some{x}/Continue{x} and every other one certainly is not (Err{..}/None/Break{..} aggregate, or
        FromResidual::from_residual, which only builds failures): returns (pos_of_that_def, x). Whenever the local is known
        to hold a success value, control came through that definition."""
        if depth > 6:
            return None
        cache = self.__dict__.setdefault("_okdefs", {})
        if l in cache:
            return cache[l]
        cache[l] = None
        ds = self.defs(l)
        if self.partial_defs(l) or not ds:
            return None
        if len(ds) == 1:
            pos, kind, payload = ds[0]
            if kind == "rv" and payload.get("k") == "use" and payload["op"].get("k") in ("move", "copy") and "p" not in payload["op"]["pl"]:
                r = self.ok_def(payload["op"]["pl"]["l"], depth + 1)
                cache[l] = r
                return r
            return None
        good = []
        for pos, dt in self.var_defs(l):
            dt = deep_strip(dt)
            if dt[0] == 'agg' and dt[2] in self._OK_VARIANTS and len(dt[3]) == 1:
                good.append((pos, dt[3][0]))
            elif dt[0] == 'agg' and dt[2] in self._NONOK_VARIANTS:
                continue
            elif dt[0] == 'call' and canon(dt[1]).endswith("FromResidual::from_residual"):
                continue
            else:
                return None
        if len(good) == 1:
            cache[l] = good[0]
        return cache[l]

    def var_defs(self, l):
        """terms of all whole-local definitions of a multiply-assigned local"""
        out = []
        for pos, kind, payload in self.defs(l):
            if kind == "rv":
                out.append((pos, self.rvalue_term(payload, pos, 1)))
            else:
                out.append((pos, self.call_term(payload, pos, 1)))
        return out

    def place_term(self, pl, at, depth):
        t = self.local_term(pl["l"], at, depth)
        for e in pl.get("p", []):
            if e == '*':
                t = t[1] if t[0] == 'ref' else ('deref', t)
            elif isinstance(e, dict) and 'f' in e:
                if t[0] == 'downcast':
                    t = ('vfield', t[1], t[2], e['f'])
                    t = self._simp_vfield(t)
                elif t[0] == 'agg' and e['f'] < len(t[3]) and t[1] in ('tuple',):
                    t = t[3][e['f']]
                elif t[0] == 'agg' and e['f'] < len(t[3]) and "{closure" in str(t[1]):
                    # a capture read through the environment of a closure whose body was inlined where it is called
                    t = t[3][e['f']]
                elif t[0] == 'agg' and e['f'] < len(t[3]) and self.prog.adts.get(strip_generics(str(t[1])), {}).get("kind") == "struct" \
                        and len(t[3]) == len(self.prog.adts[strip_generics(str(t[1]))]["variants"][0]["fields"]):
                    # a field of a crate-local struct that was just built (e.g. the value returned by an inlined helper)
                    t = t[3][e['f']]
                else:
                    t = ('field', t, e.get('name', str(e['f'])))
            elif isinstance(e, dict) and 'downcast' in e:
                t = ('downcast', t, e.get('name', e['downcast']))
            elif isinstance(e, dict) and 'idx' in e:
                t = ('index', t, self.local_term(e['idx'], at, depth + 1))
            elif isinstance(e, dict) and 'cidx' in e:
                t = ('index', t, ('const', e['cidx']))
            else:
                t = ('proj', t, str(e))
        return t

    _OK_VARIANTS = ('Continue', 'Ok', 'Some')

    def _simp_vfield(self, t):
        _, base, variant, idx = t
        r = t
        if variant in self._OK_VARIANTS and idx == 0:
            # Try::branch(x) -> Continue(payload of x)
            b = base
            if b[0] == 'call' and canon(b[1]).endswith('Try::branch'):
                b = b[2][0]
            # the success payload of x.ok_or(e) / x.filter(p) / x.ok() / x.map_err(f) is the success payload of x
            bb = deep_strip(b)
            while bb[0] == 'call' and bb[2] and canon(bb[1]).split("::")[-2:] in (["Option", "ok_or"], ["Option", "ok_or_else"], ["Option", "filter"], ["Result", "ok"], ["Result", "map_err"]):
                bb = deep_strip(bb[2][0])
                b = bb
            r = ('ok', b)
        # a payload read from a multiply-defined local (match arms, the result of an inlined helper): if exactly one of its
        # definitions builds this variant, that definition's payload is the value
        c = self.phi_candidates(r)
        if c is not None and len(c) == 1:
            return c[0][1]
        return r

    def _ty_is_result(self, t):
        return t[0] == 'var' and self.local_ty(t[1]).s.startswith("std::result::Result<")

    def _is_phi(self, l):
        return l > self.arg_count and not self.partial_defs(l) and len(self.defs(l)) >= 2

    def phi_candidates(self, t, depth=0):
        """[(pos, term)]: the values a term rooted in a multiply-defined local can take, after following the variant selections
        written in the term (`ok(v)`, `v@Variant.i`, nested). A definition that builds another variant (or a failure through
        from_residual) is not a candidate; any definition of unknown shape makes the answer None (unknown)."""
        if depth > 6 or not isinstance(t, tuple) or not t:
            return None
        k = t[0]
        if k == 'var':
            if not self._is_phi(t[1]):
                return None
            out = []
            for pos, d in self.var_defs(t[1]):
                d = deep_strip(d)
                if d[0] == 'var' and d[1] != t[1] and self._is_phi(d[1]):
                    sub = self.phi_candidates(d, depth + 1)
                    if sub is None:
                        return None
                    out.extend(sub)
                else:
                    out.append((pos, d))
            return out
        if k == 'vfield' and t[2] in ('Break', 'Continue') and deep_strip(t[1])[0] == 'call' and canon(deep_strip(t[1])[1]).endswith('Try::branch'):
            return None      # the residual of `?`: read by return_terms()/_failure_alternatives, not a payload selection
        if k in ('ok', 'vfield'):
            base = deep_strip(t[1])
            if base[0] == 'call' and canon(base[1]).endswith('Try::branch') and len(base[2]) == 1:
                base = deep_strip(base[2][0])
            cs = self.phi_candidates(base, depth + 1)
            if cs is None:
                return None
            want = self._OK_VARIANTS if k == 'ok' else (t[2],)
            idx = 0 if k == 'ok' else t[3]
            out = []
            for pos, d in cs:
                d = deep_strip(d)
                if d[0] == 'agg' and d[2] is not None:
                    if d[2] in want and idx < len(d[3]):
                        out.append((pos, deep_strip(d[3][idx])))
                    continue
                if d[0] == 'call' and canon(d[1]).endswith("FromResidual::from_residual"):
                    continue        # builds a failure: never the selected (success) variant
                if d[0] == 'call' and len(d[2]) == 2 and canon(d[1]).split("::")[-2:] in (["Result", "map"], ["Option", "map"]) and deep_strip(d[2][1])[0] == 'fn':
                    # `x.map(Ctor)`: a success of x wrapped by a constructor used as a function (Some, Ok, a tuple struct)
                    inner, ctor = deep_strip(d[2][0]), str(deep_strip(d[2][1])[1])
                    last = ctor.split("::")[-1]
                    if k == 'ok' and idx == 0:
                        if last in ("Some", "Ok", "Err"):
                            wrapped = ('agg', "std::option::Option" if last == "Some" else "std::result::Result", last, (('ok', inner),))
                        elif strip_generics(ctor) in self.prog.adts:
                            wrapped = ('agg', strip_generics(ctor), last, (('ok', inner),))
                        else:
                            wrapped = ('call', ctor, (('ok', inner),), ())
                        out.append((pos, wrapped))
                    elif k == 'vfield' and t[2] in ('Err',):
                        out.append((pos, ('vfield', inner, 'Err', t[3])))
                    continue
                if d[0] == 'call':
                    # a definition by a fallible call: if it is the selected variant, the value is that call's payload
                    out.append((pos, ('ok', d) if k == 'ok' else ('vfield', d, t[2], t[3])))
                    continue
                return None
            return out
        return None

    def rvalue_term(self, rv, pos, depth):
        k = rv["k"]
        if k == "use":
            return self.term(rv["op"], pos, depth)
        if k in ("ref", "rawptr"):
            inner = self.place_term(rv["pl"], pos, depth)
            if inner[0] == 'deref':
                return inner[1]
            return ('ref', inner)
        if k == "cast":
            return ('cast', rv["cast"], self.term(rv["op"], pos, depth), self.prog.types[rv["ty"]]["s"])
        if k == "bin":
            return ('bin', rv["op"], self.term(rv["a"], pos, depth), self.term(rv["b"], pos, depth))
        if k == "un":
            return ('un', rv["op"], self.term(rv["a"], pos, depth))
        if k == "discr":
            return ('discr', self.place_term(rv["pl"], pos, depth))
        if k == "agg":
            nm = rv.get("adt") or rv.get("def") or rv["agg"]
            return ('agg', nm, rv.get("variant"), tuple(self.term(o, pos, depth) for o in rv["ops"]))
        if k == "repeat":
            # [elem; N]: an array of known length
            return ('agg', 'repeat', str(rv.get("count")), (self.term(rv["op"], pos, depth),))
        return ('unknown', rv.get("s", k))

    def call_term(self, t, pos, depth):
        callee = t.get("resolved") or t.get("callee") or "?"
        args = tuple(self.term(a, pos, depth) for a in t["args"])
        tys = tuple(self.prog.types[a]["s"] for a in t.get("callee_args", []))
        return ('call', callee, args, tys)

    # ---------------------------------------------------------------- iteration
    def calls(self, live_only=True):
        live = self.live_blocks() if live_only else None
        for bi, b in enumerate(self.blocks):
            if b["cleanup"] or (live is not None and bi not in live):
                continue
            t = b["term"]
            if t["k"] == "call":
                yield CallSite(self, bi, t)
            elif t["k"] == "goto" and t.get("inl_term") is not None:
                # the call of a known function that was inlined here along a new call edge (inline.py): still a call of that function
                yield CallSite(self, bi, t["inl_term"])

    def stmts(self):
        live = self.live_blocks()
        for bi, b in enumerate(self.blocks):
            if b["cleanup"] or bi not in live:
                continue
            for si, s in enumerate(b["stmts"]):
                yield (bi, si), s

    def terms(self):
        live = self.live_blocks()
        for bi, b in enumerate(self.blocks):
            if b["cleanup"] or bi not in live:
                continue
            yield (bi, len(b["stmts"])), b["term"]

    def return_terms(self):
        """terms assigned to _0 (whole) with their positions. A failure forwarded from a multiply-defined local (the result
        of an inlined helper: `from_residual(branch(v)@Break)` or `v` itself) is split into one alternative per failing
        definition of `v`, positioned AT that definition, so that the facts of the helper's own path apply."""
        out = []

        def expand(pos, t, depth):
            d = deep_strip(t)
            if d[0] == 'var' and depth < 4 and d[1] != 0 and d[1] > self.arg_count and not self.partial_defs(d[1]) and len(self.defs(d[1])) >= 2:
                # phi of an inlined helper's result: one alternative per definition, positioned at the definition
                for p2, t2 in self.var_defs(d[1]):
                    expand(p2, t2, depth + 1)
                return
            alts = self._failure_alternatives(t)
            if alts:
                out.extend(alts)
            else:
                out.append((pos, t))
        for pos, t in self.var_defs(0):
            expand(pos, t, 0)
        return out

    def _failure_alternatives(self, t):
        d = deep_strip(t)
        wrap = False
        if d[0] == 'call' and canon(d[1]).endswith("FromResidual::from_residual") and len(d[2]) == 1:
            x = deep_strip(d[2][0])
            # Break payload of Try::branch(v)
            if x[0] == 'vfield' and x[2] == 'Break' and deep_strip(x[1])[0] == 'call' and canon(deep_strip(x[1])[1]).endswith("Try::branch"):
                v = deep_strip(deep_strip(x[1])[2][0])
                wrap = True
            else:
                return None
        else:
            return None
        if v[0] != 'var':
            return None
        l = v[1]
        # follow plain moves
        for _ in range(4):
            ds = self.defs(l)
            if len(ds) == 1 and ds[0][1] == "rv" and ds[0][2].get("k") == "use" and ds[0][2]["op"].get("k") in ("move", "copy") and "p" not in ds[0][2]["op"]["pl"]:
                l = ds[0][2]["op"]["pl"]["l"]
            else:
                break
        if self.ok_def(l) is None and not all(deep_strip(dt)[0] in ('agg', 'call') for _p, dt in self.var_defs(l)):
            return None
        alts = []
        for pos, dt in self.var_defs(l):
            dt = deep_strip(dt)
            if dt[0] == 'agg' and dt[2] in self._OK_VARIANTS:
                continue
            if dt[0] == 'agg' and dt[2] in ('Err',):
                alts.append((pos, dt))
            elif dt[0] == 'call' and canon(dt[1]).endswith("FromResidual::from_residual"):
                sub = self._failure_alternatives(dt)
                if sub:
                    alts.extend(sub)
                else:
                    alts.append((pos, dt))
            elif dt[0] == 'call':
                # defined by a fallible call (possibly `x.map(Ctor)`): its failure, if any, is forwarded unchanged
                x = dt
                while x[0] == 'call' and len(x[2]) == 2 and canon(x[1]).endswith("Result::map"):
                    x = deep_strip(x[2][0])
                alts.append((pos, ('agg', 'std::result::Result', 'Err', (('vfield', x, 'Err', 0),))))
            else:
                return None
        return alts

    # ---------------------------------------------------------------- branch facts
    def branch_facts(self):
        """For every switch on a boolean/comparison: list of
        (bb, cond_term, [(edge_target, truth)]) where truth is the boolean value of cond on that edge."""
        out = []
        for pos, t in self.terms():
            if t["k"] != "switch":
                continue
            dty = self.prog.types[t["discr_ty"]]["s"]
            ct = self.term(t["discr"], pos)
            edges = []
            if dty == "bool":
                for v, b in t["targets"]:
                    edges.append((b, bool(v)))
                vals = [v for v, _ in t["targets"]]
                if len(vals) == 1:
                    edges.append((t["otherwise"], not bool(vals[0])))
                out.append((pos[0], ct, edges))
            else:
                edges = [(b, v) for v, b in t["targets"]]
                other = None
                # `match` on a two-variant enum with one listed arm: the otherwise edge IS the other variant
                if len(edges) == 1 and edges[0][1] in (0, 1) and self._nvariants_of_switch(t, pos) == 2:
                    other = 1 - edges[0][1]
                out.append((pos[0], ct, edges + [(t["otherwise"], other)]))
        return out

    def _nvariants_of_switch(self, t, pos):
        d = t["discr"]
        if d.get("k") not in ("move", "copy") or "p" in d["pl"]:
            return None
        ds = self.defs(d["pl"]["l"])
        if len(ds) == 1 and ds[0][1] == "rv" and ds[0][2].get("k") == "discr":
            return ds[0][2].get("nvariants")
        return None

    def variant_names_of_switch(self, bb):
        """names of the variants, by discriminant index, of the enum the switch at the end of block bb tests (None if unknown)"""
        t = self.blocks[bb]["term"]
        if t["k"] != "switch":
            return None
        d = t["discr"]
        if d.get("k") not in ("move", "copy") or "p" in d["pl"]:
            return None
        ds = self.defs(d["pl"]["l"])
        if len(ds) == 1 and ds[0][1] == "rv" and ds[0][2].get("k") == "discr":
            names, vals = ds[0][2].get("variant_names"), ds[0][2].get("variant_discrs")
            if not names or not vals or len(names) != len(vals):
                return None
            # by the value the switch tests (a negative discriminant shows as its two's complement in the enum's tag width)
            out = {}
            for nme, v in zip(names, vals):
                try:
                    v = int(v)
                except ValueError:
                    return None
                out[v] = nme
                for bits in (8, 16, 32, 64):
                    if v >= (1 << (bits - 1)):
                        out[v - (1 << bits)] = nme      # stored unsigned, seen signed
                    if v < 0:
                        out[v + (1 << bits)] = nme
            return out
        return None


# ----------------------------------------------------------------------------- program

class Program:
    def __init__(self, j, config=None, inline=True):
        self.j = j
        self.config = config or j["header"].get("config")
        self.types = j["types"]
        self._pristine = None
        self.is_pristine = not inline
        if inline:
            import json as _json
            self._raw_json = _json.dumps(j)      # the program as written (before the inlining normal form), for rules that need both views
            from . import inline as _inl
            self.inline_report = _inl.inline_program(j, self.config)
        else:
            self._raw_json = None
            self.inline_report = {"novel": [], "inlined_sites": 0, "new_edges": [], "dropped": [], "kept": []}
        self.bodies = [Body(self, b) for b in j["bodies"]]
        self.by_id = {b.id: b for b in self.bodies}
        self.by_key = defaultdict(list)
        for b in self.bodies:
            self.by_key[b.key].append(b)
        self.adts = {a["path"]: a for a in j["adts"]}
        self.impls = j["impls"]
        self.traits = {t["path"]: t for t in j["traits"]}
        self.fns = {f["path"]: f for f in j["fns"]}
        self.consts = {c["path"]: c for c in j["consts"]}
        self._cg = None

    def ty(self, i):
        return Type(self, i)

    def pristine(self):
        """the same program WITHOUT the inlining normal form (novel helpers are functions of their own, closures are closures)"""
        if self.is_pristine:
            return self
        if self._pristine is None:
            import json as _json
            self._pristine = Program(_json.loads(self._raw_json), self.config, inline=False)
        return self._pristine

    # ------------------------------------------------------------ lookup
    def find(self, adt=None, name=None, trait=None, in_trait=None, closure=None, path_re=None):
        """Select bodies by stable attributes (self ADT path, item name, implemented trait)."""
        out = []
        for b in self.bodies:
            if b.kind == "Promoted":
                continue
            if closure is None and b.kind == "Closure":
                continue
            if closure is not None and (b.kind == "Closure") != closure:
                continue
            if name is not None and b.name != name:
                continue
            if adt is not None and b.self_adt != adt:
                continue
            if trait is not None and b.impl_trait != trait:
                continue
            if in_trait is not None and b.in_trait != in_trait:
                continue
            if path_re is not None and not re.search(path_re, b.id):
                continue
            out.append(b)
        return out

    def one(self, **kw):
        r = self.find(**kw)
        if len(r) != 1:
            raise LookupError(f"expected exactly one body for {kw}, found {[b.id for b in r]}")
        return r[0]

    def closures_of(self, body):
        roots = [body.id] + list(body.j.get("inlined", ()))     # closures of inlined novel helpers belong to the caller now
        return [b for b in self.bodies if b.kind == "Closure" and b.root in roots and any(b.id.startswith(r + "::") for r in roots)]

    _STD_VARIANTS = {"std::option::Option": ("None", "Some"), "std::result::Result": ("Ok", "Err"), "std::ops::ControlFlow": ("Continue", "Break"),
                     "core::option::Option": ("None", "Some"), "core::result::Result": ("Ok", "Err"), "core::ops::ControlFlow": ("Continue", "Break")}

    def variant_idx(self, adt, variant):
        adt = strip_generics(str(adt))
        vs = self._STD_VARIANTS.get(adt)
        if vs is None and adt in self.adts:
            vs = tuple(v["name"] for v in self.adts[adt]["variants"])
        if vs is None or variant not in vs:
            return None
        return vs.index(variant)

    def family(self, body):
        """the body and (transitively) the closures defined in it: one source-level function"""
        out = [body]
        for c in self.closures_of(body):
            for x in self.family(c) if c is not body else []:
                if x not in out:
                    out.append(x)
        return out

    def adt_impls(self, adt_path, trait=None):
        out = []
        for im in self.impls:
            t = Type(self, im["self_ty"])
            if t.adt == adt_path and (trait is None or im.get("trait") == trait):
                out.append(im)
        return out

    def trait_impls(self, trait):
        return [im for im in self.impls if im.get("trait") == trait]

    # ------------------------------------------------------------ call graph
    def callgraph(self):
        """body id -> set of body ids it may call (local bodies only). Trait-method calls that
        could not be resolved are over-approximated by every local impl of that method plus
        the provided default body; closures are callees of the body that creates them; function
        items used as values are callees of the body that mentions them."""
        if self._cg is not None:
            return self._cg
        # index: (trait path, method name) -> bodies
        impl_methods = defaultdict(list)
        for b in self.bodies:
            if b.kind == "Closure":
                continue
            if b.impl_trait:
                impl_methods[(b.impl_trait, b.name)].append(b)
            if b.in_trait:
                impl_methods[(b.in_trait, b.name)].append(b)
        cg = defaultdict(set)
        self._cg_sites = defaultdict(list)

        def add(src, dst, site):
            cg[src.id].add(dst.id)
            self._cg_sites[(src.id, dst.id)].append(site)

        for b in self.bodies:
            for c in b.calls():
                tgt = c.t.get("resolved")
                cal = c.callee
                if cal is None:
                    continue
                if tgt and tgt in self.by_id:
                    add(b, self.by_id[tgt], c)
                    continue
                if cal in self.by_id and not c.t.get("trait"):
                    add(b, self.by_id[cal], c)
                    continue
                tr = c.t.get("trait")
                if tr:
                    if tgt and c.t.get("resolved_local") is False:
                        continue  # resolved to a foreign impl
                    for m in impl_methods.get((tr, c.name), []):
                        add(b, m, c)
                    # Fn* traits: calling a closure value
            # closures and fn items mentioned as values
            for pos, s in b.stmts():
                if s["k"] != "assign":
                    continue
                rv = s["rv"]
                if rv["k"] == "agg" and rv.get("agg") == "closure" and rv["def"] in self.by_id:
                    add(b, self.by_id[rv["def"]], None)
                for o in _operands(rv):
                    if o["k"] == "const" and "fn" in o:
                        f = o["fn"]
                        if f in self.by_id:
                            add(b, self.by_id[f], None)
                        else:
                            # trait method as value, e.g. map(GuestMemoryRegion::last_addr)
                            for (tr, nm), ms in impl_methods.items():
                                if strip_generics(f) == f"{tr}::{nm}":
                                    for m in ms:
                                        add(b, m, None)
            for c in b.calls():
                for o in c.t["args"]:
                    if o["k"] == "const" and "fn" in o:
                        f = o["fn"]
                        if f in self.by_id:
                            add(b, self.by_id[f], c)
                        else:
                            for (tr, nm), ms in impl_methods.items():
                                if strip_generics(f) == f"{tr}::{nm}":
                                    for m in ms:
                                        add(b, m, c)
        self._cg = cg
        return cg

    def reach(self, start_ids):
        cg = self.callgraph()
        seen = set(start_ids)
        st = list(start_ids)
        parent = {}
        while st:
            u = st.pop()
            for v in cg.get(u, ()):
                if v not in seen:
                    seen.add(v)
                    parent[v] = u
                    st.append(v)
        return seen, parent

    def path_to(self, parent, target):
        p = [target]
        while p[-1] in parent:
            p.append(parent[p[-1]])
        return list(reversed(p))


def _operands(rv):
    k = rv["k"]
    if k in ("use", "cast", "repeat"):
        yield rv["op"]
    elif k == "bin":
        yield rv["a"]
        yield rv["b"]
    elif k == "un":
        yield rv["a"]
    elif k == "agg":
        yield from rv["ops"]


# ----------------------------------------------------------------------------- dominating facts

NEG = {"Lt": "Ge", "Le": "Gt", "Gt": "Le", "Ge": "Lt", "Eq": "Ne", "Ne": "Eq"}
SWAP = {"Lt": "Gt", "Le": "Ge", "Gt": "Lt", "Ge": "Le", "Eq": "Eq", "Ne": "Ne"}


_CMP_METHODS = {"lt": "Lt", "le": "Le", "gt": "Gt", "ge": "Ge", "eq": "Eq", "ne": "Ne"}


def _unref(t):
    t = deep_strip(t)
    while t[0] in ('ref', 'deref'):
        t = deep_strip(t[1])
    return t


def _mutable_parts(t, body=None):
    """components of a term whose value may change between two program points: multiply-assigned
    locals and memory reached through a deref — except memory behind a shared-reference parameter
    (`&T`): nothing in the analysed body can write it (interior mutability is not compared by facts)"""
    out = set()
    for s in subterms(t):
        if isinstance(s, tuple) and s and s[0] == 'var':
            out.add(s)
        if isinstance(s, tuple) and s and s[0] == 'deref':
            if body is not None:
                roots = [x for x in subterms(s[1]) if isinstance(x, tuple) and x and x[0] in ('param', 'var', 'unknown')]
                def _frozen(x):
                    if x[0] != 'param':
                        return False
                    ty = body.local_ty(x[1])
                    return not (ty.k in ('ref', 'ptr') and ty.j.get("mut")) and ty.k != 'ptr'
                if roots and all(_frozen(x) for x in roots):
                    continue
            out.add(s)
    return out


def _body_facts(self):
    """all branch facts of the body: list of dict(u, v, rel) where rel is
    ('cmp', op, a, b) | ('bool', term, truth) | ('discr', term, value)"""
    if getattr(self, "_facts", None) is not None:
        return self._facts
    facts = []
    for bb, ct, edges in self.branch_facts():
        c = deep_strip(ct)
        # a target reached for several values (`0 | 1 => ..`, or a listed value sharing the otherwise target) is reached under their
        # disjunction: no single value is known there, and facts are keyed by CFG edge
        ntgt = {}
        for (tgt, _truth) in edges:
            ntgt[tgt] = ntgt.get(tgt, 0) + 1
        shared = {t_ for t_, k_ in ntgt.items() if k_ > 1}
        all_edges = edges
        if shared:
            edges = [(t_, v_) for (t_, v_) in edges if t_ not in shared]
            if not edges:
                continue
        for (tgt, truth) in edges:
            if truth is None:
                continue
            rel = None
            if isinstance(truth, bool):
                cc, tr = c, truth
                while cc[0] == 'un' and cc[1] == 'Not':
                    cc, tr = deep_strip(cc[2]), not tr
                if cc[0] == 'bin' and cc[1] in NEG:
                    op = cc[1] if tr else NEG[cc[1]]
                    rel = ('cmp', op, deep_strip(cc[2]), deep_strip(cc[3]))
                elif cc[0] == 'call' and canon(cc[1]).split("::")[-2:-1] in (["PartialOrd"], ["PartialEq"]) and \
                        canon(cc[1]).split("::")[-1] in _CMP_METHODS and len(cc[2]) == 2:
                    op = _CMP_METHODS[canon(cc[1]).split("::")[-1]]
                    op = op if tr else NEG[op]
                    rel = ('cmp', op, _unref(cc[2][0]), _unref(cc[2][1]))
                else:
                    rel = ('bool', cc, tr)
                    # x.is_none() / is_some() / is_ok() / is_err() as a branch condition is a test of x's discriminant
                    if cc[0] == 'call' and len(cc[2]) == 1:
                        cn = canon(cc[1])
                        dv = {"Option::is_none": (0, 1), "Option::is_some": (1, 0), "Result::is_ok": (0, 1), "Result::is_err": (1, 0)}
                        for nm, (when_true, when_false) in dv.items():
                            if cn.endswith(nm):
                                facts.append({"u": bb, "v": tgt, "rel": ('discr', _unref(cc[2][0]), when_true if tr else when_false)})
            else:
                if c[0] == 'discr':
                    rel = ('discr', deep_strip(c[1]), truth)
                    vn = self.variant_names_of_switch(bb)
                    if vn and isinstance(truth, int) and truth in vn:
                        facts.append({"u": bb, "v": tgt, "rel": ('variant', deep_strip(c[1]), vn[truth])})
                    # `match a.cmp(&b) { Less | Equal | Greater }`: the variant of the Ordering IS the comparison
                    oc = deep_strip(c[1])
                    if oc[0] == 'call' and len(oc[2]) == 2 and canon(oc[1]).split("::")[-1] == "cmp" and re.search(r"\bOrd\b", str(oc[1])) and truth in _ORDERING:
                        facts.append({"u": bb, "v": tgt, "rel": ('cmp', _ORDERING[truth], _unref(oc[2][0]), _unref(oc[2][1]))})
                    # signed -> (at least as wide) unsigned conversion fails exactly for negative values
                    sg = _signed_to_unsigned(deep_strip(c[1]))
                    if sg is not None and truth in (0, 1):
                        facts.append({"u": bb, "v": tgt, "rel": ('cmp', 'Ge' if truth == 0 else 'Lt', sg, ('const', 0))})
                    # `y?`: Continue exactly when y is Ok/Some; `x.ok_or(e)` is Ok exactly when x is Some
                    for r2 in _discr_twins(deep_strip(c[1]), truth):
                        facts.append({"u": bb, "v": tgt, "rel": r2})
                    # x.map(f) / x.map_err(f) has the variant of x
                    inner = deep_strip(c[1])
                    while inner[0] == 'call' and inner[2] and canon(inner[1]).split("::")[-2:] in (
                            ["Option", "map"], ["Result", "map"], ["Result", "map_err"], ["Option", "as_ref"], ["Option", "as_mut"], ["Result", "as_ref"],
                            ["Result", "as_mut"], ["Option", "copied"], ["Option", "cloned"], ["Option", "as_deref"]):
                        inner = _unref(inner[2][0])
                        facts.append({"u": bb, "v": tgt, "rel": ('discr', inner, truth)})
                else:
                    rel = ('cmp', 'Eq', c, ('const', truth))
            facts.append({"u": bb, "v": tgt, "rel": rel})
            for r2 in _empty_len_twin(rel):
                facts.append({"u": bb, "v": tgt, "rel": r2})
        # the otherwise edge of a match on an Ordering: the comparison that is left over
        if edges and edges[-1][1] is None and c[0] == 'discr':
            oc = deep_strip(c[1])
            if oc[0] == 'call' and len(oc[2]) == 2 and canon(oc[1]).split("::")[-1] == "cmp" and re.search(r"\bOrd\b", str(oc[1])):
                left = {"Lt", "Eq", "Gt"} - {_ORDERING[v] for _t, v in all_edges[:-1] if v in _ORDERING}
                op = {frozenset(["Lt"]): "Lt", frozenset(["Eq"]): "Eq", frozenset(["Gt"]): "Gt", frozenset(["Lt", "Eq"]): "Le",
                      frozenset(["Gt", "Eq"]): "Ge", frozenset(["Lt", "Gt"]): "Ne"}.get(frozenset(left))
                if op:
                    facts.append({"u": bb, "v": edges[-1][0], "rel": ('cmp', op, _unref(oc[2][0]), _unref(oc[2][1]))})
        # the otherwise edge of a non-bool switch: value differs from every listed one
        if edges and edges[-1][1] is None:
            for (tgt, val) in all_edges[:-1]:
                if c[0] != 'discr':
                    facts.append({"u": bb, "v": edges[-1][0], "rel": ('cmp', 'Ne', c, ('const', val))})
    self._facts = facts
    return facts


_ORDERING = {255: "Lt", -1: "Lt", 0: "Eq", 1: "Gt"}      # discriminants of core::cmp::Ordering as the switch shows them (i8)


def _discr_twins(x, v, depth=0):
    out = []
    if depth > 3 or x[0] != 'call' or not x[2] or v not in (0, 1):
        return out
    cn = canon(x[1])
    inner = _unref(x[2][0])
    if cn.endswith("Try::branch"):
        # Continue (0) <=> the operand is a success. The operand's own variant numbering depends on its type.
        kind = None
        # the impl the call resolved to says what the operand is: `<Option<T> as Try>::branch` / `<Result<T, E> as Try>::branch`
        head = str(x[1]).split(" as ")[0]
        if head.startswith("<std::option::Option<") or head.startswith("<core::option::Option<"):
            kind = "Option"
        elif head.startswith("<std::result::Result<") or head.startswith("<core::result::Result<"):
            kind = "Result"
        if kind is None and inner[0] == 'call':
            ic = canon(inner[1]).split("::")
            if ic[-2:-1] == ["Result"] or ic[-1] in ("ok_or", "ok_or_else", "try_from", "try_into"):
                kind = "Result"
            elif ic[-2:-1] == ["Option"] and ic[-1] not in ("ok_or", "ok_or_else"):
                kind = "Option"
            elif ic[-1].startswith("checked_"):
                kind = "Option"
        if kind == "Result":
            out.append(('discr', inner, v))
            out.extend(_discr_twins(inner, v, depth + 1))
        elif kind == "Option":
            out.append(('discr', inner, 1 - v))
            out.extend(_discr_twins(inner, 1 - v, depth + 1))
    elif cn.split("::")[-2:] in (["Option", "ok_or"], ["Option", "ok_or_else"]):
        out.append(('discr', inner, 1 - v))
        out.extend(_discr_twins(inner, 1 - v, depth + 1))
    elif cn.split("::")[-2:] == ["Result", "ok"]:
        out.append(('discr', inner, 1 - v))
        out.extend(_discr_twins(inner, 1 - v, depth + 1))
    return out


_ORD_PRED = {"is_eq": "Eq", "is_ne": "Ne", "is_lt": "Lt", "is_le": "Le", "is_gt": "Gt", "is_ge": "Ge"}


def ordering_pred_as_cmp(t):
    """`a.cmp(&b).is_eq()` (is_ne / is_lt / is_le / is_gt / is_ge) is the comparison `a == b` (..): returns ('bin', op, a, b) or t.
    Only for Ord::cmp — a partial_cmp yields an Option and is a different term."""
    t0 = deep_strip(t)
    if t0[0] == 'call' and len(t0[2]) == 1 and canon(t0[1]).split("::")[-1] in _ORD_PRED and "Ordering" in canon(t0[1]):
        c = deep_strip(t0[2][0])
        if c[0] == 'call' and len(c[2]) == 2 and canon(c[1]).split("::")[-1] == "cmp" and re.search(r"\bOrd\b", str(c[1])):
            return ('bin', _ORD_PRED[canon(t0[1]).split("::")[-1]], _unref(c[2][0]), _unref(c[2][1]))
    return t


def rels_of_bool(term, truth):
    """the relations stated by `term == truth` for a boolean term (same normalisation as for branch conditions)"""
    cc, tr = deep_strip(term), truth
    while cc[0] == 'un' and cc[1] == 'Not':
        cc, tr = deep_strip(cc[2]), not tr
    out = []
    if cc[0] == 'bin' and cc[1] in NEG:
        op = cc[1] if tr else NEG[cc[1]]
        out.append(('cmp', op, deep_strip(cc[2]), deep_strip(cc[3])))
    elif cc[0] == 'call' and canon(cc[1]).split("::")[-2:-1] in (["PartialOrd"], ["PartialEq"]) and \
            canon(cc[1]).split("::")[-1] in _CMP_METHODS and len(cc[2]) == 2:
        op = _CMP_METHODS[canon(cc[1]).split("::")[-1]]
        op = op if tr else NEG[op]
        out.append(('cmp', op, _unref(cc[2][0]), _unref(cc[2][1])))
    else:
        out.append(('bool', cc, tr))
    for r in list(out):
        out.extend(_empty_len_twin(r))
        if r[0] == 'cmp' and r[2] != r[3]:
            out.append(('cmp', SWAP[r[1]], r[3], r[2]))
    return out


def _empty_len_twin(rel):
    """`x.is_empty()` and `x.len() == 0` are the same test: emit the fact in the other spelling too"""
    out = []
    if rel[0] == 'bool':
        c = rel[1]
        if c[0] == 'call' and c[1].endswith("::is_empty") and len(c[2]) == 1:
            ln = ('call', c[1][:-len("is_empty")] + "len", c[2], c[3] if len(c) > 3 else ())
            out.append(('cmp', 'Eq' if rel[2] else 'Ne', ln, ('const', 0)))
    elif rel[0] == 'cmp':
        for a, b, op in ((rel[2], rel[3], rel[1]), (rel[3], rel[2], SWAP[rel[1]])):
            a = deep_strip(a)
            if a[0] == 'call' and a[1].endswith("::len") and len(a[2]) == 1 and b[0] == 'const':
                emp = None
                if (op == 'Eq' and b[1] == 0) or (op == 'Lt' and b[1] == 1) or (op == 'Le' and b[1] == 0):
                    emp = True
                elif (op == 'Ne' and b[1] == 0) or (op == 'Gt' and b[1] == 0) or (op == 'Ge' and b[1] == 1):
                    emp = False
                if emp is not None:
                    out.append(('bool', ('call', a[1][:-len("len")] + "is_empty", a[2], a[3] if len(a) > 3 else ()), emp))
                break
    return out


_INTW = {"8": 8, "16": 16, "32": 32, "64": 64, "128": 128, "size": 64}


def _signed_to_unsigned(t):
    """TryFrom<iN>::try_from(x) for uM / x.try_into() with M >= N: returns x, else None"""
    if t[0] != 'call' or len(t[2]) != 1:
        return None
    m = re.search(r"TryFrom<i(8|16|32|64|128|size)> for u(8|16|32|64|128|size)>::try_from$", t[1])
    if not m and canon(t[1]).endswith("TryInto::try_into") and len(t) > 3 and len(t[3]) >= 2:
        m = re.fullmatch(r"i(8|16|32|64|128|size)\|u(8|16|32|64|128|size)", f"{t[3][0]}|{t[3][1]}")
    if m and _INTW[m.group(2)] >= _INTW[m.group(1)]:
        return deep_strip(t[2][0])
    return None


def _writes_between(self, v, use_pos, parts, edge, stop_blocks=()):
    """is any mutable part (var local / memory) possibly redefined on a path from block v to use_pos
    that does not cross `edge` again (and does not pass through one of `stop_blocks`)?"""
    if not parts:
        return False
    ub, ui = use_pos
    var_locals = {p[1] for p in parts if p[0] == 'var'}
    has_mem = any(p[0] == 'deref' for p in parts)
    # blocks reachable from v, not continuing past the use block, not re-crossing the edge
    seen = set()
    st = [v]
    seen.add(v)
    while st:
        x = st.pop()
        if x == ub:
            continue
        for y in self.succ(x):
            if (x, y) == edge or y in seen or (y in stop_blocks and y != ub):
                continue
            seen.add(y)
            st.append(y)
    # only blocks that can reach the use block matter
    region = [x for x in seen if x == ub or ub in self.reachable(x, removed_edges=(edge,), removed_nodes=tuple(s for s in stop_blocks if s != ub and s != x))]
    for x in region:
        blk = self.blocks[x]
        stmts = blk["stmts"]
        lim = ui if x == ub else len(stmts) + 1
        for si, s in enumerate(stmts):
            if si >= lim:
                break
            if s["k"] == "assign":
                l = s["lhs"]
                if "p" not in l and l["l"] in var_locals:
                    return True
                if "p" in l and has_mem and ('*' in l["p"]):
                    return True
                if "p" in l and l["l"] in var_locals:
                    return True
        if x != ub or lim > len(stmts):
            t = blk["term"]
            if t["k"] == "call":
                d = t["dest"]
                if "p" not in d and d["l"] in var_locals:
                    return True
                if has_mem:
                    # a call receiving a &mut to the memory could write it: be conservative only for
                    # calls that take a mutable reference argument
                    for ty in t.get("arg_tys", []):
                        tj = self.prog.types[ty]
                        if tj["k"] == "ref" and tj.get("mut"):
                            return True
    return False


def _facts_at(self, pos, _depth=0):
    """relations that hold whenever control reaches `pos` (edge dominance + no intervening write)"""
    out = _facts_at_direct(self, pos)
    if _depth > 4:
        return _derive(out)
    # value-carried facts: a dominating fact says a multiply-defined local holds a success value, and only one of its
    # definitions builds a success value (ok_def): control came through that definition, so what held there holds here
    # (unless written in between)
    seen = set()
    for rel in list(out):
        if rel[0] == 'bool' and deep_strip(rel[1])[0] == 'var' and deep_strip(rel[1]) not in seen:
            # a boolean assigned on several paths (the result of an inlined predicate helper): constants of the other truth value
            # are out; if one definition remains, control came through it and (when it is a condition) it had this truth value
            bt = deep_strip(rel[1])
            cs = self.phi_candidates(bt)
            if cs:
                live = [(dp, deep_strip(d)) for dp, d in cs if not (deep_strip(d)[0] == 'const' and bool(deep_strip(d)[1]) != rel[2])]
                if len(live) == 1:
                    seen.add(bt)
                    dpos, dterm = live[0]
                    stops = {dp[0] for (dp, _k, _pl) in self.defs(bt[1])}
                    carried = list(_facts_at(self, dpos, _depth + 1))
                    if dterm[0] != 'const':
                        carried.extend(rels_of_bool(dterm, rel[2]))
                    for r2 in carried:
                        parts = set()
                        for x in r2[1:]:
                            if isinstance(x, tuple):
                                parts |= _mutable_parts(x, self)
                        parts = {p_ for p_ in parts if not (p_[0] == 'var' and p_[1] == bt[1])}
                        if _writes_between(self, dpos[0], pos, parts, None, tuple(sorted(stops))):
                            continue
                        if r2 not in out:
                            out.append(r2)
            continue
        if rel[0] != 'discr':
            continue
        t, v = deep_strip(rel[1]), rel[2]
        via_branch = False
        if t[0] == 'call' and canon(t[1]).endswith('Try::branch'):
            t, via_branch = deep_strip(t[2][0]), True
        if t in seen:
            continue
        cs = self.phi_candidates(t)
        if not cs:
            continue
        sel = []
        maybe = {}
        unknown = False
        for dpos, d in cs:
            d = deep_strip(d)
            if d[0] == 'agg' and d[2] is not None:
                vi = (0 if d[2] in Body._OK_VARIANTS else 1) if via_branch else self.prog.variant_idx(d[1], d[2])
                if vi is None:
                    unknown = True
                elif vi == v:
                    sel.append(dpos)
            elif d[0] == 'call' and canon(d[1]).endswith("FromResidual::from_residual"):
                if (via_branch and v == 1) or (not via_branch and v == 1 and self._ty_is_result(t)):
                    sel.append(dpos)
            elif d[0] == 'call':
                # defined by a fallible call: it MAY be the tested variant; if so the call itself had that variant
                sel.append(dpos)
                maybe[dpos] = ('discr', d, v)
            else:
                unknown = True
        if unknown or len(sel) != 1:
            continue
        seen.add(t)
        dpos = sel[0]
        if dpos in maybe and maybe[dpos] not in out and not via_branch:
            out.append(maybe[dpos])
        # "control came through this definition" means: as the LAST definition of the local — paths that run through another
        # (or again through this) definition of it are not the ones the fact speaks about
        roots = {s[1] for s in subterms(t) if isinstance(s, tuple) and s and s[0] == 'var' and self._is_phi(s[1])}
        stops = set()
        for l in roots:
            for (dp, _k, _pl) in self.defs(l):
                stops.add(dp[0])
        for r2 in _facts_at(self, dpos, _depth + 1):
            parts = set()
            for x in r2[1:]:
                if isinstance(x, tuple):
                    parts |= _mutable_parts(x, self)
            parts = {p_ for p_ in parts if not (p_[0] == 'var' and p_[1] in roots)}
            if _writes_between(self, dpos[0], pos, parts, None, tuple(sorted(stops))):
                continue
            if r2 not in out:
                out.append(r2)
    return _derive(out)


def _derive(out):
    """a <= b together with a != b is a < b (the two-step form of a strict comparison)"""
    cmps = {(r[1], r[2], r[3]) for r in out if r[0] == 'cmp'}
    for (op, a, b) in list(cmps):
        if op == 'Le' and (('Ne', a, b) in cmps or ('Ne', b, a) in cmps):
            for n in (('cmp', 'Lt', a, b), ('cmp', 'Gt', b, a)):
                if n not in out:
                    out.append(n)
        if op == 'Ge' and (('Ne', a, b) in cmps or ('Ne', b, a) in cmps):
            for n in (('cmp', 'Gt', a, b), ('cmp', 'Lt', b, a)):
                if n not in out:
                    out.append(n)
    return out


def _facts_at_direct(self, pos):
    out = []
    for f in _body_facts(self):
        u, v = f["u"], f["v"]
        if not self.edge_dominates(u, v, pos[0]):
            continue
        rel = f["rel"]
        parts = set()
        for x in rel[1:]:
            if isinstance(x, tuple):
                parts |= _mutable_parts(x, self)
        if _writes_between(self, v, pos, parts, (u, v)):
            continue
        out.append(rel)
        # the same relation read from the other side (a < b  ==  b > a): rules may look for either orientation
        if rel[0] == 'cmp' and rel[2] != rel[3]:
            out.append(('cmp', SWAP[rel[1]], rel[3], rel[2]))
    return out


def _facts_by_pred(self, bb, depth=0):
    """for a block reached over several edges (a join, where no single branch fact dominates): one fact list per incoming edge — the
    facts that hold at the end of the predecessor plus what that edge itself states; a predecessor that is a bare join is expanded in
    turn (depth-bounded). Lets a rule ask "on EVERY way into this block, does X hold?"."""
    out = []
    for u in self.pred(bb):
        if u not in self.live_blocks():
            continue
        fs = list(self.facts_at((u, len(self.blocks[u]["stmts"]))))
        fs += [f["rel"] for f in self.body_facts() if f["u"] == u and f["v"] == bb]
        if not fs and depth < 3 and len(self.pred(u)) > 1:
            out.extend(_facts_by_pred(self, u, depth + 1))
        else:
            out.append(fs)
    return out


def _skip_facts_at(self, pos):
    """the dominating branch facts at pos whose branch had a REAL alternative — a sibling edge from which a normal return is still
    reachable. A fact established by an assertion (the other edge only panics) is a precondition of the whole function, not a condition
    under which the code at pos is skipped."""
    out = []
    ex = self.exits()
    for f in self.body_facts():
        u, v = f["u"], f["v"]
        if u not in self.live_blocks() or not self.edge_dominates(u, v, pos[0]):
            continue
        sib = [w for w in self.succ(u) if w != v]
        if any(any(x in self.reachable(w) for x in ex) for w in sib):
            out.append(f["rel"])
    return out


Body.body_facts = _body_facts
Body.facts_at = _facts_at
Body.facts_by_pred = _facts_by_pred
Body.skip_facts_at = _skip_facts_at


def implies_ge(facts, a, b):
    """do the facts imply a >= b (unsigned)?"""
    a, b = deep_strip(a), deep_strip(b)
    for r in facts:
        if r[0] != 'cmp':
            continue
        _, op, x, y = r
        if x == a and y == b and op in ('Ge', 'Gt', 'Eq'):
            return True
        if x == b and y == a and op in ('Le', 'Lt', 'Eq'):
            return True
    if b[0] == 'const' and isinstance(b[1], int):
        if b[1] == 0:
            return True
        for r in facts:
            if r[0] != 'cmp':
                continue
            _, op, x, y = r
            if x == a and y[0] == 'const' and isinstance(y[1], int):
                if op == 'Ne' and y[1] == 0 and b[1] == 1:
                    return True
                if op == 'Gt' and y[1] + 1 >= b[1]:
                    return True
                if op == 'Ge' and y[1] >= b[1]:
                    return True
            if y == a and x[0] == 'const' and isinstance(x[1], int):
                if op == 'Ne' and x[1] == 0 and b[1] == 1:
                    return True
                if op == 'Lt' and x[1] + 1 >= b[1]:
                    return True
                if op == 'Le' and x[1] >= b[1]:
                    return True
    return False


def implies_nonzero(facts, a):
    """do the facts imply a != 0 (unsigned)?"""
    a = deep_strip(a)
    for r in facts:
        if r[0] != 'cmp':
            continue
        _, op, x, y = r
        if x == a and y[0] == 'const' and isinstance(y[1], int):
            if (op == 'Ne' and y[1] == 0) or (op == 'Gt' and y[1] >= 0) or (op == 'Ge' and y[1] >= 1) or (op == 'Eq' and y[1] != 0):
                return True
    return False


def implies_lt(facts, a, b):
    """do the facts imply a < b ?"""
    a, b = deep_strip(a), deep_strip(b)
    for r in facts:
        if r[0] != 'cmp':
            continue
        _, op, x, y = r
        if x == a and y == b and op == 'Lt':
            return True
        if x == b and y == a and op == 'Gt':
            return True
    return False
