"""Complete failure summaries of the crate's own fallible helpers, for "this call cannot fail here" arguments (C07: `unwrap()` /
`expect()` of a crate-local checked function).

For a local function f returning Result/Option, `alternatives(f)` enumerates EVERY way it can return Err/None, each described in
f's own parameters:
    ("overflow", a, b)   — `a.checked_add(b)` is None and that failure is forwarded
    ("facts", [cmp..])   — an Err/None built directly; the comparison facts that dominate that return
or None when some failing return is not understood (then nothing is claimed: fail closed).
A call f(args) cannot fail at a program point if every alternative, with the arguments substituted, is refuted there:
an overflow by `add_fits`, a fact set by refuting any one of its comparisons.
"""
from .mir import deep_strip, canon, map_children, strip_generics
from .pat import unref
from . import checks
from .bounds import Bounds, norm

NEG = {"Gt": ("le", 0), "Ge": ("lt", 0), "Lt": ("le", 1), "Le": ("lt", 1)}


def subst(t, args):
    """replace ('param', i, _) by args[i-1]"""
    if not isinstance(t, tuple) or not t:
        return t
    if t[0] == 'param':
        return args[t[1] - 1] if 0 < t[1] <= len(args) else ('unknown', 'param')
    return map_children(t, lambda x: subst(x, args))


class FailSummaries:
    def __init__(self, prog, eff):
        self.prog, self.eff = prog, eff
        self.S = checks.Summaries(prog, eff)
        self.memo = {}

    def _body(self, path):
        b = self.prog.by_id.get(path)
        if b is not None:
            return b
        key = strip_generics(canon(path))
        c = [x for x in self.prog.bodies if strip_generics(x.id) == strip_generics(path) or (x.in_trait and canon(strip_generics(x.id)) == key)]
        return c[0] if len(c) == 1 else None

    def alternatives(self, path, depth=0):
        if path in self.memo:
            return self.memo[path]
        self.memo[path] = None
        b = self._body(path)
        if b is None or depth > 3:
            return None
        out = []
        for pos, t in b.return_terms():
            d = unref(t)
            if d[0] == 'agg' and d[2] in ('Ok', 'Some'):
                continue
            X = checks.error_passthrough(t)
            if X is None and d[0] == 'call' and canon(d[1]).split("::")[-1] in ("ok_or", "ok_or_else", "map", "map_err", "and_then") and d[2]:
                # `x.checked_add(y).ok_or(e)` / `.map(Ctor)` returned as the tail expression: fails exactly when the receiver fails
                # (and_then: also when its closure fails — not understood here)
                if canon(d[1]).split("::")[-1] == "and_then":
                    return None
                X = unref(d[2][0])
            if X is not None:
                p = checks.producer(X)
                if p[0] == 'call' and canon(p[1]).endswith("num::checked_add") and len(p[2]) == 2:
                    out.append(("overflow", norm(p[2][0]), norm(p[2][1])))
                    continue
                if p[0] == 'call' and canon(p[1]).endswith("num::checked_sub") and len(p[2]) == 2:
                    out.append(("facts", [("Lt", norm(p[2][0]), norm(p[2][1]))]))
                    continue
                if p[0] == 'call' and self._body(p[1]) is not None:
                    sub = self.alternatives(p[1], depth + 1)
                    if sub is None:
                        return None
                    args = [norm(a) for a in p[2]]
                    for alt in sub:
                        out.append(self._subst_alt(alt, args))
                    continue
                return None
            if d[0] == 'agg' and d[2] in ('Err', 'None'):
                # built on the None arm of a `match a.checked_add(b)` / `a.checked_sub(b)`
                arm = None
                for r in b.facts_at(pos):
                    if r[0] == 'discr' and r[2] == 0:
                        p = unref(r[1])
                        if p[0] == 'call' and len(p[2]) == 2 and canon(p[1]).endswith("num::checked_add"):
                            arm = ("overflow", norm(p[2][0]), norm(p[2][1]))
                        elif p[0] == 'call' and len(p[2]) == 2 and canon(p[1]).endswith("num::checked_sub"):
                            arm = ("facts", [("Lt", norm(p[2][0]), norm(p[2][1]))])
                if arm:
                    out.append(arm)
                    continue
                fs = [(r[1], norm(r[2]), norm(r[3])) for r in b.facts_at(pos) if r[0] == 'cmp']
                if not fs:
                    return None
                out.append(("facts", fs))
                continue
            return None
        self.memo[path] = out
        return out

    def _subst_alt(self, alt, args):
        if alt[0] == "overflow":
            return ("overflow", norm(subst(alt[1], args)), norm(subst(alt[2], args)))
        return ("facts", [(op, norm(subst(x, args)), norm(subst(y, args))) for op, x, y in alt[1]])

    def _sums(self, t):
        """ok(f(a, b)) for a local checked-sum helper f  ->  a + b"""
        if not isinstance(t, tuple) or not t:
            return t
        t = map_children(t, self._sums)
        if t[0] == 'ok':
            p = checks.producer(t)
            if p[0] == 'call':
                cs = None
                if canon(p[1]).endswith("num::checked_add") and len(p[2]) == 2:
                    cs = (1, 2)
                elif self._body(p[1]) is not None:
                    cs = self.S.checked_sum(self._body(p[1]).id)
                if cs:
                    return norm(('bin', 'Add', p[2][cs[0] - 1], p[2][cs[1] - 1]))
        return t

    def cannot_fail(self, call, facts):
        """call: ('call', path, args, ..) in the caller's terms; facts: dominating facts at the call. Returns a reason or None."""
        call = unref(call)
        if call[0] != 'call' or self._body(call[1]) is None:
            return None
        alts = self.alternatives(self._body(call[1]).id)
        if alts is None or not alts:
            return None
        args = [norm(self.eff.inline(a)) for a in call[2]]
        B = Bounds(facts)
        why = []
        for alt in alts:
            alt = self._subst_alt(alt, args)
            if alt[0] == "overflow":
                a, c = self._sums(alt[1]), self._sums(alt[2])
                w = B.add_fits(a, c)
                if not w:
                    return None
                why.append("sum cannot overflow")
                continue
            refuted = False
            for op, x, y in alt[1]:
                if op not in NEG:
                    continue
                x, y = self._sums(norm(self.eff.inline(x))), self._sums(norm(self.eff.inline(y)))
                meth, swap = NEG[op]
                a, c = (y, x) if swap else (x, y)
                if getattr(B, meth)(a, c):
                    refuted = True
                    break
            if not refuted:
                return None
            why.append("range condition refuted")
        return f"every failing return of the callee ({len(alts)}) is excluded here: " + ", ".join(sorted(set(why)))
